"""C19 - the bandit agent and reward follow their published update rules.

Model: coq/Model/Bandit.v   Theorems: coq/Properties/C19.v
Correspondence: the real MABEpsilonGreedy / MABCalibrationEnv objects are driven by generated call sequences; the
outputs of the agent's numpy Generator (random(), choice()/integers()) are recorded by a proxy placed around
`agent.random_generator` and handed to the Coq model as inputs; after every call the implementation's values
(exact rationals of its floats) are compared inside Coq with the model's exact rational values.
Direct oracle: the property statement on the implementation's observations with Python Fractions (no model).
Round 4 (generator sweep): gen_case_x / gen_case_long - argument representations, scales, reassigned public attributes,
assigned estimates / counts, env.step / env.reset / several sessions, long histories; see design.d/C19.md.
"""
from __future__ import annotations

import json
import math
import re
from collections import Counter
from fractions import Fraction

from common import clist, cnat

IMPORTS = "From Coq Require Import List ZArith QArith Uint63.\nFrom BlackIt Require Import Model.Bandit."
CASE_T = "nat * Q * Q * Q * list xop"
EXN = {"ValueError": "ValueError", "ZeroDivisionError": "ZeroDivisionError", "IndexError": "IndexError"}
REL = Fraction(1, 10**12)
ABS = Fraction(1, 10**15)          # correspondence (Model/Bandit.v `close`)
ABS_ORACLE = Fraction(1, 10**320)  # direct oracle: a few units of the subnormal grid only (round 4: tiny scales are generated)
FULL_EVERY = 8
SPECIAL_SEEDS = [0, 0, 1, 2**32 - 1, 2**32, 2**63 - 1, 2**64 + 5]


# ------------------------------------------------------------------------------------------ implementation driver
class GenProxy:
    """Stands where the agent's numpy Generator is; records (and optionally scripts) what policy() draws."""

    def __init__(self, gen):
        self._g = gen
        self.calls = []          # (name, value) of the current policy() call
        self.script_u = None     # if not None: value random() must return on its next call
        self.script_alt = None   # if not None: value the next choice()/integers() must return

    def random(self, *a, **k):
        v = self._g.random(*a, **k)
        if self.script_u is not None and not a and not k:
            v, self.script_u = self.script_u, None
        self.calls.append(("random", v))
        return v

    def choice(self, *a, **k):
        v = self._g.choice(*a, **k)
        if self.script_alt is not None:
            import numpy as np

            v = np.full_like(v, self.script_alt) if hasattr(v, "shape") and getattr(v, "shape", ()) != () else type(v)(self.script_alt)
            self.script_alt = None
        self.calls.append(("choice", v))
        return v

    def integers(self, *a, **k):
        v = self._g.integers(*a, **k)
        if self.script_alt is not None:
            import numpy as np

            v = np.full_like(v, self.script_alt) if hasattr(v, "shape") and getattr(v, "shape", ()) != () else type(v)(self.script_alt)
            self.script_alt = None
        self.calls.append(("integers", v))
        return v

    def __getattr__(self, name):
        self.calls.append(("other:" + name, None))
        return getattr(self._g, name)


def _first_int(v):
    try:
        import numpy as np

        return int(np.asarray(v).reshape(-1)[0])
    except Exception:  # noqa: BLE001
        return None


def _rep(x, tag):
    """The value x (a Python number of the case) in the representation `tag` the caller hands it over in."""
    import numpy as np

    if x is None or tag in (None, "py"):
        return x
    if tag == "np.float64":
        return np.float64(x)
    if tag == "np.float32":
        y = np.float32(x)
        return y if float(y) == x else x          # only values a float32 holds exactly (the generator rounds them)
    if tag == "int":
        return int(x) if float(x).is_integer() and abs(x) < 2**53 and not (x == 0 and math.copysign(1, x) < 0) else x
    if tag == "np.int64":
        return np.int64(x) if float(x).is_integer() and abs(x) < 2**62 and not (x == 0 and math.copysign(1, x) < 0) else x
    raise AssertionError(tag)


def _py(x):
    """numpy scalars of an observation as the Python number of the same value (type names are recorded apart)."""
    import numpy as np

    if isinstance(x, (np.floating, np.bool_)):
        return float(x)
    if isinstance(x, np.integer):
        return int(x)
    if isinstance(x, np.ndarray) and x.shape == ():
        return _py(x[()])
    return x


def _snap(lst):
    return [_py(x) for x in lst]


def _nb_queue():
    """A queue whose get() never blocks: a step() that reads more than the scheduler wrote raises queue.Empty."""
    from queue import Queue

    class NBQueue(Queue):
        def get(self, block=True, timeout=None):  # noqa: ARG002, FBT002
            return super().get(block=False)

    return NBQueue()


def _drain(q):
    out = []
    while q.qsize():
        out.append(_py(q.get_nowait()))
    return out


def run_impl(case, proxied=True, ctor_seed=None):
    """Run the call sequence of `case` on fresh real objects; one observation per op.

    proxied=False: nothing is placed around the agent's generator (no scripted draws possible): the run the
    determinism clause compares with.  ctor_seed: another constructor seed (for cases that reseed at once).
    """
    import numpy as np
    from black_it.schedulers.rl.agents.epsilon_greedy import MABEpsilonGreedy
    from black_it.schedulers.rl.envs.mab import MABCalibrationEnv

    n = case["n"]
    rep = case.get("rep") or {}
    seed = case["seed"] if ctor_seed is None else ctor_seed
    agent = MABEpsilonGreedy(_rep(n, rep.get("n")), _rep(case["alpha"], rep.get("alpha")), _rep(case["eps"], rep.get("eps")),
                             _rep(case["init"], rep.get("init")), random_state=seed)
    env = MABCalibrationEnv(max(n, 1))
    env._in_queue = _nb_queue()  # noqa: SLF001  (what the scheduler writes to; never blocks here)
    proxy = None

    def install_proxy():
        nonlocal proxy
        proxy = GenProxy(agent.random_generator)
        agent._BaseSeedable__random_generator = proxy  # noqa: SLF001  (the attribute behind the read-only property)
        return agent.random_generator is proxy

    ok_proxy = install_proxy() if proxied else True
    obs = []
    last_act, last_rew = 0, 0.0
    first = {"Q": _snap(agent.Q), "C": _snap(agent.actions_count), "ref": env._curr_best_loss, "proxied": ok_proxy}  # noqa: SLF001
    for op in case["ops"]:
        k = op["k"]
        o = {"exc": None}
        try:
            if k == "policy":
                if proxy is not None:
                    proxy.calls = []
                    proxy.script_u = op.get("u")
                    proxy.script_alt = op.get("alt")
                o["Qat"] = _snap(agent.Q)
                try:
                    act = agent.policy(0)
                finally:
                    if proxy is not None:
                        proxy.script_u = proxy.script_alt = None
                        o["calls"] = [c[0] for c in proxy.calls]
                        us = [float(c[1]) for c in proxy.calls if c[0] == "random"]
                        alts = [_first_int(c[1]) for c in proxy.calls if c[0] in ("choice", "integers")]
                        o["u"] = us[0] if us else None
                        o["alt"] = alts[0] if alts else None
                o["act"] = int(act)
                o["act_type"] = type(act).__name__
                last_act = int(act)
            elif k == "learn":
                a = last_act if op.get("a") is None else op["a"]
                r = last_rew if op.get("r") is None else op["r"]
                o["a"], o["r"] = a, _py(r)
                o["Qb"], o["Cb"] = _snap(agent.Q), _snap(agent.actions_count)
                try:
                    agent.learn(0, _rep(a, rep.get("action")), r if op.get("r") is None else _rep(r, rep.get("reward")), 0)
                finally:
                    o["Q"], o["C"] = _snap(agent.Q), _snap(agent.actions_count)
                    o["Qtypes"] = sorted({type(x).__name__ for x in agent.Q})
            elif k == "reset":
                agent.reset()
                o["Q"], o["C"] = _snap(agent.Q), _snap(agent.actions_count)
            elif k == "full":
                o["Q"], o["C"] = _snap(agent.Q), _snap(agent.actions_count)
            elif k == "setref":
                env._curr_best_loss = _rep(op["x"], rep.get("loss"))  # noqa: SLF001  (what RLScheduler.update does, rl_scheduler.py:152)
            elif k == "reward":
                o["ref_before"] = _py(env._curr_best_loss)  # noqa: SLF001
                try:
                    rew = env.get_reward(None, _rep(op["loss"], rep.get("loss")))
                    o["rew"] = _py(rew)
                    o["rew_type"] = type(rew).__name__
                    last_rew = rew
                finally:
                    o["ref"] = _py(env._curr_best_loss)  # noqa: SLF001
            # ------------------------------------------------------------------ round 4
            elif k == "setalpha":
                agent.alpha = _rep(op["x"], rep.get("alpha"))
            elif k == "seteps":
                agent.eps = _rep(op["x"], rep.get("eps"))
            elif k == "setn":
                agent.n_actions = _rep(op["n"], rep.get("n"))
            elif k == "reseed":
                agent.random_state = op["seed"]
                o["random_state"] = agent.random_state
                if proxied:
                    o["proxied"] = install_proxy()
            elif k == "setstate":
                o["Qb"], o["Cb"] = _snap(agent.Q), _snap(agent.actions_count)
                how = op.get("how", "assign")
                if op.get("Q") is not None:
                    if how == "slice":
                        agent.Q[:] = list(op["Q"])
                    elif how == "array":
                        agent.Q = np.array(op["Q"], dtype=np.float64)
                    else:
                        agent.Q = list(op["Q"])
                if op.get("Qidx") is not None:
                    for j, v in op["Qidx"]:
                        agent.Q[j] = v
                if op.get("C") is not None:
                    if how == "slice":
                        agent.actions_count[:] = list(op["C"])
                    elif how == "array":
                        agent.actions_count = np.array(op["C"], dtype=np.int64)
                    else:
                        agent.actions_count = list(op["C"])
                o["Q"], o["C"] = _snap(agent.Q), _snap(agent.actions_count)
            elif k == "envreset":
                o["ref_before"] = _py(env._curr_best_loss)  # noqa: SLF001
                try:
                    ret = env.reset(seed=op.get("seed"))
                    o["ret"] = [_py(ret[0]), ret[1]] if isinstance(ret, tuple) and len(ret) == 2 else repr(ret)
                finally:
                    o["ref"] = _py(env._curr_best_loss)  # noqa: SLF001
            elif k == "step":
                a = last_act if op.get("a") is None else op["a"]
                o["a"] = a
                o["ref_before"] = _py(env._curr_best_loss)  # noqa: SLF001
                msg = None if op["loss"] is None else (np.array([0.25, 0.5]), _rep(op["loss"], rep.get("loss")))
                env._in_queue.put(msg)  # noqa: SLF001
                try:
                    ret = env.step(_rep(a, rep.get("action")))
                    o["ret_len"] = len(ret)
                    o["obs"], o["rew"], o["term"], o["trunc"], o["info"] = _py(ret[0]), _py(ret[1]), ret[2], ret[3], ret[4]
                    o["rew_type"] = type(ret[1]).__name__
                    if op["loss"] is not None:
                        last_rew = ret[1]
                finally:
                    o["ref"] = _py(env._curr_best_loss)  # noqa: SLF001
                    o["outq"] = _drain(env._out_queue)  # noqa: SLF001
                    o["inq_left"] = len(_drain(env._in_queue))  # noqa: SLF001
            else:
                raise AssertionError(k)
        except Exception as e:  # noqa: BLE001
            o["exc"] = type(e).__name__
            o["msg"] = str(e)[:120]
        obs.append(o)
    return {"first": first, "obs": obs, "n_actions_attr": _py(agent.n_actions)}


# ------------------------------------------------------------------------------------------ generators
def _pick_reward(rng, pool):
    if pool == "ties":
        return rng.choice([0.0, 0.25, 0.5, 1.0, 1.0, 0.5])
    if pool == "unit":
        return rng.random()
    if pool == "signed":
        return rng.uniform(-3.0, 3.0)
    return rng.choice([0.0, 1.0])


def _next_loss(rng, ref_guess, style):
    """A loss relative to the reference the generator believes the env holds (only used to steer branches)."""
    c = rng.below(100)
    if ref_guess is None:
        return rng.uniform(0.5, 10.0)
    if style == "signed":
        if c < 10:
            return ref_guess
        return rng.uniform(-2.0, 2.0)
    if c < 8:
        return ref_guess                                  # exactly equal: not an improvement
    if c < 10:
        return 0.0                                        # a perfect fit
    if c < 55:
        return ref_guess * rng.choice([0.5, 0.75, 0.9, rng.uniform(0.05, 0.999)])   # improvement
    if c < 60:
        return math.nextafter(ref_guess, -math.inf)       # improvement by one ulp
    if c < 65:
        return math.nextafter(ref_guess, math.inf)
    return ref_guess * rng.uniform(1.0, 3.0) + rng.choice([0.0, 0.5])


def gen_case(rng, max_steps):
    n = rng.randint(1, 8)
    if rng.below(50) == 0:
        n = 0
    alpha = rng.choice([-1, -1.0, 0.1, 0.5, 1.0, 1, -1.0, 0.1])
    eps = rng.choice([0, 0.0, 0.1, 0.5, 1.0, 1, 0.1, 0.5])
    init = rng.choice([0.0, 0.0, 0.5, 1.0, -1.0, 5.0, 0.1, rng.uniform(-2.0, 2.0), 0])
    seed = rng.below(2**32)
    mode = rng.choice(["loop", "loop", "loop", "direct", "free"])
    pool = rng.choice(["ties", "ties", "unit", "signed", "bern"])
    style = rng.choice(["pos", "pos", "pos", "signed"])
    scripted = rng.below(4) == 0
    steps = rng.randint(1, max_steps)
    if alpha == 0.1:
        # 0.1 is m/2^55: every learn adds 55 bits to the exact estimate of that action and Coq's rational arithmetic
        # is quadratic in the size (a greedy agent may put all learns on one action): 64 rounds stay under ~2 s
        steps = min(steps, 64)
    ops = []

    def policy_op():
        op = {"k": "policy"}
        if scripted and rng.below(2) == 0:
            e = float(eps)
            cand = [e, math.nextafter(e, -1.0), math.nextafter(e, 2.0), 0.0, 1.0 - 2.0**-53, 0.5]
            cand = [u for u in cand if 0.0 <= u < 1.0]
            op["u"] = rng.choice(cand)
            if n > 0 and rng.below(2) == 0:
                op["alt"] = rng.below(n)
        return op

    ref_guess = None
    if mode == "loop":
        ref_guess = rng.choice([1.0, 2.0, 0.5, rng.uniform(0.1, 10.0), rng.uniform(0.1, 10.0)])
        if style == "signed" and rng.below(3) == 0:
            ref_guess = rng.choice([0.0, -1.0, rng.uniform(-2, 2)])
        ops.append({"k": "setref", "x": ref_guess})
        for _ in range(steps):
            ops.append(policy_op())
            loss = _next_loss(rng, ref_guess, style)
            ops.append({"k": "reward", "loss": loss})
            if ref_guess is not None and loss < ref_guess and not (ref_guess == 0.0):
                ref_guess = loss
            ops.append({"k": "learn", "a": None, "r": None})
            if rng.below(60) == 0:
                ops.append({"k": "reset"})
            if ref_guess == 0.0 and rng.below(3) == 0:
                # a reference of 0 can never improve again with non-negative losses: start afresh (as a new scheduler would)
                ref_guess = rng.uniform(0.1, 10.0)
                ops.append({"k": "setref", "x": ref_guess})
    elif mode == "direct":
        for _ in range(steps):
            ops.append(policy_op())
            ops.append({"k": "learn", "a": None, "r": _pick_reward(rng, pool)})
    else:
        for _ in range(steps):
            c = rng.below(100)
            if c < 30:
                ops.append(policy_op())
            elif c < 65:
                a = rng.below(max(n, 1))
                if rng.below(25) == 0:
                    a = n + rng.below(3)                  # out of range: IndexError
                ops.append({"k": "learn", "a": a, "r": _pick_reward(rng, pool)})
            elif c < 72:
                ops.append({"k": "learn", "a": None, "r": None})
            elif c < 87:
                loss = _next_loss(rng, ref_guess, style)
                ops.append({"k": "reward", "loss": loss})
                if ref_guess is not None and loss < ref_guess and not (ref_guess == 0.0):
                    ref_guess = loss
            elif c < 93:
                ref_guess = rng.choice([None, 0.0, 1.0, rng.uniform(0.1, 5.0), rng.uniform(-1.0, 5.0)])
                ops.append({"k": "setref", "x": ref_guess})
            elif c < 96:
                ops.append({"k": "reset"})
            else:
                ops.append({"k": "full"})
    return {"n": n, "alpha": alpha, "eps": eps, "init": init, "seed": seed, "mode": mode, "pool": pool,
            "scripted": scripted, "ops": ops}


# ------------------------------------------------------------------------------------------ generators (round 4)
def _f32(x):
    import struct

    return struct.unpack("f", struct.pack("f", x))[0]


def _frac_bits(x):
    """Number of binary digits after the point of the float x (what every learn with step x adds to the exact estimate)."""
    d = Fraction(x).denominator
    return d.bit_length() - 1


def _near(rng, x):
    """A value equal or very close to x (same float32, within np.isclose's default tolerance, one ulp, ...)."""
    c = rng.below(8)
    if c == 0:
        return x
    if c == 1:
        return math.nextafter(x, math.inf)
    if c == 2:
        return math.nextafter(x, -math.inf)
    if c == 3:
        return x * (1 + 2.0**-30)
    if c == 4:
        return x * (1 - 2.0**-27)
    if c == 5:
        return x * (1 + 2.0**-20)
    if c == 6:
        return x + 2.0**-40 * (abs(x) if x else 1.0)
    return x * (1 - 2.0**-45)


def _x_reward(rng, pool, base):
    if pool == "far":                       # far from the origin relative to the spread
        return base + rng.choice([0.0, 1.0, -1.0, rng.uniform(-1.0, 1.0), 0.5])
    if pool == "tiny":
        return rng.choice([rng.random() * 1e-200, 3e-310, 5e-324, 0.0, -0.0, rng.random() * 1e-200])
    if pool == "huge":
        return rng.uniform(-1.0, 1.0) * 1e150
    if pool == "near":
        return _near(rng, base)
    if pool == "zeros":
        return rng.choice([0.0, -0.0, 0.0, 1.0, 5e-324])
    return _pick_reward(rng, pool)


def _state_list(rng, m, pool, base):
    vals = [_x_reward(rng, pool, base) for _ in range(m)]
    if m >= 2 and pool in ("near", "far"):
        # the unique maximum sits after an entry that is merely close to it
        top = max(vals)
        j = rng.randint(1, m - 1)
        vals[j] = math.nextafter(top, math.inf) if rng.below(2) else top * (1 + 2.0**-28) if top > 0 else top + 2.0**-28
        vals[rng.below(j)] = top
    return vals


def gen_case_x(rng, max_steps):
    """Round 4: representations, scales, reassigned attributes, reused objects, env.step / env.reset, sessions."""
    n = rng.randint(1, 8)
    c = rng.below(100)
    if c < 2:
        n = 0
    elif c < 8:
        n = rng.choice([11, 12, 16, 33, 64])
    alpha_pool = rng.choice([[-1, 0.5, 1.0, -1.0], [-1, 0.5, 1.0, 0.25, 0.75, 0, 0.0, 1], [-1.0, 0.1, 0.9, rng.random(), 2.0**-20]])
    alpha = rng.choice(alpha_pool)
    eps_pool = rng.choice([[0, 0.0, 0.1, 0.5, 1.0, 1], [0.0, 0.25, rng.random(), 1.0 - 2.0**-53, 1e-300, 5e-324, 1.0]])
    eps = rng.choice(eps_pool)
    pool = rng.choice(["ties", "unit", "signed", "bern", "far", "far", "tiny", "huge", "near", "near", "zeros"])
    base = rng.choice([1e8, 1e5, -1e6, 3.0e7 + 0.5]) if pool == "far" else rng.choice([0.3, 1.0, rng.uniform(0.1, 2.0), -0.7, 1e8, 1e-9])
    init = rng.choice([0.0, 0.0, 0.5, -0.0, 1, 0, 1e8, 1e-8, 3e-310, rng.uniform(-2.0, 2.0), base])
    if pool == "huge":
        init = rng.choice([0.0, 1e150, -1e150])
    seed = rng.choice(SPECIAL_SEEDS) if rng.below(4) == 0 else rng.below(2**32)
    rep = {}
    if rng.below(2) == 0:
        rep = {"n": rng.choice(["py", "np.int64"]), "alpha": rng.choice(["py", "np.float64", "int", "np.int64"]),
               "eps": rng.choice(["py", "np.float64", "int"]), "init": rng.choice(["py", "np.float64", "int", "np.float32"]),
               "action": rng.choice(["py", "np.int64"]), "reward": rng.choice(["py", "np.float64", "int", "np.int64", "np.float32"]),
               "loss": rng.choice(["py", "np.float64", "int"])}
        if rep["init"] == "np.float32" and rep["reward"] == "np.float32":
            rep["reward"] = "np.float64"      # float32 - float32 is float32 arithmetic: rounding to 24 bits is the caller's choice then
        if rep["init"] == "np.float32" and abs(init) < 1e30:
            init = _f32(init)
    f32_rewards = rep.get("reward") == "np.float32" and pool not in ("tiny", "huge")
    mode = rng.choice(["loop", "loop", "free", "free", "direct", "state"])
    style = rng.choice(["pos", "pos", "pos", "signed"])
    scale = rng.choice([1.0, 1.0, 1.0, 1e-9, 1e-200, 1e-310, 1e100, 1e250])
    if style == "signed":
        scale = 1.0                   # (prev - new) / prev overflows for a negative loss under a tiny reference
    scripted = rng.below(3) == 0
    steps = rng.randint(1, max_steps)
    if max(_frac_bits(a) for a in alpha_pool if a != -1) > 8:
        steps = min(steps, 48)        # every learn adds that many bits to the exact estimate (see gen_case)
    if n > 8:
        steps = min(steps, 60)
    ops = []
    cur = {"eps": eps, "n": n}

    def rew():
        r = _x_reward(rng, pool, base)
        return _f32(r) if f32_rewards else r

    def policy_op():
        op = {"k": "policy"}
        if scripted and rng.below(2) == 0:
            e = float(cur["eps"])
            cand = [e, math.nextafter(e, -1.0), math.nextafter(e, 2.0), 0.0, 1.0 - 2.0**-53, 0.5]
            cand = [u for u in cand if 0.0 <= u < 1.0]
            op["u"] = rng.choice(cand)
            if cur["n"] > 0 and rng.below(2) == 0:
                op["alt"] = rng.below(cur["n"])
        return op

    def reassign():
        """One reassignment of a public attribute / reuse of the objects, as a caller may do between two calls."""
        c = rng.below(100)
        m = cur["n"]
        if c < 22:
            ops.append({"k": "setalpha", "x": rng.choice(alpha_pool)})
        elif c < 40:
            cur["eps"] = rng.choice(eps_pool)
            ops.append({"k": "seteps", "x": cur["eps"]})
        elif c < 52:
            ops.append({"k": "reseed", "seed": rng.choice(SPECIAL_SEEDS) if rng.below(3) == 0 else rng.below(2**32)})
        elif c < 80 and m > 0:
            op = {"k": "setstate", "how": rng.choice(["assign", "assign", "slice", "array"])}
            d = rng.below(4)
            if d in (0, 1):
                op["Q"] = _state_list(rng, m, pool, base)
            elif d == 2:
                op["Qidx"] = [[rng.below(m), rew()]]
                op["how"] = "assign"
            if d in (1, 3):
                op["C"] = [rng.choice([0, 1, 2, 5, 99, 127, 255, 256, 1000, 4095, rng.below(50)]) for _ in range(m)]   # (unary nat literals in Coq)
            ops.append(op)
        elif c < 86 and n <= 8:
            cur["n"] = rng.randint(1, 8)
            ops.append({"k": "setn", "n": cur["n"]})
            ops.append({"k": "reset"})
        elif c < 96:
            ops.append({"k": "envreset", "seed": rng.choice([None, 0, rng.below(2**32)])})
        else:
            ops.append({"k": "reset"})

    if rng.below(8) == 0:
        ops.append({"k": "reseed", "seed": rng.choice(SPECIAL_SEEDS) if rng.below(2) == 0 else rng.below(2**32)})
    ref_guess = None
    if mode == "loop":
        # the scheduler's loop, the rewards obtained through env.step as RLScheduler._train does; several sessions
        via_step = rng.below(4) != 0
        ref_guess = rng.choice([1.0, 2.0, 0.5, rng.uniform(0.1, 10.0), rng.uniform(0.1, 10.0)]) * scale
        if style == "signed" and rng.below(3) == 0:
            ref_guess = rng.choice([0.0, -1.0, rng.uniform(-2, 2)])
        ops.append({"k": "setref", "x": ref_guess})
        for _ in range(steps):
            ops.append(policy_op())
            c = rng.below(100)
            if via_step and c < 6:
                ops.append({"k": "step", "a": None, "loss": None})          # end of a session: nothing is learnt
                if rng.below(2) == 0:
                    reassign()
                continue
            if via_step and c < 9 and cur["n"] == n:
                ops.append({"k": "step", "a": rng.choice([max(n, 1), max(n, 1) + 3, -1]), "loss": _next_loss_x(rng, ref_guess, style, scale)})
                continue
            loss = _next_loss_x(rng, ref_guess, style, scale)
            ops.append({"k": "step", "a": None, "loss": loss} if via_step and cur["n"] == n else {"k": "reward", "loss": loss})
            if ref_guess is not None and loss < ref_guess and not (ref_guess == 0.0):
                ref_guess = loss
            ops.append({"k": "learn", "a": None, "r": None})
            if rng.below(12) == 0:
                reassign()
            if ref_guess == 0.0 and rng.below(3) == 0:
                ref_guess = rng.uniform(0.1, 10.0) * scale
                ops.append({"k": "setref", "x": ref_guess})
    elif mode == "direct":
        for _ in range(steps):
            ops.append(policy_op())
            ops.append({"k": "learn", "a": None, "r": rew()})
            if rng.below(10) == 0:
                reassign()
    elif mode == "state":
        # estimates assigned from outside (equal, nearly equal, far from the origin), then the greedy choice and a learn
        for _ in range(max(1, steps // 2)):
            if cur["n"] > 0:
                ops.append({"k": "setstate", "how": rng.choice(["assign", "slice", "array"]), "Q": _state_list(rng, cur["n"], pool, base)})
            ops.append(policy_op())
            if rng.below(2) == 0:
                ops.append({"k": "learn", "a": None if rng.below(2) else rng.below(max(cur["n"], 1)), "r": rew()})
                ops.append(policy_op())
            if rng.below(6) == 0:
                reassign()
    else:
        for _ in range(steps):
            c = rng.below(100)
            if c < 25:
                ops.append(policy_op())
            elif c < 55:
                a = rng.below(max(cur["n"], 1))
                if rng.below(25) == 0:
                    a = cur["n"] + rng.below(3)                  # out of range: IndexError
                ops.append({"k": "learn", "a": a, "r": rew()})
            elif c < 60:
                ops.append({"k": "learn", "a": None, "r": None})
            elif c < 75:
                loss = _next_loss_x(rng, ref_guess, style, scale)
                ops.append({"k": rng.choice(["reward", "step"]), "loss": loss} if cur["n"] == n else {"k": "reward", "loss": loss})
                if ops[-1]["k"] == "step":
                    ops[-1]["a"] = rng.below(max(n, 1))
                if ref_guess is not None and loss < ref_guess and not (ref_guess == 0.0):
                    ref_guess = loss
            elif c < 80:
                ref_guess = rng.choice([None, 0.0, -0.0, 1.0 * scale, rng.uniform(0.1, 5.0) * scale, rng.uniform(-1.0, 5.0)])
                ops.append({"k": "setref", "x": ref_guess})
            elif c < 83:
                ops.append({"k": "step", "a": rng.below(max(n, 1)), "loss": None})
            elif c < 97:
                reassign()
            else:
                ops.append({"k": "full"})
    if rep.get("loss") == "np.float64":
        # numpy scalars do not raise at a zero reference with a negative loss (they give -inf and a warning): the rule is
        # undefined there, and the Python-float sequences keep exercising that corner; numpy losses stay non-negative
        for op in ops:
            if op["k"] in ("reward", "step") and op["loss"] is not None and op["loss"] < 0:
                op["loss"] = -op["loss"]
            if op["k"] == "setref" and op["x"] is not None and op["x"] < 0:
                op["x"] = -op["x"]
    return {"n": n, "alpha": alpha, "eps": eps, "init": init, "seed": seed, "mode": "x-" + mode, "pool": pool,
            "scripted": scripted, "rep": rep, "scale": scale, "ops": ops}


def _next_loss_x(rng, ref_guess, style, scale):
    if ref_guess is None:
        return rng.uniform(0.5, 10.0) * scale
    if scale == 1.0 or style == "signed":
        return _next_loss(rng, ref_guess, style)
    c = rng.below(100)
    if c < 8:
        return ref_guess
    if c < 11:
        return rng.choice([0.0, -0.0, 5e-324])
    if c < 55:
        return ref_guess * rng.choice([0.5, 0.75, 0.9, rng.uniform(0.05, 0.999)])
    if c < 62:
        return math.nextafter(ref_guess, -math.inf)
    if c < 67:
        return math.nextafter(ref_guess, math.inf)
    return ref_guess * rng.uniform(1.0, 3.0)


def gen_case_long(rng, lo, hi):
    """Histories longer than any small-integer threshold: hundreds of visits of one or two actions."""
    n = rng.choice([1, 1, 2])
    alpha = rng.choice([-1, -1.0, 0.5, 1.0])
    eps = rng.choice([0, 0.1])
    pool = rng.choice(["ties", "bern"])
    ops = []
    for _ in range(rng.randint(lo, hi)):
        ops.append({"k": "policy"})
        ops.append({"k": "learn", "a": None, "r": _pick_reward(rng, pool)})
    return {"n": n, "alpha": alpha, "eps": eps, "init": rng.choice([0.0, 0.5]), "seed": rng.below(2**32), "mode": "long", "pool": pool,
            "scripted": False, "ops": ops}


# ------------------------------------------------------------------------------------------ Coq literals
def cq(x):
    """Exact rational of a float/int as `fl neg m e` = (-1)^neg * m * 2^e (Model/Bandit.v), m a primitive-int literal.

    Same value as common.cq(x); a 53-bit `%Z` literal takes ~1.5 ms to elaborate, a primitive integer none, which
    makes the generated files ~5x faster to check.
    """
    fr = Fraction(x)
    num, den = abs(fr.numerator), fr.denominator
    if num == 0:
        return "(fl false 0%uint63 0%Z)"
    k = (num & -num).bit_length() - 1
    m, e = num >> k, k - (den.bit_length() - 1)
    if den & (den - 1) or m >= 2**62:
        raise ValueError("not a binary float")
    es = f"({e})%Z" if e < 0 else f"{e}%Z"
    return f"(fl {'true' if fr < 0 else 'false'} {m}%uint63 {es})"


def _finite(x):
    return isinstance(x, (int, float)) and not isinstance(x, bool) and math.isfinite(x)


def _full(o, qk="Q", ck="C"):
    return f"XOp (OFull {clist([cq(x) for x in o[qk]])} {clist([cnat(c) for c in o[ck]])})"


def emit(case, res):
    """Coq literal of the case with the implementation's observations; None if something is not a finite number."""
    ops = []
    n = case["n"]
    nb = max(n, 1)
    learns = 0
    try:
        for op, o in zip(case["ops"], res["obs"]):
            k = op["k"]
            if k == "policy":
                if o["exc"] is not None:
                    ops.append(f"XOp (OPolicy {cq(o['u'] if o.get('u') is not None else 0)} None true 0%nat)")
                    continue
                alt = "None" if o["alt"] is None else f"(Some {cnat(o['alt'])})"
                if not _finite(o["u"]) or o["act"] < 0 or (o["alt"] is not None and o["alt"] < 0):
                    return None
                ops.append(f"XOp (OPolicy {cq(o['u'])} {alt} false {cnat(o['act'])})")
            elif k == "learn":
                a, r = o["a"], o["r"]
                if a < 0 or not _finite(r):
                    return None
                if o["exc"] is not None:
                    ops.append(f"XOp (OLearn {cnat(a)} {cq(r)} true 0 0%nat)")
                    ops.append(_full(o))
                    continue
                if a >= len(o["Q"]) or not all(_finite(x) for x in o["Q"]):
                    return None
                ops.append(f"XOp (OLearn {cnat(a)} {cq(r)} false {cq(o['Q'][a])} {cnat(o['C'][a])})")
                learns += 1
                if learns % FULL_EVERY == 0:
                    ops.append(_full(o))
            elif k == "reset":
                if o["exc"] is not None:
                    return None
                ops.append("XOp OReset")
                ops.append(_full(o))
            elif k == "full":
                ops.append(_full(o))
            elif k == "setref":
                ops.append("XOp (OSetRef " + ("None" if op["x"] is None else f"(Some {cq(op['x'])})") + ")")
            elif k == "reward":
                ref = o["ref"]
                if ref is not None and not _finite(ref):
                    return None
                oref = "None" if ref is None else f"(Some {cq(ref)})"
                if o["exc"] is not None:
                    ops.append(f"XOp (OReward {cq(op['loss'])} (Some {EXN.get(o['exc'], 'OtherError')}) 0 {oref})")
                else:
                    if not _finite(o["rew"]):
                        return None
                    ops.append(f"XOp (OReward {cq(op['loss'])} None {cq(o['rew'])} {oref})")
            # ------------------------------------------------------------------ round 4
            elif k in ("setalpha", "seteps", "setn", "reseed", "envreset"):
                if o["exc"] is not None:
                    return None
                if k == "setalpha":
                    ops.append(f"XSetAlpha {cq(op['x'])}")
                elif k == "seteps":
                    ops.append(f"XSetEps {cq(op['x'])}")
                elif k == "setn":
                    ops.append(f"XSetN {cnat(op['n'])}")
                elif k == "envreset":
                    ops.append("XEnvReset")
            elif k == "setstate":
                if o["exc"] is not None or not all(_finite(x) for x in o["Q"]) or not all(_finite(x) for x in o["Qb"]):
                    return None
                if any(c < 0 for c in o["C"]):
                    return None
                ops.append(_full(o, "Qb", "Cb"))            # what the agent held just before (exact against the floats so far)
                if op.get("Q") is not None or op.get("Qidx") is not None:
                    ops.append(f"XSetQ {clist([cq(x) for x in o['Q']])}")
                if op.get("C") is not None:
                    ops.append(f"XSetC {clist([cnat(c) for c in o['C']])}")
            elif k == "step":
                ref = o["ref"]
                if ref is not None and not _finite(ref):
                    return None
                a = o["a"]
                valid = isinstance(a, int) and 0 <= a < nb
                oref = "None" if ref is None else f"(Some {cq(ref)})"
                msg = "None" if op["loss"] is None else f"(Some {cq(op['loss'])})"
                if o["exc"] is not None:
                    ops.append(f"XStep {'true' if valid else 'false'} {msg} (Some {EXN.get(o['exc'], 'OtherError')}) 0 false {oref}")
                else:
                    if not _finite(o["rew"]) or not isinstance(o["trunc"], bool):
                        return None
                    ops.append(f"XStep {'true' if valid else 'false'} {msg} None {cq(o['rew'])} {'true' if o['trunc'] else 'false'} {oref}")
            else:
                return None
        # final state: the complete lists as the agent holds them now
        last = None
        for o in reversed(res["obs"]):
            if "Q" in o:
                last = o
                break
        if last is None:
            last = res["first"]
        if not all(_finite(x) for x in last["Q"]):
            return None
        ops.append(_full(last))
    except (KeyError, TypeError, ValueError, OverflowError):
        return None
    return f"({cnat(n)}, {cq(case['alpha'])}, {cq(case['eps'])}, {cq(case['init'])}, {clist(ops)})"


# ------------------------------------------------------------------------------------------ direct oracle
def _fmt(fr):
    try:
        return repr(float(fr))
    except OverflowError:
        return ("-" if fr < 0 else "") + f"about 2^{abs(fr.numerator).bit_length() - fr.denominator.bit_length()}"


def _close(x, exact, scale):
    return abs(Fraction(x) - exact) <= REL * max(abs(exact), scale) + ABS_ORACLE


def oracle(case, res, res2):
    """The property statement on the observations of the implementation, in exact arithmetic; no Coq model involved."""
    fails = []
    n, alpha, eps = case["n"], case["alpha"], case["eps"]     # the values in force (reassigned by setn / setalpha / seteps)
    nb = max(case["n"], 1)                                    # size of the environment's action space
    first = res["first"]
    if not first["proxied"]:
        return ["instrumentation: the generator proxy is not what agent.random_generator returns"]
    if first["Q"] != [case["init"]] * n or first["C"] != [0] * n:
        fails.append("constructor: Q / actions_count are not [initial_values]*n / [0]*n")
    if first["ref"] is not None:
        fails.append("constructor: reference best loss is set before any loss was seen")
    Q, C = list(first["Q"]), list(first["C"])
    ref = None
    run_min = None                         # expected running minimum since the last setref, None when undefined
    poisoned = False
    # the current stretch (since the last reset / reassignment of alpha, Q or the counts): per action the estimate and
    # count it started from and the rewards learnt since
    st = {"q0": list(Q), "c0": list(C), "rs": [[] for _ in range(n)]}

    def close_stretch():
        """Closed forms over the whole (interleaved) stretch that ends here, from the state it started in."""
        if fails or poisoned:
            return
        for a in range(min(len(Q), len(st["rs"]))):
            rs = st["rs"][a]
            if not rs or not _finite(Q[a]) or not _finite(st["q0"][a]):
                continue
            q0, c0 = Fraction(st["q0"][a]), st["c0"][a]
            scale = max([abs(q0)] + [abs(x) for x in rs])
            if alpha == -1:
                exact = (c0 * q0 + sum(rs)) / (c0 + len(rs))
                if not _close(Q[a], exact, scale):
                    fails.append(f"sample average: Q[{a}] = {Q[a]!r} after {len(rs)} rewards from count {c0}, "
                                 f"(c0*Q0 + sum)/(c0+k) is {_fmt(exact)}")
            else:
                al = Fraction(alpha)
                exact = (1 - al) ** len(rs) * q0 + sum(al * (1 - al) ** (len(rs) - 1 - i) * x for i, x in enumerate(rs))
                if not _close(Q[a], exact, scale):
                    fails.append(f"constant alpha closed form: Q[{a}] = {Q[a]!r}, expected {_fmt(exact)}")
            if C[a] != c0 + len(rs):
                fails.append(f"count is visits: count of action {a} is {C[a]} after {len(rs)} learns from {c0}")

    def open_stretch():
        st["q0"], st["c0"], st["rs"] = list(Q), list(C), [[] for _ in range(len(Q))]

    def reward_clauses(tag, o, loss, what):
        """get_reward's contract on one observation (direct call or through step); returns False when it raised as it must."""
        nonlocal ref, run_min
        if o["ref_before"] != ref:
            fails.append(tag + "state changed between calls: reference")
        if ref is None:
            if o["exc"] != "ValueError" or o["ref"] is not None:
                fails.append(tag + f"reference unset: expected ValueError, got {o['exc']} / reward {o.get('rew')!r}")
            return False
        if loss < ref:
            if ref == 0:
                # (prev - new) / prev is undefined: the code must not invent a number nor move the reference
                if o["exc"] != "ZeroDivisionError" or o["ref"] != ref:
                    fails.append(tag + f"reward rule: reference 0, loss {loss!r}: got {o['exc']} / {o.get('rew')!r}")
                run_min = None
                return False
            if o["exc"] is not None:
                fails.append(tag + f"{what} raised: {o['exc']} with reference {ref!r}, loss {loss!r}")
                return False
            exact = (Fraction(ref) - Fraction(loss)) / Fraction(ref)
            if not _finite(o["rew"]) or abs(Fraction(o["rew"]) - exact) > REL * abs(exact):
                fails.append(tag + f"reward rule: improvement {ref!r} -> {loss!r} rewarded {o['rew']!r}, "
                                   f"expected {_fmt(exact)}")
            if o["ref"] != loss:
                fails.append(tag + f"reference: improvement {ref!r} -> {loss!r} left the reference at {o['ref']!r}")
            ref = o["ref"]
            if run_min is not None:
                run_min = min(run_min, loss)
        else:
            if o["exc"] is not None:
                fails.append(tag + f"{what} raised: {o['exc']} with reference {ref!r}, loss {loss!r}")
                return False
            if o["rew"] != 0.0:
                fails.append(tag + f"reward rule: no improvement ({ref!r} then {loss!r}) rewarded {o['rew']!r}")
            if o["ref"] != ref:
                fails.append(tag + f"reference moved without improvement: {ref!r} -> {o['ref']!r} on loss {loss!r}")
            ref = o["ref"]
        if run_min is not None and ref != run_min:
            fails.append(tag + f"reference is not the running minimum: {ref!r} vs {run_min!r}")
        return True

    for i, (op, o) in enumerate(zip(case["ops"], res["obs"])):
        k = op["k"]
        tag = f"op {i} {k}: "
        if k == "policy":
            if len(Q) == 0:
                if o["exc"] is None:
                    fails.append(tag + "valid index: an action was returned by an agent without actions")
                continue
            if o["exc"] is not None:
                fails.append(tag + f"policy raised: {o['exc']}")
                continue
            act = o["act"]
            if o["act_type"] != "int":
                fails.append(tag + f"valid index: policy returned a {o['act_type']}, not an int")
            if not (0 <= act < n):
                fails.append(tag + f"valid index: action {act} for {n} actions")
                continue
            if o["Qat"] != Q:
                fails.append(tag + "state changed between calls: estimates")
            if o["calls"][:1] != ["random"] or o["calls"].count("random") != 1:
                fails.append(tag + f"draw protocol: generator calls {o['calls']}, expected exactly one random() first")
                continue
            u = o["u"]
            explore = u < eps
            nalt = sum(1 for c in o["calls"] if c in ("choice", "integers"))
            if explore:
                if nalt != 1 or o["alt"] is None:
                    fails.append(tag + f"explore branch: draw {u!r} < eps {eps!r} but the alternative was drawn {nalt} times")
                elif not (0 <= o["alt"] < n):
                    fails.append(tag + f"generator contract: alternative {o['alt']} outside the options")
                elif act != o["alt"]:
                    fails.append(tag + f"explore branch: draw {u!r} < eps {eps!r}, action {act} is not the drawn alternative {o['alt']}")
            else:
                if nalt != 0:
                    fails.append(tag + f"greedy branch: draw {u!r} >= eps {eps!r} but an alternative was drawn")
                if act >= len(Q):
                    fails.append(tag + f"greedy choice: action {act} has no estimate ({len(Q)} estimates)")
                elif any(Q[j] > Q[act] for j in range(len(Q))):
                    which = "eps=0" if eps == 0 else f"draw {u!r} >= eps {eps!r}"
                    fails.append(tag + f"greedy choice: ({which}) action {act} has estimate {Q[act]!r} < max {max(Q)!r}")
        elif k == "learn":
            a, r = o["a"], o["r"]
            if not (0 <= a < len(Q)):
                if o["exc"] != "IndexError" or o["Q"] != Q or o["C"] != C:
                    fails.append(tag + f"invalid action: learn({a}) expected IndexError and no change")
                continue
            if o["exc"] is not None:
                fails.append(tag + f"learn raised: {o['exc']} {o.get('msg')}")
                Q, C = list(o["Q"]), list(o["C"])
                open_stretch()
                continue
            if o["Qb"] != Q or o["Cb"] != C:
                fails.append(tag + "state changed between calls: estimates or counts")
            Qn, Cn = o["Q"], o["C"]
            if len(Qn) != len(Q) or len(Cn) != len(C):
                fails.append(tag + "state shape: list length changed")
                break
            for j in range(len(Q)):
                if j != a and (Cn[j] != C[j]):
                    fails.append(tag + f"untouched: count of action {j} changed")
                if j != a and not (Qn[j] == Q[j] and math.copysign(1, Qn[j]) == math.copysign(1, Q[j])):
                    fails.append(tag + f"untouched: estimate of action {j} changed from {Q[j]!r} to {Qn[j]!r}")
            if Cn[a] != C[a] + 1:
                fails.append(tag + f"count rule: count went {C[a]} -> {Cn[a]}")
            if not _finite(r) or not _finite(Q[a]):
                poisoned = True        # a non-finite reward/estimate (already reported where it was produced)
            elif not _finite(Qn[a]):
                fails.append(tag + f"update rule: estimate became {Qn[a]!r}")
            else:
                step = Fraction(1, C[a] + 1) if alpha == -1 else Fraction(alpha)
                q, rr = Fraction(Q[a]), Fraction(r)
                exact = q + step * (rr - q)
                if not _close(Qn[a], exact, max(abs(q), abs(rr))):
                    fails.append(tag + f"update rule: Q[{a}] {Q[a]!r} -> {Qn[a]!r} with reward {r!r}, count {C[a] + 1}, "
                                       f"alpha {alpha!r}; expected {_fmt(exact)}")
            if _finite(r) and a < len(st["rs"]):
                st["rs"][a].append(Fraction(r))
            Q, C = list(Qn), list(Cn)
        elif k == "reset":
            close_stretch()
            if o["exc"] is not None or o["Q"] != [0.0] * n or o["C"] != [0] * n:
                fails.append(tag + "reset: did not zero the estimates and counts")
            Q, C = list(o["Q"]), list(o["C"])
            open_stretch()
        elif k == "full":
            if o["Q"] != Q or o["C"] != C:
                fails.append(tag + "state changed between calls: estimates or counts")
        elif k == "setref":
            ref = op["x"]
            run_min = ref
        elif k == "reward":
            reward_clauses(tag, o, op["loss"], "reward")
        # ---------------------------------------------------------------------- round 4
        elif k == "setalpha":
            close_stretch()
            alpha = op["x"]
            open_stretch()
        elif k == "seteps":
            eps = op["x"]
        elif k == "setn":
            n = op["n"]                    # the generator always resets the agent next
        elif k == "reseed":
            if o["exc"] is not None or o.get("random_state") != op["seed"]:
                fails.append(tag + f"random_state: assigning {op['seed']} raised {o['exc']} / reads back {o.get('random_state')!r}")
            if o.get("proxied") is False:
                return ["instrumentation: the generator proxy is not what agent.random_generator returns after a reseed"]
        elif k == "setstate":
            if o["exc"] is not None:
                fails.append(tag + f"assigning the public estimates / counts raised {o['exc']}")
                continue
            if o["Qb"] != Q or o["Cb"] != C:
                fails.append(tag + "state changed between calls: estimates or counts")
            close_stretch()
            Qe, Ce = list(Q), list(C)
            if op.get("Q") is not None:
                Qe = list(op["Q"])
            for j, v in op.get("Qidx") or []:
                Qe[j] = v
            if op.get("C") is not None:
                Ce = list(op["C"])
            if o["Q"] != Qe or o["C"] != Ce:
                fails.append(tag + "assigned estimates / counts do not read back")
            Q, C = list(o["Q"]), list(o["C"])
            open_stretch()
        elif k == "envreset":
            if o["ref_before"] != ref:
                fails.append(tag + "state changed between calls: reference")
            if o["exc"] is not None or o.get("ret") != [0, {}]:
                fails.append(tag + f"env.reset: returned {o.get('ret')!r} / raised {o['exc']}")
            if o["ref"] != ref:
                fails.append(tag + f"reference moved without improvement: env.reset() turned {ref!r} into {o['ref']!r}")
                ref = o["ref"]
                run_min = None
        elif k == "step":
            a = o["a"]
            if not (isinstance(a, int) and 0 <= a < nb):
                if o["exc"] is None or o["ref"] != ref or o["outq"] or o["inq_left"] != 1:
                    fails.append(tag + f"step outside the action space: step({a}) expected an exception and nothing consumed, got "
                                       f"{o['exc']} / out-queue {o['outq']} / reference {o['ref']!r}")
                continue
            if o["outq"] != [a]:
                fails.append(tag + f"step: the chosen action {a} was put on the queue as {o['outq']}")
            if o["inq_left"] != 0:
                fails.append(tag + "step: the scheduler's message was not consumed")
            if op["loss"] is None:
                if o["ref_before"] != ref:
                    fails.append(tag + "state changed between calls: reference")
                if o["exc"] is not None:
                    fails.append(tag + f"step raised on the end-of-session marker: {o['exc']}")
                elif not (o["trunc"] is True and o["term"] is False and o["rew"] == 0.0 and o["obs"] == 0):
                    fails.append(tag + f"step: end-of-session marker answered ({o['obs']!r}, {o['rew']!r}, {o['term']!r}, {o['trunc']!r})")
                if o["ref"] != ref:
                    fails.append(tag + f"reference moved without improvement: the end-of-session marker turned {ref!r} into {o['ref']!r}")
                    ref = o["ref"]
                    run_min = None
                continue
            if reward_clauses(tag, o, op["loss"], "step") and o["exc"] is None:
                if not (o["trunc"] is False and o["term"] is False and o["obs"] == 0 and o["ret_len"] == 5):
                    fails.append(tag + f"step: a loss message answered ({o['obs']!r}, ., {o['term']!r}, {o['trunc']!r})")
        if len(fails) > 8:
            break
    close_stretch()
    # determinism: the same seed and the same rewards a second time
    if res2 is not None:
        a1 = [(o.get("act"), o.get("exc")) for op, o in zip(case["ops"], res["obs"]) if op["k"] == "policy"]
        a2 = [(o.get("act"), o.get("exc")) for op, o in zip(case["ops"], res2["obs"]) if op["k"] == "policy"]
        if a1 != a2:
            d = next(i for i, (x, y) in enumerate(zip(a1, a2)) if x != y)
            fails.append(f"determinism: choice #{d} differs between two runs with the same seed and rewards: {a1[d]} vs {a2[d]}")
        f1 = [(o.get("Q"), o.get("C"), o.get("rew"), o.get("ref")) for o in res["obs"]]
        f2 = [(o.get("Q"), o.get("C"), o.get("rew"), o.get("ref")) for o in res2["obs"]]
        if repr(f1) != repr(f2):
            fails.append("determinism: estimates / rewards differ between two identical runs")
    return fails


# ------------------------------------------------------------------------------------------ statistics
def stats_of(case, res, st):
    n = case["n"]
    st[f"n={n}"] += 1
    al, ep = float(case["alpha"]), float(case["eps"])
    st[f"alpha={al}" if al in (-1.0, 0.0, 0.1, 0.25, 0.5, 0.75, 0.9, 1.0, 2.0**-20) else "alpha=other in (0,1)"] += 1
    st[f"eps={ep}" if ep in (0.0, 0.1, 0.25, 0.5, 1.0, 1e-300, 5e-324, 1.0 - 2.0**-53) else "eps=other in (0,1)"] += 1
    st[f"mode={case['mode']}"] += 1
    if case.get("scripted"):
        st["scripted_draws"] += 1
    if case["mode"].startswith("x-"):
        st[f"x_pool={case['pool']}"] += 1
        st[f"x_loss_scale={case['scale']:g}"] += 1
        for f, t in sorted((case.get("rep") or {}).items()):
            if t != "py":
                st[f"x_rep_{f}={t}"] += 1
        if case["seed"] in SPECIAL_SEEDS:
            st[f"x_seed={case['seed']}"] += 1
    nl = npol = 0
    maxcount = 0
    for op, o in zip(case["ops"], res["obs"]):
        k = op["k"]
        if k == "policy" and o["exc"] is None:
            npol += 1
            if o.get("alt") is not None:
                st["policy_explore"] += 1
            else:
                st["policy_greedy"] += 1
                q = o["Qat"]
                if q and sum(1 for x in q if x == max(q)) > 1:
                    st["policy_greedy_tie"] += 1
            if o.get("u") == case["eps"]:
                st["policy_draw_equals_eps"] += 1
        elif k == "policy":
            st["policy_raise"] += 1
        elif k == "learn":
            if o["exc"] is None:
                nl += 1
            else:
                st["learn_raise"] += 1
        elif k == "reward":
            if o["exc"] is not None:
                st[f"reward_raise_{o['exc']}"] += 1
            elif o["rew"] != 0.0:
                st["reward_improvement"] += 1
            elif o.get("ref_before") == op["loss"]:
                st["reward_equal_loss"] += 1
            else:
                st["reward_no_improvement"] += 1
        elif k == "reset":
            st["reset"] += 1
        elif k == "step":
            if op["loss"] is None:
                st["x_step_end_marker"] += 1
            elif o["exc"] is not None:
                st[f"x_step_raise_{o['exc']}"] += 1
            elif o["rew"] != 0.0:
                st["x_step_improvement"] += 1
            else:
                st["x_step_no_improvement"] += 1
        elif k in ("setalpha", "seteps", "setn", "reseed", "envreset"):
            st["x_" + k] += 1
        elif k == "setstate":
            st["x_setstate_" + op.get("how", "assign")] += 1
        if k == "policy" and o["exc"] is None and o.get("alt") is None:
            q = sorted(o["Qat"])
            if len(q) >= 2 and q[-1] != q[-2] and abs(q[-1] - q[-2]) <= 1e-6 * max(abs(q[-1]), abs(q[-2])):
                st["x_policy_greedy_near_tie"] += 1
        if k == "learn" and o["exc"] is None and o["C"]:
            maxcount = max(maxcount, max(o["C"]))
    st["ops"] += len(case["ops"])
    st["learn_ok"] += nl
    if maxcount >= 256:
        st["x_count_reaches_256"] += 1
    return nl, npol


def _clause(msg):
    """Stable short descriptor of an oracle failure: the category before the first ':' (positions/numbers stripped)."""
    if msg.startswith("op "):
        msg = msg.split(": ", 1)[1] if ": " in msg else msg
    return msg.split(":")[0][:50]


def mismatches_with_retry(chk, lits, shard, name="C19"):
    """chk.coq_mismatches; a shard whose coqc was killed from outside (rc=-9: the kernel's OOM killer on a shared machine, not a
    verdict of Coq) is evaluated again, alone, up to three times with a pause.  A last failure is reported like any other
    coqc error (fail closed)."""
    import time

    bad, errors = chk.coq_mismatches(name, IMPORTS, "check_xcase", CASE_T, lits, shard=shard, preamble="Open Scope Q_scope.")
    bad, still = list(bad), []
    for e in errors:
        m = re.match(r"cases_" + name + r"_(\d+)\.v: rc=-9", e)
        if not m:
            still.append(e)
            continue
        k = int(m.group(1)) * shard
        for attempt in (1, 2, 3):
            time.sleep(15 * attempt)
            b2, e2 = chk.coq_mismatches(f"{name}again{k}_{attempt}", IMPORTS, "check_xcase", CASE_T, lits[k:k + shard], shard=shard,
                                        preamble="Open Scope Q_scope.")
            chk.notes.append(f"shard {k // shard}: coqc killed by a signal, evaluated again (attempt {attempt})")
            if not any("rc=-9" in x for x in e2):
                break
        bad += [k + j for j in b2]
        still += e2
    return sorted(bad), still


def _has_script(case):
    return any(op["k"] == "policy" and (op.get("u") is not None or op.get("alt") is not None) for op in case["ops"])


def safe_oracle(case, res, res2):
    try:
        return oracle(case, res, res2)
    except Exception as e:  # noqa: BLE001  (never let a malformed observation crash the check: report it)
        return [f"oracle internal error: {type(e).__name__}: {e}"]


# ------------------------------------------------------------------------------------------ entry
def run(chk, replay=None):
    chk.proof_gate()
    cases = []
    if replay:
        cases = [json.loads(open(replay).read())["case"]]
    else:
        for f in sorted((chk.case_dir.parents[2] / "corpus" / "C19").glob("*.json")):
            cases.append(json.loads(f.read_text())["case"])
        if chk.tier == "quick":
            for _ in range(300):
                cases.append(gen_case(chk.rng, 40))
            for _ in range(420):
                cases.append(gen_case_x(chk.rng, 40))
            for _ in range(4):
                cases.append(gen_case_long(chk.rng, 270, 700))
        else:
            # lengths up to 200, skewed to short ones (mean ~50 rounds) to bound the cost of exact arithmetic
            for _ in range(5000):
                cases.append(gen_case(chk.rng, chk.rng.randint(1, 200)))
            for _ in range(1500):
                cases.append(gen_case_x(chk.rng, chk.rng.randint(1, 200)))
            for _ in range(24):
                cases.append(gen_case_long(chk.rng, 270, 1200))
    # implementation runs (twice: determinism), oracle and literals, case by case (observations are not kept)
    st = Counter()
    keys, nontrivial = set(), set()
    lits, idx, unrepresentable, oracle_failed = [], [], set(), set()
    samples = {}
    sample_ids = set(list(range(0, len(cases), max(1, len(cases) // 3)))[:4])
    for i, c in enumerate(cases):
        r = run_impl(c)
        # the run the determinism clause compares with: nothing around the generator unless draws are scripted, and
        # another constructor seed when the sequence starts by assigning random_state (the seed in force is the assigned one)
        reseeded_first = bool(c["ops"]) and c["ops"][0]["k"] == "reseed"
        r2 = run_impl(c, proxied=_has_script(c), ctor_seed=(c["seed"] + 1) % 2**32 if reseeded_first else None)
        lit = emit(c, r)
        if lit is None:
            unrepresentable.add(i)
        else:
            idx.append(i)
            lits.append(lit)
        fails = safe_oracle(c, r, r2)
        nl, npol = stats_of(c, r, st)
        key = json.dumps([c["n"], c["alpha"], c["eps"], c["init"], c["seed"], c.get("rep"), c["ops"]])
        keys.add(hash(key))
        if nl >= 2 and npol >= 1:
            nontrivial.add(hash(key))
        if i in sample_ids:
            samples[i] = {"case": {k: v for k, v in c.items() if k != "ops"}, "ops": c["ops"][:6], "observed": r["obs"][:6]}
        if fails:
            oracle_failed.add(i)
            chk.violation({"kind": "oracle", "clause": _clause(fails[0])},
                          {"failed": "oracle:" + fails[0], "all": fails[:10], "case": c, "observed": r["obs"][:60]})
    shard = 16 if chk.tier == "quick" else 12
    # the few very long sequences are evaluated one per file: a file holding several of them is the largest coqc process
    # of the machine (600 MB) and the first victim of the kernel's OOM killer on a shared machine
    pos_long = [j for j, i in enumerate(idx) if cases[i].get("mode") == "long"]
    pos_main = [j for j, i in enumerate(idx) if cases[i].get("mode") != "long"]
    bad_m, errors = mismatches_with_retry(chk, [lits[j] for j in pos_main], shard)
    bad_g, errors_g = mismatches_with_retry(chk, [lits[j] for j in pos_long], 1, name="C19long") if pos_long else ([], [])
    errors = errors + errors_g
    bad_l = sorted([pos_main[j] for j in bad_m] + [pos_long[j] for j in bad_g])
    bad = {idx[j] for j in bad_l} | unrepresentable
    n_reported = 0
    for i in sorted(bad - oracle_failed):
        c = cases[i]
        r = run_impl(c)
        detail = None
        if n_reported < 3 and i not in unrepresentable:
            n_reported += 1
            vals, _ = chk.coq_eval(f"C19_bad{i}", IMPORTS, [f"first_xbad_case ({lits[idx.index(i)]})"],
                                   preamble="Open Scope Q_scope.")
            detail = vals[0]
        chk.violation({"kind": "correspondence", "name": "check_case"},
                      {"failed": "correspondence:check_case (model and implementation disagree; the property "
                                 "oracle found no failing input)", "case": c, "observed": r["obs"][:60],
                       "first_disagreeing_emitted_op": detail,
                       "unrepresentable_observation": i in unrepresentable}, no_input=True)
    for e in errors:
        chk.violation({"kind": "correspondence", "name": "coqc"}, {"failed": "correspondence:coqc", "detail": e}, no_input=True)
    cov = {
        "evaluations": len(cases),
        "calls_evaluated": st["ops"],
        "distinct_nontrivial": len(nontrivial),
        "distinct": len(keys),
        "rule": "one evaluation = one call sequence on fresh real MABEpsilonGreedy + MABCalibrationEnv objects (n_actions 1-8, "
                "rarely 0; alpha in {-1,0.1,0.5,1}; eps in {0,0.1,0.5,1}; several initial values; seeds); modes: scheduler-like "
                "loop policy->get_reward->learn, direct rewards, free interleavings incl. invalid actions, reset, unset/zero "
                "reference; a quarter of the sequences script some draws to u = eps, its neighbours, 0 and 1-2^-53; "
                "round 4 (mode x-*): arguments as numpy scalars / ints / float32, n up to 64, alpha and eps anywhere in [0,1] "
                "(eps down to 5e-324), seeds 0 / 2^32 / 2^63-1 / 2^64+5, rewards far from the origin / tiny / huge / nearly equal / "
                "signed zeros, losses scaled 1e-310 .. 1e250, alpha / eps / random_state / Q / actions_count / n_actions "
                "reassigned between calls (lists, slices, arrays; counts up to 4095), env.reset(), rewards through env.step incl. "
                "end-of-session markers and invalid actions, several sessions; mode long: 270-700 visits of one or two actions; "
                "the second (determinism) run has nothing around the generator and, when the sequence starts by assigning "
                "random_state, another constructor seed; "
                "non-trivial = at least 2 successful learns and 1 policy call; distinct = distinct (config, seed, calls)",
        "samples": [samples[i] for i in sorted(samples)],
        "traces_validated_against_impl": len(cases) - len(bad),
        "model_impl_disagreements": len(bad),
        "oracle_failures": len(oracle_failed),
        "distribution": dict(sorted(st.items())),
        "tolerances": "estimates: |impl - exact| <= 1e-12*max(|exact|, largest |reward|/|initial value| so far) + 1e-15 "
                      "(the direct oracle: + 1e-320 instead of 1e-15, so that tiny scales are judged relatively); "
                      "reward: 1e-12 relative; counts, chosen action (decided on the implementation's own floats), "
                      "reference best: exact",
        "exhaustive": False,
    }
    return chk.finish(
        cov,
        assumptions=[
            "numpy Generator.random() returns a float in [0,1) and Generator.choice(arange(n),1)[0] an element of range(n) "
            "(both are inputs of the model; the proxy records them; the oracle checks the ranges on every call)",
            "np.argmax returns the first index of the maximum (checked on every greedy call by the correspondence)",
            "actions passed to learn() are non-negative ints (Python's negative subscripts are outside the model)",
            "losses/rewards are finite Python floats as produced by RLScheduler.update (float(np.min(...)))",
        ],
        trusted=["modelled, not verified: IEEE-754 rounding of the three float operations of learn() and the two of "
                 "get_reward() (bounded by the stated tolerances), Python list subscripting"],
    )
