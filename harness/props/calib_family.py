"""Checks of the calibrator-loop properties (C02, C09, C14, C18, C11, C05, C01) on the shared model.

Each property has: a generator profile for the trace correspondence (props/calib_common.py), and a direct
oracle of its statement evaluated on the implementation's observations (independent of the Coq model).
"""
from __future__ import annotations

import copy
import json
from collections import Counter
from fractions import Fraction

from props import calib_common as cc


def decode(tok):
    r = tok % 10
    t = tok // 10
    hl = t % 1000
    t //= 1000
    return t // 100, t % 100, hl, r  # uid, call, history length shown, row


def sampler_specs(case):
    specs = {}
    groups = [case.get("samplers") or [], (case.get("rl") or {}).get("samplers", []), case.get("both") or []]
    for op in case["ops"]:
        if op[0] in ("set_samplers", "set_scheduler"):
            groups.append(op[1])
    for g in groups:
        for s in g:
            specs[s["uid"]] = s
    specs.setdefault(90, {"cls": cc.HALTON_CLASS, "uid": 90, "bs": 1})
    return specs


def groups_of(view):
    """Consecutive rows produced by one sample() call: [(uid, call, [row indices])]."""
    out = []
    for i, p in enumerate(view["params"]):
        u, c, _, _ = decode(p)
        if out and out[-1][0] == u and out[-1][1] == c:
            out[-1][2].append(i)
        else:
            out.append((u, c, [i]))
    return out


def rounds_to_zero(x, p):
    a = abs(Fraction(x)) * 10**p
    return a <= Fraction(1, 2)


# ------------------------------------------------------------------------------------------------ oracles
def oracle_c02(case, obs):
    fails = []
    specs = sampler_specs(case)
    E = case["cfg"]["E"]
    pal, salt = case["palette"], case["salt"]
    prev = None
    for k, (op, v) in enumerate(zip(case["ops"], obs["views"])):
        n = v["nsampled"]
        lens = [v["nparam_rows"], len(v["losses"]), len(v["series"]), len(v["bnums"]), len(v["methods"])]
        if any(x != n for x in lens):
            fails.append(("aligned", f"op {k}: record lengths {lens} vs counter {n}"))
            continue
        tinv = {i: c for c, i in v["table"]}
        for i in range(n):
            tok = v["params"][i]
            u, c, hl, r = decode(tok)
            if u not in specs:
                fails.append(("param-proposed", f"op {k} row {i}: token {tok} from no sampler"))
                continue
            ser = v["series"][i]
            if len(ser) != E or any(t != tok for t, _ in ser):
                fails.append(("series-of-param", f"op {k} row {i}: series {ser} not E={E} runs on {tok}"))
            want = pal[(tok * 7919 + sum(s for _, s in ser) * 31 + salt) % len(pal)]
            if v["losses"][i] != want:
                fails.append(("loss-of-series", f"op {k} row {i}: loss {v['losses'][i]} != {want}"))
        gs = groups_of(v)
        for g, (u, c, idxs) in enumerate(gs):
            if any(v["bnums"][i] != g for i in idxs):
                fails.append(("batch-label", f"op {k}: rows {idxs} of batch {g} labelled {[v['bnums'][i] for i in idxs]}"))
            if u in specs and any(tinv.get(v["methods"][i]) != specs[u]["cls"] for i in idxs):
                # ids may have been rebuilt by a restore (that is C18's defect, judged there); C02 asks for the id
                # of the designated sampler *in the table in force when the row was recorded*: checked on appended rows
                pass
        if prev is not None and op[0] != "restore":
            for key in ("params", "losses", "series", "bnums", "methods"):
                if v[key][: len(prev[key])] != prev[key]:
                    fails.append(("append-only", f"op {k}: {key} changed a recorded row"))
            new_rows = range(len(prev["params"]), n)
            for i in new_rows:
                u = decode(v["params"][i])[0]
                if u in specs and tinv.get(v["methods"][i]) != specs[u]["cls"]:
                    fails.append(("method-label", f"op {k} row {i}: sampler id {v['methods'][i]} is not class {specs[u]['cls']}"))
        if op[0] == "calibrate" and v["exn"] == 0:
            ret = v["returned"]
            if [b for _, b in ret] != sorted(b for _, b in ret):
                fails.append(("returned-sorted", f"op {k}: returned losses not increasing"))
            if Counter(ret) != Counter(zip(v["params"], v["losses"])):
                fails.append(("returned-pairs", f"op {k}: returned pairs differ from the recorded ones"))
        prev = v
    if obs.get("loss_bad"):
        fails.append(("series-of-param", f"loss saw mixed ensemble {obs['loss_bad'][:1]}"))
    return fails


def oracle_c09(case, obs):
    fails = []
    specs = sampler_specs(case)
    if case.get("ctor_combo"):
        has_s, has_sch = case["ctor_combo"]
        should_raise = has_s == has_sch
        raised = obs["ctor_exn"] == 4
        if should_raise != raised:
            fails.append(("ctor", f"samplers={has_s} scheduler={has_sch}: ctor outcome {obs.get('ctor_exc', 'accepted')}"))
        return fails
    if obs["ctor_exn"]:
        return [("ctor", f"unexpected constructor failure {obs.get('ctor_exc')}")]
    only_plain = all(op[0] in ("calibrate", "checkpoint", "restore") for op in case["ops"])
    for k, v in enumerate(obs["views"]):
        gs = groups_of(v)
        if case.get("samplers") is not None and only_plain:
            line = case["samplers"]
            for g, (u, c, idxs) in enumerate(gs):
                s = line[g % len(line)]
                if u != s["uid"]:
                    fails.append(("round-robin", f"op {k}: batch {g} produced by sampler uid {u}, expected position {g % len(line)}"))
                elif len(idxs) != s["bs"]:
                    fails.append(("batch-size", f"op {k}: batch {g} has {len(idxs)} rows, sampler batch_size {s['bs']}"))
        if case.get("rl") is not None:
            tup = obs["rl"]["samplers"]
            supplied = {s["uid"] for s in case["rl"]["samplers"]}
            if gs:
                u0 = gs[0][0]
                if specs.get(u0, {}).get("cls") != cc.HALTON_CLASS:
                    fails.append(("rl-bootstrap", f"op {k}: first batch by a non-Halton sampler uid {u0}"))
            learned = obs.get("learned", [])
            for g, (u, c, idxs) in enumerate(gs[1:], start=1):
                # the g-th agent-chosen batch is the one the agent's g-th learn call is about (C10): its action is the choice
                a = learned[g - 1][0] if g - 1 < len(learned) else None
                if a is None or a >= len(tup) or tup[a][1] != u:
                    fails.append(("rl-choice", f"op {k}: batch {g} by uid {u}, agent chose {a}"))
                if u not in supplied and u != 90:
                    fails.append(("rl-only-supplied", f"op {k}: batch {g} by foreign sampler {u}"))
    if case.get("rl") is not None:
        cls = [s["cls"] for s in case["rl"]["samplers"]]
        tup = obs["rl"]["samplers"]
        if cc.HALTON_CLASS in cls:
            if [t[1] for t in tup] != [s["uid"] for s in case["rl"]["samplers"]]:
                fails.append(("rl-bootstrap-added", "a Halton sampler was supplied but the line-up was changed"))
            if cls[obs["rl"]["halton_id"]] != cc.HALTON_CLASS:
                fails.append(("rl-bootstrap", "bootstrap index is not a Halton sampler"))
        else:
            if len(tup) != len(cls) + 1 or tup[obs["rl"]["halton_id"]][0] != cc.HALTON_CLASS:
                fails.append(("rl-bootstrap-added", "no Halton supplied and none added"))
    return fails


def oracle_c14(case, obs):
    fails = []
    prec = case["cfg"]["prec"]
    prev_bi, prev_n = 0, 0
    for k, (op, v) in enumerate(zip(case["ops"], obs["views"])):
        if op[0] == "calibrate" and v["exn"] == 0:
            ran = v["batchidx"] - prev_bi
            gs = groups_of(v)
            want = op[1]
            if prec is not None:
                for j in range(1, op[1] + 1):
                    upto = prev_bi + j
                    rows = [i for g in gs[:upto] for i in g[2]]
                    if len(gs) < upto:
                        break
                    if rows and rounds_to_zero(min(v["losses"][i] for i in rows), prec):
                        want = j
                        break
            if ran != want:
                fails.append(("stop-point", f"op {k}: calibrate({op[1]}) ran {ran} batches, expected {want} (prec {prec}, "
                                            f"verbose {case['cfg']['verbose']})"))
            if len(v["returned"]) != v["nsampled"]:
                fails.append(("trigger-in-history", f"op {k}: returned {len(v['returned'])} pairs, history has {v['nsampled']}"))
            if case["cfg"]["saving"] and ran > 0:
                d = v["disk"]
                if d is None or "error" in d or any(d[key] != v[key] for key in ("nsampled", "batchidx", "params", "losses", "series", "bnums", "methods")):
                    fails.append(("trigger-in-checkpoint", f"op {k}: checkpoint does not hold the state calibrate returned with"))
        prev_bi, prev_n = v["batchidx"], v["nsampled"]
    return fails


def oracle_c18(case, obs):
    fails = []
    specs = sampler_specs(case)
    prev_table = None
    saved_table = None       # the table in force when the folder's checkpoint was written
    prev_bi = 0
    for k, (op, v) in enumerate(zip(case["ops"], obs["views"])):
        t = dict(v["table"])
        ran = v["batchidx"] - prev_bi
        prev_bi = v["batchidx"]
        if op[0] == "restore" and v["exn"] == 0:
            prev_table = saved_table      # a restore legitimately returns to the saved state
        if len(set(t.values())) != len(t):
            fails.append(("ids-unique", f"op {k}: two classes share an id {v['table']}"))
        if prev_table is not None:
            for c, i in prev_table.items():
                if t.get(c) != i:
                    what = "restore" if op[0] == "restore" else op[0]
                    fails.append((f"id-reassigned-by-{what}", f"op {k}: class {c} had id {i}, now {t.get(c)}"))
        tinv = {i: c for c, i in t.items()}
        for i, tok in enumerate(v["params"]):
            u = decode(tok)[0]
            if u in specs and tinv.get(v["methods"][i]) != specs[u]["cls"]:
                what = "after-restore" if any(o[0] == "restore" for o in case["ops"][: k + 1]) else "live"
                fails.append((f"label-identifies-class-{what}", f"op {k} row {i}: id {v['methods'][i]} maps to {tinv.get(v['methods'][i])}, producer class {specs[u]['cls']}"))
                break
        wrote = op[0] == "checkpoint" or (op[0] == "calibrate" and case["cfg"]["saving"] and v["exn"] == 0 and ran > 0)
        if wrote and v["exn"] == 0:
            saved_table = t
        if wrote and v["exn"] == 0 and v.get("plot_table") is not None:
            pt = v["plot_table"]
            if isinstance(pt, str):
                fails.append(("table-recoverable-error", f"op {k}: plotting helper failed: {pt}"))
            elif dict(pt) != t:
                fails.append(("table-recoverable-differs", f"op {k}: checkpoint gives {pt}, live table {v['table']}"))
        prev_table = t
    return fails


def oracle_c11(case, obs, twin):
    """twin = observations of the same case without the fault."""
    fails = []
    kind = case["fault"][0]
    code = {"model": 1, "loss": 2, "sampler": 3}[kind]
    fired = False
    for k, (op, v) in enumerate(zip(case["ops"], obs["views"])):
        tv = twin["views"][k]
        if v["exn"] in (1, 2, 3) and not fired:
            fired = True
            if v["exn"] != code:
                fails.append(("propagates", f"op {k}: injected {kind} fault surfaced as code {v['exn']}"))
            n = v["nsampled"]
            lens = [v["nparam_rows"], len(v["losses"]), len(v["series"]), len(v["bnums"]), len(v["methods"])]
            if any(x != n for x in lens):
                fails.append(("aligned-after-fault", f"op {k}: lengths {lens} counter {n}"))
            for key in ("params", "losses", "series", "bnums", "methods"):
                if tv[key][: len(v[key])] != v[key]:
                    fails.append(("prefix-of-fault-free", f"op {k}: {key} is not a prefix of the fault-free run"))
            gs = groups_of(v)
            if v["batchidx"] != len(gs):
                fails.append(("completed-batches", f"op {k}: batch counter {v['batchidx']} but {len(gs)} batches recorded"))
            if v["threads"] or v["alive"]:
                fails.append(("thread-left-running", f"op {k}: {v['threads']} background thread(s) alive after the exception"))
            if case["cfg"]["saving"] and v["disk"] is not None and "error" not in v["disk"]:
                if v["disk"]["batchidx"] != v["batchidx"] or v["disk"]["params"] != v["params"]:
                    fails.append(("folder-last-complete-batch", f"op {k}: checkpoint holds batch {v['disk']['batchidx']}, live {v['batchidx']}"))
        elif fired and op[0] == "calibrate":
            if v["exn"] != 0 and not (v["exn"] in (1, 2, 3)):
                fails.append(("reusable", f"op {k}: calibrate after the fault failed: {v['exc']}"))
        elif not fired and v["exn"] == 0 and tv["exn"] == 0:
            if any(tv[key] != v[key] for key in ("params", "losses", "bnums", "methods")):
                fails.append(("prefix-of-fault-free", f"op {k}: differs from the fault-free run before the fault"))
    return fails, fired


def same_history(a, b):
    return all(a[key] == b[key] for key in ("nsampled", "batchidx", "params", "losses", "series", "bnums", "methods"))


def diff_history(a, b):
    return [key for key in ("nsampled", "batchidx", "params", "losses", "series", "bnums", "methods") if a[key] != b[key]]


# ------------------------------------------------------------------------------------------------ runner
def run_traces(chk, cases, oracle, nontrivial, twin=False, label="trace", shard=25):
    """Run cases on the implementation, replay them in Coq, apply the oracle; returns coverage pieces."""
    observations = [cc.run_case(c) for c in cases]
    lits = [cc.emit_case(c, o) for c, o in zip(cases, observations)]
    bad, errors = chk.coq_mismatches(label, cc.IMPORTS, "check_case", cc.CASE_T, lits, shard=shard)
    stats = Counter()
    keys, nontriv = set(), set()
    for i, (c, o) in enumerate(zip(cases, observations)):
        key = json.dumps({k: c[k] for k in c if k != "idx"}, sort_keys=True)
        keys.add(key)
        if nontrivial(c, o):
            nontriv.add(key)
        for v in o["views"]:
            stats[f"exn={v['exn']}"] += 1
        for op in c["ops"]:
            stats[f"op={op[0]}"] += 1
        stats["rl" if c.get("rl") else "rr"] += 1
        fails = oracle(c, o)
        seen = set()
        for clause, detail in fails:
            if clause in seen:
                continue
            seen.add(clause)
            chk.violation({"kind": "oracle", "clause": clause},
                          {"failed": f"oracle:{clause}", "detail": detail, "case": c,
                           "observed": [{k: v[k] for k in v if k != "series"} for v in o["views"]]})
        if i in bad and not fails:
            vals, _ = chk.coq_eval("firstbad", cc.IMPORTS, [f"first_bad {lits[i]}"])
            chk.violation({"kind": "correspondence", "name": "Calibrator"},
                          {"failed": "correspondence:Model/Calibrator.v (model and implementation views disagree; the "
                                     "property oracle found no failing input)", "first_disagreeing_op": vals[0], "case": c,
                           "observed": [{k: v[k] for k in v if k != "series"} for v in o["views"]]}, no_input=True)
    for e in errors:
        chk.violation({"kind": "correspondence", "name": "coqc"}, {"failed": "correspondence:coqc", "detail": e}, no_input=True)
    return observations, bad, stats, keys, nontriv


def sample_cases(cases, observations, k=3):
    out = []
    for i in range(0, len(cases), max(1, len(cases) // k)):
        c, o = cases[i], observations[i]
        out.append({"case": {x: c[x] for x in c if x != "palette"},
                    "final": {x: o["views"][-1][x] for x in ("exn", "nsampled", "batchidx", "bnums", "methods", "table")} if o["views"] else None})
    return out[:k]


ASSUME = [
    "token components stand for arbitrary samplers/model/loss (the theorems quantify over them)",
    "numpy Generator: the stream is a function of the seed (the recorded stream is an input of the model)",
    "joblib.Parallel(n_jobs=1) consumes the task generator in order in the parent",
    "pickle/json/h5py round trips are exact (examined by C04)",
]
TRUSTED = ["modelled, not verified: numpy vstack/hstack/repeat/reshape/argsort, joblib, pickle, threading (sequential view of the "
           "RL scheduler; interleavings are C10)"]
