"""C14 - early stopping happens exactly when the best loss rounds to zero (shared calibrator model)."""
from __future__ import annotations

import json

from props import calib_common as cc
from props import calib_family as cf


def gen_cases(chk):
    rng = chk.rng
    quick = chk.tier == "quick"
    cases = []
    for i in range(320 if quick else 4000):
        c = cc.gen_case(rng, len(cases), max_ops=4, max_samplers=3, bs_max=3, e_max=2,
                        allow=("calibrate", "calibrate", "checkpoint", "restore"), prec_prob=1, nmax=6)
        if i % 5 == 0:
            c["cfg"]["prec"] = None
        # scripted losses: most palette entries far from zero, a few around the threshold 0.5*10^-p
        p = c["cfg"]["prec"]
        if p is not None:
            pal = [rng.choice([3.5, 1.25, 0.75, 2.0, 10.0, 7.0, 100.0, 1.5]) for _ in range(rng.randint(3, 7))]
            thr = [0.0, 0.25, 0.75, 1.0, 1.5, -0.25, -0.75] + ([0.5, -0.5] if p == 0 else [])
            for _ in range(rng.randint(0, 3)):
                pal.append(rng.choice(thr) * 10.0 ** (-p))
            rng.shuffle(pal)
            c["palette"] = pal
        cases.append(c)
    # an early stop, a restore from the folder (or not), and a later call asking for several batches whose own losses do not
    # round to zero: "the smallest loss found SO FAR" includes the history before the restore, so the later call stops after one
    for i in range(40 if quick else 300):
        c = cc.gen_case(rng, len(cases), max_ops=1, max_samplers=2, bs_max=2, e_max=1, prec_prob=1, nmax=6)
        p = rng.randint(0, 12)
        c["cfg"].update(prec=p, saving=True, verbose=bool(rng.below(2)))
        big = [rng.choice([3.5, 1.25, 2.0, 10.0, 7.0, 100.0, 1.5]) for _ in range(6)]
        c["palette"] = big + [rng.choice([0.0, 0.25, -0.25]) * 10.0 ** (-p)]
        c["ops"] = [["calibrate", 6]] + ([["restore"]] if i % 3 else []) + [["calibrate", rng.randint(2, 4)]] + \
                   ([["restore"], ["calibrate", 2]] if i % 4 == 0 else [])
        cases.append(c)
    return cases


def nontrivial(c, o):
    # a stop actually happened before the requested number of batches, or the threshold was approached
    prev = 0
    for op, v in zip(c["ops"], o["views"]):
        if op[0] == "calibrate" and v["exn"] == 0 and 0 < v["batchidx"] - prev < op[1]:
            return True
        prev = v["batchidx"]
    return False


def run(chk, replay=None):
    chk.proof_gate()
    cases = [json.loads(open(replay).read())["case"]] if replay else gen_cases(chk)
    obs, bad, stats, keys, nontriv = cf.run_traces(chk, cases, cf.oracle_c14, nontrivial, label="C14")
    cov = {
        "evaluations": len(cases), "distinct": len(keys), "distinct_nontrivial": len(nontriv),
        "rule": "calibrate(n) sequences (n 0-6, up to 4 calls, checkpoints/restores in between) with losses scripted through the "
                "token model: values c*10^-p for c in {0, .25, .75, 1, 1.5, -.25, -.75} (and +-.5 at p=0, exactly representable), "
                "precisions 0-12 or none, verbose on/off, saving folder on/off; non-trivial = a calibrate call stopped early",
        "samples": cf.sample_cases(cases, obs),
        "traces_validated_against_impl": len(cases) - len(bad), "model_impl_disagreements": len(bad),
        "distribution": dict(sorted(stats.items())),
    }
    return chk.finish(cov, assumptions=cf.ASSUME + ["np.round(x, p) == 0 iff |x|*10^p <= 1/2 (half-to-even), checked away from "
                      "non-representable half-way points"], trusted=cf.TRUSTED)
