"""C14 - early stopping happens exactly when the best loss rounds to zero (shared calibrator model)."""
from __future__ import annotations

import json

import numpy as np

from props import c09 as cx          # the extended trace runner of the round-4 sweep lives in props/c09.py
from props import calib_common as cc
from props import calib_family as cf


def gen_cases(chk):
    rng = chk.rng
    quick = chk.tier == "quick"
    cases = []
    for i in range(320 if quick else 4000):
        c = cc.gen_case(rng, len(cases), max_ops=4, max_samplers=3, bs_max=3, e_max=2,
                        allow=("calibrate", "calibrate", "checkpoint", "restore"), prec_prob=1, nmax=6)
        if i % 5 == 0:
            c["cfg"]["prec"] = None
        # scripted losses: most palette entries far from zero, a few around the threshold 0.5*10^-p
        p = c["cfg"]["prec"]
        if p is not None:
            pal = [rng.choice([3.5, 1.25, 0.75, 2.0, 10.0, 7.0, 100.0, 1.5]) for _ in range(rng.randint(3, 7))]
            thr = [0.0, 0.25, 0.75, 1.0, 1.5, -0.25, -0.75] + ([0.5, -0.5] if p == 0 else [])
            for _ in range(rng.randint(0, 3)):
                pal.append(rng.choice(thr) * 10.0 ** (-p))
            rng.shuffle(pal)
            c["palette"] = pal
        cases.append(c)
    # an early stop, a restore from the folder (or not), and a later call asking for several batches whose own losses do not
    # round to zero: "the smallest loss found SO FAR" includes the history before the restore, so the later call stops after one
    for i in range(40 if quick else 300):
        c = cc.gen_case(rng, len(cases), max_ops=1, max_samplers=2, bs_max=2, e_max=1, prec_prob=1, nmax=6)
        p = rng.randint(0, 12)
        c["cfg"].update(prec=p, saving=True, verbose=bool(rng.below(2)))
        big = [rng.choice([3.5, 1.25, 2.0, 10.0, 7.0, 100.0, 1.5]) for _ in range(6)]
        c["palette"] = big + [rng.choice([0.0, 0.25, -0.25]) * 10.0 ** (-p)]
        c["ops"] = [["calibrate", 6]] + ([["restore"]] if i % 3 else []) + [["calibrate", rng.randint(2, 4)]] + \
                   ([["restore"], ["calibrate", 2]] if i % 4 == 0 else [])
        cases.append(c)
    return cases


def nontrivial(c, o):
    # a stop actually happened before the requested number of batches, or the threshold was approached
    prev = 0
    for op, v in zip(c["ops"], o["views"]):
        if op[0] == "calibrate" and v["exn"] == 0 and 0 < v["batchidx"] - prev < op[1]:
            return True
        prev = v["batchidx"]
    return False



# ------------------------------------------------------------------------------------------------ round 4 (generator sweep)
BIG = [3.5, 1.25, 0.75, 2.0, 10.0, 7.0, 100.0, 1.5]


def x_palette(rng, precs, negatives=True, extremes=True):
    """Losses far from zero + values around the thresholds 0.5*10^-p of every precision the case uses + (sometimes) large
    negative values together with values that round to zero (the smallest loss decides, not the one nearest zero) +
    (sometimes) tiny / subnormal / huge values and a negative zero."""
    pal = [rng.choice(BIG) for _ in range(rng.randint(3, 6))]
    for p in precs:
        if p is None:
            continue
        thr = [0.0, 0.25, 0.75, 1.0, 1.5] + ([-0.25, -0.75] if negatives else []) + ([0.5] if p == 0 else []) + \
              ([-0.5] if p == 0 and negatives else [])
        for _ in range(rng.randint(0, 2)):
            pal.append(rng.choice(thr) * 10.0 ** (-p))
    if negatives and rng.below(4) == 0:
        pal += [-rng.choice(BIG), 0.0]
    if extremes == 2 or (extremes and rng.below(4) == 0):
        # tiny / subnormal values round to zero at every precision; |x| * 10^p overflows for the huge ones
        pal.append(rng.choice([5e-324, 1e-300, 1.7e308] + ([-1e-300, -0.0, -1.7e308, -1.7e308] if negatives else [])))
    rng.shuffle(pal)
    return pal


def gen_xcases(chk):
    rng = chk.rng
    quick = chk.tier == "quick"
    cases = []
    for i in range(280 if quick else 1050):
        kind = i % 7
        rl = kind == 1
        c = cc.gen_case(rng, len(cases), max_ops=4, max_samplers=3, bs_max=3, e_max=2,
                        allow=("calibrate", "calibrate", "checkpoint", "restore") if kind != 5 else
                        ("calibrate", "calibrate", "set_samplers", "set_scheduler", "restore"), prec_prob=1, nmax=6, rl=rl)
        c["x"] = 1
        precs = [c["cfg"]["prec"]]
        if kind in (0, 1) or rng.below(4) == 0:
            # the precision / verbosity / folder are reassigned between the calls: None <-> p, p -> p'
            ops = []
            for op in c["ops"]:
                if rng.below(2):
                    p2 = rng.choice([None, rng.randint(0, 12), precs[-1]])
                    precs.append(p2)
                    ops.append(["set_cfg", p2, bool(rng.below(2)), bool(rng.below(2)) and not rl])
                ops.append(op)
            c["ops"] = ops + [["calibrate", rng.randint(1, 4)]]
        c["palette"] = x_palette(rng, precs, negatives=not rl, extremes=2 if kind == 3 else 1)
        if kind == 1 and rng.below(2):
            c["rl"]["agent"] = {"alpha": rng.choice([-1, 0.2]), "eps": rng.choice([0.0, 0.5]), "init": 1.0}
        if kind == 2:
            k = rng.choice(["model", "loss", "sampler"])
            c["fault"] = ["sampler", rng.below(len(c["samplers"])), rng.below(3)] if k == "sampler" else [k, rng.below(12)]
            c["ops"] += [["calibrate", rng.randint(1, 4)]]
        if kind == 3:
            c["loss_repr"] = rng.choice(["f32", "np64", "0d", "int"])
            if c["loss_repr"] == "f32":
                c["palette"] = [float(np.float32(x if abs(x) < 3e38 else (1e30 if x > 0 else -1e30))) for x in c["palette"]]
            c["n_repr"] = "np"
            c["bs_np"] = bool(rng.below(2))
            c["lineup_repr"] = "tuple"
            saves = c["cfg"]["saving"] or any(op[0] == "checkpoint" or (op[0] == "set_cfg" and op[3]) for op in c["ops"])
            c["prec_np"] = not saves          # a numpy integer cannot be written to calibration_params.json (not C14's subject)
        if kind == 4:
            p = rng.randint(0, 12)
            c["cfg"].update(prec=p, saving=True)
            c["palette"] = [rng.choice(BIG) for _ in range(5)] + [rng.choice([0.0, 0.25, -0.25]) * 10.0 ** (-p)]
            c["prefill"] = {"samplers": cc.gen_samplers(rng, rng.randint(1, 3), 140, 3), "n": rng.randint(1, 4),
                            "E": rng.randint(1, 3), "seed": rng.below(2**31), "palette": [0.0, 2.0, 1e-13], "salt": rng.below(100)}
            c["folder_repr"] = rng.choice(["str", "path", "slash"])
            c["ops"] = [["calibrate", 6]] + ([["restore"]] if i % 3 else []) + [["calibrate", rng.randint(2, 4)]] + \
                       ([["set_cfg", None, False, True], ["calibrate", 2], ["set_cfg", p, True, True], ["calibrate", 3]] if i % 4 == 0 else [])
        if kind == 6:
            # the precision is reassigned, the state is checkpointed (explicitly, or by a later batch into the folder) and restored:
            # the restored calibrator works with the precision that was IN FORCE when the checkpoint was written
            p1 = rng.choice([None, rng.randint(0, 12)])
            p2 = rng.choice([x for x in [None, rng.randint(0, 12), rng.randint(0, 12)] if x != p1] or [None if p1 is not None else 3])
            c["cfg"]["prec"] = p1
            c["fault"] = None
            c["palette"] = [rng.choice(BIG) for _ in range(4)] + \
                           [rng.choice([0.0, 0.25, -0.25]) * 10.0 ** (-(p if p is not None else rng.randint(0, 12))) for p in (p1, p2)]
            rng.shuffle(c["palette"])
            sv = bool(rng.below(2))
            c["ops"] = [["calibrate", rng.randint(0, 3)], ["set_cfg", p2, bool(rng.below(2)), sv], ["calibrate", rng.randint(0, 3)]] + \
                       ([["checkpoint"]] if not sv or rng.below(2) else []) + [["restore"], ["calibrate", rng.randint(2, 5)]] + \
                       ([["set_cfg", p1, bool(rng.below(2)), sv], ["calibrate", rng.randint(2, 4)], ["restore"], ["calibrate", 3]] if rng.below(2) else [])
        cases.append(c)
    return cases


def oracle_c14_x(case, obs):
    """C14 with the precision / verbosity / folder IN FORCE at every call (reassigned attributes; a restore returns to the
    values saved with the checkpoint); a call interrupted by an injected fault must not have run past the stop point."""
    fails = []
    prev_bi = 0
    for k, (op, v, now, new, ran, wrote) in enumerate(cx.in_force(case, obs)):
        if op[0] == "calibrate" and v["exn"] in (0, 1, 2, 3):
            gs = cf.groups_of(v)
            want = op[1]
            if now["prec"] is not None:
                for j in range(1, op[1] + 1):
                    upto = prev_bi + j
                    if len(gs) < upto:
                        break
                    rows = [i for g in gs[:upto] for i in g[2]]
                    if rows and cf.rounds_to_zero(min(v["losses"][i] for i in rows), now["prec"]):
                        want = j
                        break
            if (v["exn"] == 0 and ran != want) or ran > want:
                fails.append(("stop-point", f"op {k}: calibrate({op[1]}) ran {ran} batches, expected {want} (precision in force "
                                            f"{now['prec']}, verbose {now['verbose']}, outcome {v['exc']})"))
            if v["exn"] == 0 and len(v["returned"]) != v["nsampled"]:
                fails.append(("trigger-in-history", f"op {k}: returned {len(v['returned'])} pairs, history has {v['nsampled']}"))
            if v["exn"] == 0 and now["saving"] and ran > 0:
                d = v["disk"]
                if d is None or "error" in d or any(d[key] != v[key] for key in ("nsampled", "batchidx", "params", "losses", "series", "bnums", "methods")):
                    fails.append(("trigger-in-checkpoint", f"op {k}: checkpoint does not hold the state calibrate returned with"))
        elif op[0] == "calibrate":
            fails.append(("stop-point", f"op {k}: calibrate({op[1]}) raised {v['exc']} (precision in force {now['prec']}); nothing in "
                                        f"the case makes a batch fail"))
        prev_bi = v["batchidx"]
    return fails

def run(chk, replay=None):
    chk.proof_gate()
    cases = [json.loads(open(replay).read())["case"]] if replay else gen_cases(chk)
    xcases = []
    if replay and cases[0].get("x"):
        xcases, cases = cases, []
    elif not replay:
        xcases = gen_xcases(chk)
    obs, bad, stats, keys, nontriv = cf.run_traces(chk, cases, cf.oracle_c14, nontrivial, label="C14", shard=50)
    xobs, xbad, xstats, xkeys, xnontriv = cx.run_traces_x(chk, xcases, oracle_c14_x, nontrivial, label="C14x")
    stats.update(xstats)
    cov = {
        "evaluations": len(cases) + len(xcases), "distinct": len(keys) + len(xkeys), "distinct_nontrivial": len(nontriv) + len(xnontriv),
        "extended_cases": len(xcases),
        "rule": "calibrate(n) sequences (n 0-6, up to 4 calls, checkpoints/restores in between) with losses scripted through the "
                "token model: values c*10^-p for c in {0, .25, .75, 1, 1.5, -.25, -.75} (and +-.5 at p=0, exactly representable), "
                "precisions 0-12 or none, verbose on/off, saving folder on/off; round 4: convergence_precision / verbose / "
                "saving_folder reassigned between the calls (Model/CalibX.v), RL scheduler (scripted and epsilon-greedy agent), "
                "injected faults, set_samplers / set_scheduler between calls, losses returned as float32 / float64 scalars / 0-d "
                "arrays / ints, numpy-integer precision / batch count / batch size, large negative losses next to zeros, tiny / "
                "subnormal / huge losses and -0.0, a saving folder holding another run; non-trivial = a calibrate call stopped early",
        "samples": cf.sample_cases(cases, obs) + cf.sample_cases(xcases, xobs, 2),
        "traces_validated_against_impl": len(cases) - len(bad) + len(xcases) - len(xbad),
        "model_impl_disagreements": len(bad) + len(xbad),
        "distribution": dict(sorted(stats.items())),
    }
    return chk.finish(cov, assumptions=cf.ASSUME + ["np.round(x, p) == 0 iff |x|*10^p <= 1/2 (half-to-even), checked away from "
                      "non-representable half-way points"], trusted=cf.TRUSTED)
