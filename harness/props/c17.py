"""C17 - grid snapping maps every value to a nearest grid element.

Model: coq/Model/Snap.v   Theorems: coq/Properties/C17.v
Correspondence: the real get_closest / digitize_data (black_it/utils/base.py) are run on generated (grid, values) pairs
and 2-D arrays; the observed outputs are compared inside Coq with the exact-rational model
  * exactly on dyadic grids/values (every float subtraction the code performs is exact there), and
  * on generic floats with the one-sided slack of `cell_ok` (upper neighbour accepted when the exact distances differ
    by a factor < 1 + 2^-50; such cases are counted).
Direct oracle (independent of the model, exact integer arithmetic on the scaled floats): every output is an element of
its grid and no grid element is strictly closer; idempotence; column-wise action, shape, inputs untouched.
Round 4 (section "round 4: generator sweep" below): the same real numbers in other dtypes / memory layouts / containers,
extreme scales, threshold sizes, sequences of calls on shared objects (oracle clause "stability"), concurrent calls
(clause "purity"); all in exact mode.  Two inputs on which the unchanged code fails carry their own descriptor (key "repr").
"""
from __future__ import annotations

import itertools
import json

import common
from collections import Counter

import numpy as np

from common import cbool, clist

IMPORTS = "From Coq Require Import List ZArith QArith Floats.\nFrom BlackIt Require Import Model.Snap."
PREAMBLE = "Open Scope float_scope."
CASE_T = "case"
TOL_NUM, TOL_DEN = (1 << 50) + 1, 1 << 50  # 1 + 2^-50, the same constant as Model/Snap.v tol_factor


# ------------------------------------------------------------------ implementation driver
def run_impl(case):
    """Runs the real code; floats come back as Python floats (exact)."""
    from black_it.utils.base import digitize_data, get_closest

    obs = {"error": None}
    try:
        if case["kind"] == "gc":
            bases = []
            if "grep" in case or "vrep" in case or "vshape" in case:
                # round 4: the same real numbers held in another dtype / memory layout / container
                g, b = mk_array(np.array(case["grid"], dtype=float), case.get("grep"))
                bases += b
                vs, b = mk_array(np.array(case["values"], dtype=float).reshape(case.get("vshape", [len(case["values"])])),
                                 case.get("vrep"))
                bases += b
            else:
                g = np.array(case["grid"], dtype=float)
                if case.get("int_grids") and all(float(x).is_integer() and abs(x) < 2**40 for x in case["grid"]):
                    g = np.array([int(x) for x in case["grid"]], dtype=np.int64)
                vs = np.array(case["values"], dtype=float)
            g0, v0, b0 = _snap(g), _snap(vs), [_snap(b) for b in bases]
            out = get_closest(g, vs)
            obs["out"] = [float(x) for x in np.asarray(out).ravel()]
            obs["shape"] = list(np.shape(out))
            obs["inputs_untouched"] = bool(_snap(g) == g0 and _snap(vs) == v0 and [_snap(b) for b in bases] == b0)
            again = get_closest(g, np.array(out, dtype=float))
            obs["twice"] = [float(x) for x in np.asarray(again).ravel()]
            if bases:
                # ... and the returned array itself (in whatever dtype it has) fed back
                obs["twice_raw"] = [float(x) for x in np.asarray(get_closest(g, out)).ravel()]
            obs["grid_fixed"] = [float(x) for x in get_closest(g, g.copy())]
        else:
            def mk_grid(g):
                # a grid of whole numbers may legitimately be stored with an integer dtype
                if case.get("int_grids") and all(float(x).is_integer() and abs(x) < 2**40 for x in g):
                    return np.array([int(x) for x in g], dtype=np.int64)
                return np.array(g, dtype=float)

            bases = []
            if "greps" in case:
                grids = []
                for g, rep in zip(case["grids"], case["greps"]):
                    a, b = mk_array(np.array(g, dtype=float), rep)
                    grids.append(a)
                    bases += b
            else:
                grids = [mk_grid(g) for g in case["grids"]]
            ncol = len(case["grids"])
            # grids of further parameters after the ones of the columns (never used: column i has grid i)
            pg = grids + [np.array(g, dtype=float) for g in case.get("extra_grids", [])]
            if case.get("container") == "tuple":
                pg = tuple(pg)
            if case.get("reuse_grid_objects"):
                # the SAME array objects held other interior points (same length, same end-points) during an earlier call
                real_vals = [g.copy() for g in grids]
                for g in grids:
                    if len(g) > 2 and g.dtype == np.float64:
                        g[1:-1] = np.linspace(g[0], g[-1], len(g))[1:-1]
                probe = np.array([[float(g[len(g) // 2]) for g in grids]], dtype=float)
                digitize_data(probe, grids)
                for g, r in zip(grids, real_vals):
                    g[:] = r
            raw = np.array(case["raw"], dtype=float).reshape(len(case["raw"]), ncol)
            T = case.get("stack")
            if T:
                # a 3-d array (rows, columns, T): column i of every slice is snapped with grid i ("all array shapes");
                # it is presented to the oracle and the model as the (rows*T, columns) matrix of its cells
                nrow3 = len(case["raw"]) // T
                raw_in = np.ascontiguousarray(raw.reshape(nrow3, T, ncol).transpose(0, 2, 1))
                back = lambda a: np.asarray(a).transpose(0, 2, 1).reshape(nrow3 * T, ncol)  # noqa: E731
            else:
                raw_in = raw
                back = lambda a: np.asarray(a)  # noqa: E731
            if "drep" in case:
                raw_in, b = mk_array(raw_in, case["drep"])
                bases += b
            g0, r0, b0 = [g.copy() for g in pg], raw_in.copy(), [_snap(b) for b in bases]
            out_in = digitize_data(raw_in, pg)
            if np.shape(out_in) != raw_in.shape:
                obs["shape"] = list(np.shape(out_in))
                obs["out"] = []
                obs["inputs_untouched"] = True
                obs["by_column"], obs["twice"] = [], []
                obs["error"] = f"shape: digitize_data returned shape {np.shape(out_in)} for input shape {raw_in.shape}"
                return obs
            out = back(out_in)
            obs["out"] = [[float(x) for x in row] for row in out]
            obs["shape"] = list(np.shape(out))
            obs["inputs_untouched"] = bool(_same_bits(raw_in, r0) and all(_same_bits(a, b) for a, b in zip(pg, g0))
                                           and [_snap(b) for b in bases] == b0)
            obs["by_column"] = [[float(x) for x in get_closest(grids[c], raw[:, c].copy())] for c in range(ncol)]
            again = digitize_data(np.array(out_in, dtype=float), pg)
            obs["twice"] = [[float(x) for x in row] for row in back(again)]
    except Exception as e:  # noqa: BLE001
        obs["error"] = f"{type(e).__name__}: {e}"
    return obs


def _same_bits(a, b):
    return a.shape == b.shape and a.tobytes() == b.tobytes()


def _snap(x):
    """a comparable snapshot of an argument (array: shape, dtype, cell bytes in logical order; list/tuple/scalar: repr)"""
    if isinstance(x, np.ndarray):
        return (x.shape, x.dtype.str, x.tobytes())
    return repr(x)


# ------------------------------------------------------------------ exact arithmetic helpers (oracle side)
def scaled_ints(*float_lists):
    """All floats as integers over one common power-of-two denominator (exact)."""
    ratios = [[float(x).as_integer_ratio() for x in lst] for lst in float_lists]
    den = max([d for lst in ratios for _, d in lst] or [1])
    return [[n * (den // d) for n, d in lst] for lst in ratios]


def oracle_pair(grid, values, outs, tol):
    """The property for one (grid, values) pair: membership and minimal distance.  Returns failure strings."""
    fails = []
    if len(outs) != len(values):
        return [f"shape: {len(outs)} outputs for {len(values)} values"]
    G, V, O = scaled_ints(grid, values, outs)
    gset = set(G)
    for k, (v, o) in enumerate(zip(V, O)):
        if o not in gset:
            fails.append(f"membership: value #{k}={values[k]!r} -> {outs[k]!r} is not an element of the grid")
            continue
        d = abs(v - o)
        best = min(abs(v - x) for x in G)
        worse = d > best if not tol else d * TOL_DEN > best * TOL_NUM
        if worse:
            x = grid[min(range(len(G)), key=lambda j: abs(v - G[j]))]
            fails.append(f"nearest: value #{k}={values[k]!r} -> {outs[k]!r} but grid element {x!r} is strictly closer")
    return fails


def oracle(case, obs):
    if obs["error"]:
        return [f"exception: {obs['error']}"]
    fails = []
    tol = case["tol"]
    if case["kind"] == "gc":
        want_shape = case.get("vshape", [len(case["values"])])
        if obs["shape"] != want_shape:
            fails.append(f"shape: {obs['shape']} != {want_shape}")
        fails += oracle_pair(case["grid"], case["values"], obs["out"], tol)
        if not _eq_floats(obs["twice"], obs["out"]) or not _eq_floats(obs.get("twice_raw", obs["out"]), obs["out"]):
            fails.append("idempotence: snapping the snapped values changes them")
        if not _eq_floats(obs["grid_fixed"], case["grid"]):
            fails.append("idempotence: a grid element is not mapped to itself")
    else:
        nrow, ncol = len(case["raw"]), len(case["grids"])
        if obs["shape"] != [nrow, ncol]:
            return [f"shape: {obs['shape']} != {[nrow, ncol]}"]
        for c in range(ncol):
            col_in = [row[c] for row in case["raw"]]
            col_out = [row[c] for row in obs["out"]]
            fails += [f.replace(": ", f": column {c}: ", 1) for f in oracle_pair(case["grids"][c], col_in, col_out, tol)]
            if not _eq_floats(col_out, obs["by_column"][c]):
                fails.append(f"columnwise: column {c} of digitize_data differs from get_closest(grid[{c}], data[:, {c}])")
        if [x for r in obs["twice"] for x in r] != [x for r in obs["out"] for x in r]:
            fails.append("idempotence: digitising the digitised array changes it")
    if not obs["inputs_untouched"]:
        fails.append("inputs: an argument array was modified")
    fails += [f + " (long sequential call of a thread job)" for f in obs.get("full_fails", [])]
    if obs.get("stable") is False:
        fails.append("stability: an array returned by an earlier call no longer holds the numbers it was returned with "
                     "after later calls on the same grid objects")
    if obs.get("pure") is False:
        fails.append(f"purity: the same call gives another result while other threads call the function ({obs.get('pure_detail')})")
    return fails


def _eq_floats(a, b):
    return len(a) == len(b) and all(x == y for x, y in zip(a, b))


# ------------------------------------------------------------------ Coq literals
def fl(x):
    """float64 -> PrimFloat literal (hexadecimal, exact; parsed natively by Coq)."""
    x = float(x)
    if x != x:
        return "nan"
    if x in (float("inf"), float("-inf")):
        return "infinity" if x > 0 else "neg_infinity"
    h = x.hex()
    return f"({h})" if h.startswith("-") else h


def fll(xs):
    return clist([fl(x) for x in xs])


def emit(case, obs):
    if case["kind"] == "codec":
        n, d = float(case["value"]).as_integer_ratio()
        return f"CODEC {fl(case['value'])} ({n})%Z {d}%positive"
    out = obs.get("out") if not obs["error"] else []
    if case["kind"] == "gc":
        return f"GC {cbool(case['tol'])} {fll(case['grid'])} {fll(case['values'])} {fll(out)}"
    return (f"DG {cbool(case['tol'])} {clist([fll(g) for g in case['grids']])} "
            f"{clist([fll(r) for r in case['raw']])} {clist([fll(r) for r in out])}")


# ------------------------------------------------------------------ generators
def grid_size(rng):
    k = rng.below(100)
    if k < 6:
        return 1
    if k < 36:
        return rng.randint(2, 5)
    if k < 76:
        return rng.randint(6, 30)
    return rng.randint(31, 200)


def dyadic_grid(rng, n):
    """Sorted integers (in units of 2^-s) -> (ints, s, flavour); |ints| < 2^32."""
    s = rng.choice([0, 0, 1, 2, 3, 5, 8, 10, 16, 20])
    start = rng.randint(-(1 << rng.randint(0, 30)), 1 << rng.randint(0, 30))
    flavour = rng.choice(["uniform", "uniform", "nonuniform", "nonuniform", "dups", "geometric"])
    if n == 1:
        flavour = "single"
    ints = [start]
    if flavour == "uniform":
        step = rng.randint(1, 1 << rng.randint(0, 12))
        ints = [start + i * step for i in range(n)]
    elif flavour == "geometric":
        gap = 1
        for _ in range(n - 1):
            ints.append(ints[-1] + gap)
            gap = min(gap * 2, 1 << 22)
    else:
        mg = 1 << rng.randint(0, 14)
        for _ in range(n - 1):
            if flavour == "dups" and rng.below(3) == 0:
                ints.append(ints[-1])
            else:
                ints.append(ints[-1] + rng.randint(1, mg))
    return ints, s, flavour


def dyadic_values(rng, ints, nv):
    """Values in units of 2^-(s+2) (grid ints are multiplied by 4): elements, exact mid-points, next to mid-points,
    inside, just outside, far outside."""
    g4 = [4 * x for x in ints]
    lo, hi = g4[0], g4[-1]
    vals = []
    for _ in range(nv):
        k = rng.below(16)
        i = rng.below(len(g4))
        j = min(i + 1, len(g4) - 1)
        if k < 3:
            v = g4[i]
        elif k < 6:
            v = (g4[i] + g4[j]) // 2  # exact mid-point (grid ints *4 are even sums)
        elif k < 8:
            v = (g4[i] + g4[j]) // 2 + rng.choice([-1, 1])
        elif k < 11:
            v = rng.randint(lo, hi) if hi > lo else lo
        elif k == 11:
            v = lo - rng.randint(0, 1 << rng.randint(0, 12))
        elif k == 12:
            v = hi + rng.randint(0, 1 << rng.randint(0, 12))
        elif k == 13:
            v = lo - (1 << rng.randint(20, 44))
        elif k == 14:
            v = hi + (1 << rng.randint(20, 44))
        else:
            v = rng.choice([lo, hi, g4[len(g4) // 2]])
        vals.append(v)
    return vals


def gen_gc_dyadic(rng):
    n = grid_size(rng)
    ints, s, flavour = dyadic_grid(rng, n)
    nv = rng.randint(1, 24)
    vals = dyadic_values(rng, ints, nv)
    sc = 2.0 ** -(s + 2)
    return {"kind": "gc", "tol": False, "cls": "dyadic-" + flavour, "grid": [4 * x * sc for x in ints],
            "values": [v * sc for v in vals]}


def gen_gc_int(rng):
    """a grid of whole numbers stored with an INTEGER dtype, real (fractional) values: exact in float arithmetic"""
    n = rng.randint(1, 12)
    start = rng.randint(-8, 8)
    grid, x = [], start
    for _ in range(n):
        grid.append(float(x))
        x += rng.randint(1, 4)
    vals = [grid[0] - 3.25, grid[-1] + 2.5] + [rng.randint(int(grid[0]) * 4 - 6, int(grid[-1]) * 4 + 6) / 4.0 for _ in range(rng.randint(2, 16))]
    return {"kind": "gc", "tol": False, "cls": "int-dtype-grid", "grid": grid, "values": vals, "int_grids": True}


def float_grid(rng, n):
    scale = 10.0 ** rng.randint(-6, 6)
    flavour = rng.choice(["arange", "linspace", "random", "random", "dups"])
    if n == 1:
        return [rng.uniform(-scale, scale)], "single"
    if flavour == "arange":
        lo = rng.choice([0.0, -scale, rng.uniform(-scale, scale)])
        step = rng.choice([0.1, 0.01, 0.001, 0.25, 0.3, 1.0 / 3.0, 0.7]) * scale / 10
        g = [float(x) for x in lo + np.arange(n) * step]
    elif flavour == "linspace":
        lo = rng.uniform(-scale, scale)
        g = [float(x) for x in np.linspace(lo, lo + rng.uniform(0.1, 2.0) * scale, n)]
    else:
        g = sorted(rng.uniform(-scale, scale) for _ in range(n))
        if flavour == "dups":
            for i in range(1, n):
                if rng.below(3) == 0:
                    g[i] = g[i - 1]
            g = sorted(g)
    return g, flavour


def float_values(rng, g, nv):
    lo, hi = g[0], g[-1]
    span = (hi - lo) or abs(lo) or 1.0
    vals = []
    for _ in range(nv):
        k = rng.below(12)
        i = rng.below(len(g))
        j = min(i + 1, len(g) - 1)
        if k < 2:
            v = g[i]
        elif k < 5:
            v = (g[i] + g[j]) / 2  # float mid-point: an exact tie or off by a rounding
        elif k < 6:
            v = float(np.nextafter((g[i] + g[j]) / 2, rng.choice([-np.inf, np.inf])))
        elif k < 9:
            v = rng.uniform(lo, hi)
        elif k == 9:
            v = lo - rng.random() * span
        elif k == 10:
            v = hi + rng.random() * span
        else:
            v = rng.choice([-1.0, 1.0]) * 10.0 ** rng.randint(3, 12) * (1 + rng.random())
        vals.append(float(v))
    return vals


def gen_gc_float(rng):
    g, flavour = float_grid(rng, grid_size(rng))
    return {"kind": "gc", "tol": True, "cls": "float-" + flavour, "grid": g, "values": float_values(rng, g, rng.randint(1, 24))}


def gen_dg(rng, tol):
    ncol = rng.randint(1, 6)
    nrow = rng.choice([0, 1, 1, 2, 3, 4, 6, 8])
    grids, cols = [], []
    for _ in range(ncol):
        n = min(grid_size(rng), 60)
        if tol:
            g, _ = float_grid(rng, n)
            col = float_values(rng, g, nrow)
        else:
            ints, s, _ = dyadic_grid(rng, n)
            sc = 2.0 ** -(s + 2)
            g = [4 * x * sc for x in ints]
            col = [v * sc for v in dyadic_values(rng, ints, nrow)]
        grids.append(g)
        cols.append(col)
    raw = [[cols[c][r] for c in range(ncol)] for r in range(nrow)]
    case = {"kind": "dg", "tol": tol, "cls": "digitize-" + ("float" if tol else "dyadic"), "grids": grids, "raw": raw}
    if rng.below(4) == 0:
        case["reuse_grid_objects"] = True
        case["cls"] += "-reused"
    if nrow >= 2 and rng.below(3) == 0:
        divs = [t for t in (2, 3, 4) if nrow % t == 0]
        if divs:
            case["stack"] = rng.choice(divs)          # the same cells arranged as a 3-d array (nrow/T, ncol, T)
            case["cls"] += "-3d"
    return case


def gen_dg_mixed_int(rng):
    """columns whose grids are whole numbers stored with an integer dtype next to columns with fractional grids (a count
    parameter next to a rate): every column is snapped onto its own grid, whatever the dtype of its neighbours' grids"""
    ncol = rng.randint(2, 4)
    nrow = rng.choice([1, 2, 3, 5])
    int_cols = {0} if rng.below(3) else {rng.below(ncol)}
    if rng.below(3) == 0:
        int_cols.add(rng.below(ncol))
    grids, cols = [], []
    for c in range(ncol):
        if c in int_cols:
            n, x, g = rng.randint(1, 8), rng.randint(-6, 6), []
            for _ in range(n):
                g.append(float(x))
                x += rng.randint(1, 3)
            col = [rng.randint(int(g[0]) * 4 - 6, int(g[-1]) * 4 + 6) / 4.0 for _ in range(nrow)]
        else:
            ints, sh, _ = dyadic_grid(rng, min(grid_size(rng), 20))
            sc = 2.0 ** -(sh + 2)
            g = [4 * x * sc for x in ints]
            col = [v * sc for v in dyadic_values(rng, ints, nrow)]
        grids.append(g)
        cols.append(col)
    raw = [[cols[c][r] for c in range(ncol)] for r in range(nrow)]
    return {"kind": "dg", "tol": False, "cls": "digitize-mixed-int-float-grids", "grids": grids, "raw": raw, "int_grids": True}


def exhaustive_cases(with_duplicates):
    """All sorted grids made of elements of {0..7} (every non-empty subset; optionally also every non-decreasing
    sequence of length <= 4), values = all halves from -2 to 9."""
    values = [k / 2 for k in range(-4, 19)]
    cases = []
    for m in range(1, 256):
        g = [float(i) for i in range(8) if m >> i & 1]
        cases.append({"kind": "gc", "tol": False, "cls": "exhaustive-subset", "grid": g, "values": values})
    if with_duplicates:
        for n in range(2, 5):
            for comb in itertools.combinations_with_replacement(range(8), n):
                if len(set(comb)) < n:
                    cases.append({"kind": "gc", "tol": False, "cls": "exhaustive-multiset",
                                  "grid": [float(i) for i in comb], "values": values})
    return cases


def fixed_cases():
    """Hand-placed boundary cases (always run)."""
    return [
        {"kind": "gc", "tol": False, "cls": "fixed", "grid": [0.0, 0.5, 1.0], "values": [0.75, 0.25, -5.0, 7.0, 0.0, 0.5, 1.0]},
        {"kind": "gc", "tol": False, "cls": "fixed", "grid": [2.5], "values": [-1.0, 2.5, 9.0]},
        {"kind": "gc", "tol": False, "cls": "fixed", "grid": [1.0, 1.0, 1.0], "values": [0.0, 1.0, 2.0]},
        {"kind": "gc", "tol": False, "cls": "fixed", "grid": [-3.0, -1.0], "values": [-2.0, -3.0, -1.0, -2.25, -1.75, 0.0, -4.0]},
        {"kind": "gc", "tol": False, "cls": "fixed", "grid": [0.0, 1.0], "values": []},
        {"kind": "dg", "tol": False, "cls": "fixed", "grids": [[0.0, 1.0, 2.0, 3.0], [0.0, 10.0, 20.0, 30.0], [0.0, 0.25, 0.5]],
         "raw": [[0.1, 1.0, 0.125], [2.5, 15.0, 0.3], [9.0, -4.0, 0.375]]},
        {"kind": "dg", "tol": True, "cls": "fixed", "grids": [[float(x) for x in np.arange(0, 1.0000001, 0.1)], [-1.0, 1.0]],
         "raw": [[0.05, 0.0], [0.15000000000000002, 0.5], [0.95, -0.5], [0.35, 1e9]]},
    ]


# ================================================================== round 4: generator sweep
# The property quantifies over real values, grids and array shapes; the functions receive them as numpy arrays.  The
# cases below present the SAME real numbers in other dtypes / memory layouts / containers, at extreme scales, in grids
# of threshold sizes, through re-used objects, in sequences of calls and from several threads.  Every case still carries
# the real numbers as Python floats (exactly representable in the chosen dtype - checked by mk_array), so the oracle and
# the Coq model judge them unchanged.
NP_DT = {"f8": "float64", "f4": "float32", "f2": "float16", "i8": "int64", "i4": "int32", "i2": "int16", "i1": "int8",
         "u1": "uint8", "u2": "uint16", "u4": "uint32"}
UNSIGNED = ("u1", "u2", "u4")
INT_DT = ("i8", "i4", "i2", "i1") + UNSIGNED


class HarnessBug(Exception):
    """a generated number is not representable in the requested dtype (a defect of this harness, never of /repo)"""


def mk_array(a64, rep):
    """a64: float64 ndarray of the real values; rep: {"dt": key of NP_DT, "lay": layout}.  Returns (argument, bases):
    the argument to pass (an array with that dtype and memory layout whose cells hold exactly the same real numbers, or a
    list / tuple / scalar) and the arrays owning the memory, which must stay bit-identical."""
    rep = rep or {}
    dt = np.dtype(NP_DT[rep.get("dt", "f8")])
    with np.errstate(all="ignore"):
        a = a64.astype(dt)
    if a.shape != a64.shape or not np.array_equal(a.astype(np.float64), a64):
        raise HarnessBug(f"values not representable as {dt}: {a64.ravel()[:5]}")
    lay = rep.get("lay", "C")
    decoy = 77 if dt.kind in "iu" else 31337.5
    if a.ndim == 0 and lay not in ("C", "ro", "pyscalar", "npscalar", "list", "tuple"):
        lay = "C"
    if lay == "C":
        v = np.ascontiguousarray(a).reshape(a.shape)
        return v, [v]
    if lay == "ro":
        v = np.ascontiguousarray(a).reshape(a.shape)
        v.setflags(write=False)
        return v, [v]
    if lay == "F":
        v = np.asfortranarray(a)
        return v, [v]
    if lay == "stride":          # every second cell of a twice larger array along every axis
        base = np.full(tuple(2 * k for k in a.shape), decoy, dtype=dt)
        v = base[tuple(slice(None, None, 2) for _ in a.shape)]
        v[...] = a
        return v, [base]
    if lay == "offset":          # a window of a longer buffer
        base = np.full(a.size + 5, decoy, dtype=dt)
        v = base[3:3 + a.size].reshape(a.shape)
        v[...] = a
        return v, [base]
    if lay == "neg":             # negative stride along the first axis
        base = np.ascontiguousarray(a[::-1])
        return base[::-1], [base]
    if lay == "unaligned":       # cells start at an odd byte address
        buf = bytearray(a.nbytes + 1)
        v = np.frombuffer(buf, dtype=dt, count=a.size, offset=1).reshape(a.shape)
        v[...] = a
        return v, [np.frombuffer(buf, dtype=np.uint8)]
    if lay == "list":
        return a.tolist(), []
    if lay == "tuple":
        return tuple(a.tolist()), []
    if lay == "pyscalar":
        return a.tolist(), []
    if lay == "npscalar":
        return a[()], []
    raise HarnessBug(f"unknown layout {lay}")


LAYOUTS_1D = ["C", "C", "ro", "stride", "offset", "neg", "unaligned"]
LAYOUTS_ND = ["C", "C", "F", "F", "ro", "stride", "offset", "neg", "unaligned"]
EDGE_SIZES = [1, 2, 3, 4, 5, 7, 8, 9, 15, 16, 17, 31, 32, 33, 63, 64, 65, 127, 128, 129, 199, 200]


def dyadic_grid2(rng, n):
    """further flavours of sorted integer grids (units of 2^-s): almost uniform (one or two elements of a uniform grid
    moved by 1-3 units, relative change of the step <= 2^-15), far from the origin (|start| = 2^40..2^48, steps 1-8),
    plus the flavours of dyadic_grid."""
    k = rng.below(10)
    if n >= 3 and k < 3:
        step = 1 << rng.randint(17, 22)
        start = rng.randint(-(1 << 24), 1 << 24)
        ints = [start + i * step for i in range(n)]
        for _ in range(rng.randint(1, 2)):
            ints[rng.randint(1, n - 1)] += rng.choice([-3, -2, -1, 1, 2, 3])
        return sorted(ints), rng.choice([0, 2, 10, 20, 30, 40]), "almost-uniform"
    if k < 5:
        start = rng.choice([-1, 1]) * (1 << rng.randint(40, 48)) + rng.randint(-1000, 1000)
        ints = [start]
        for _ in range(n - 1):
            ints.append(ints[-1] + (0 if rng.below(8) == 0 else rng.randint(1, 8)))
        return ints, rng.choice([0, 3, 10, 20]), "far-from-origin"
    return dyadic_grid(rng, n)


def extreme_shift(rng):
    """exponent s of the unit 2^-s for huge / tiny scales: values between 2^-1074 (subnormal) and 2^1004; squares of
    the distances under- or overflow for most of them.  Every quantity stays an integer multiple of 2^-(s+2) below
    2^53 such multiples, so float64 subtraction is still exact."""
    k = rng.below(6)
    if k == 0:
        return 1072                      # unit 2^-1072: quarter units are the subnormal quantum 2^-1074
    if k == 1:
        return rng.randint(1020, 1072)   # subnormal / smallest normal numbers
    if k < 4:
        return rng.randint(400, 1019)
    return -rng.randint(400, 958)


def gen_gc_dyadic_x(rng):
    """exact mode, float64: threshold sizes, long value vectors, n-d value arrays, memory layouts, lists / tuples,
    almost-uniform and far-from-origin grids, huge and tiny scales"""
    n = rng.choice(EDGE_SIZES) if rng.below(2) else grid_size(rng)
    ints, s, flavour = dyadic_grid2(rng, n)
    cls = "x-" + flavour
    if rng.below(4) == 0:
        s = extreme_shift(rng)
        cls += "-extreme-scale"
    nv = rng.randint(1, 24) if rng.below(8) else rng.randint(100, 400)
    if "extreme" in cls and n > 33:
        nv = min(nv, 60)                 # (rationals with 1000-bit denominators: keeps the Coq evaluation light)
    vals = dyadic_values(rng, ints, nv)
    sc = 2.0 ** -(s + 2)
    case = {"kind": "gc", "tol": False, "cls": cls, "grid": [4 * x * sc for x in ints], "values": [v * sc for v in vals]}
    k = rng.below(10)
    if k < 5:
        case["grep"] = {"dt": "f8", "lay": rng.choice(LAYOUTS_1D)}
        case["vrep"] = {"dt": "f8", "lay": rng.choice(LAYOUTS_1D)}
    elif k < 7:
        case["vrep"] = {"dt": "f8", "lay": rng.choice(["list", "tuple"])}
    elif k < 9 and nv >= 2:
        # the values as a 2-d or 3-d array: "acts element-wise on arrays", "all array shapes"
        shapes = [[a, nv // a] for a in (1, 2, 3, 4, 5) if nv % a == 0] + [[nv, 1]]
        if nv % 4 == 0:
            shapes.append([2, nv // 4, 2])
        case["vshape"] = rng.choice(shapes)
        case["vrep"] = {"dt": "f8", "lay": rng.choice(LAYOUTS_ND)}
    return case


def near_max_cases():
    """grids and values next to the largest finite float64 (sums of two elements overflow, differences do not)"""
    big = 2.0 ** 1021
    g = [big * k for k in (1.0, 2.0, 3.0, 4.0, 6.0, 7.0)]
    v = [big * k for k in (0.5, 1.0, 1.25, 1.5, 1.75, 2.5, 3.25, 3.75, 4.5, 5.0, 5.5, 6.25, 6.5, 6.75, 7.0, 7.5)]
    top = 1.7976931348623157e308
    return [
        {"kind": "gc", "tol": False, "cls": "fixed-near-max", "grid": g, "values": v},
        {"kind": "gc", "tol": False, "cls": "fixed-near-max", "grid": [-x for x in reversed(g)], "values": [-x for x in v]},
        {"kind": "gc", "tol": False, "cls": "fixed-near-max", "grid": [-top, 0.0, top], "values": [-top, top, big, -big, 0.0, 3 * big, -5 * big]},
        {"kind": "dg", "tol": False, "cls": "fixed-near-max", "grids": [g, [-x for x in reversed(g)]],
         "raw": [[a, -b] for a, b in zip(v, reversed(v))]},
    ]


def gen_gc_zero(rng):
    """signed zeros and the smallest numbers: grids holding -0.0 and / or 0.0, values +-0.0, +-2^-1074 ..."""
    sc = rng.choice([1.0, 2.0 ** -1072, 2.0 ** -1022, 2.0 ** -30, 2.0 ** 600])
    pool = [-8.0, -4.0, -0.0, -0.0, 0.0, 0.0, 4.0, 12.0]
    grid = sorted((rng.choice(pool) * sc for _ in range(rng.randint(1, 6))))
    # -0.0 == 0.0: any order of the two is sorted; shuffle the zeros among themselves
    zeros = [x for x in grid if x == 0.0]
    rng.shuffle(zeros)
    it = iter(zeros)
    grid = [next(it) if x == 0.0 else x for x in grid]
    vals = [rng.choice([0.0, -0.0, 1.0, -1.0, 2.0, -2.0, 3.0, -3.0, 6.0, 8.0, 9.0, -6.0, -9.0, 4.0, -4.0]) * sc
            for _ in range(rng.randint(1, 12))]
    case = {"kind": "gc", "tol": False, "cls": "signed-zero", "grid": grid, "values": vals}
    if rng.below(2):
        case["grep"] = {"dt": "f8", "lay": rng.choice(LAYOUTS_1D)}
        case["vrep"] = {"dt": "f8", "lay": rng.choice(LAYOUTS_1D + ["list"])}
    return case


def small_world(rng, n, nv, lim, s, grid_whole, values_whole, fine_grid):
    """a sorted grid and values as integers in quarter units q = 2^-(s+2), all within +-lim/2 (so every difference is
    an integer below lim: exact in any float type with log2(lim)+1 significand bits).  grid_whole / values_whole: only
    whole numbers (for integer dtypes); fine_grid: elements on any quarter unit instead of whole units."""
    unit = 1 << (s + 2)
    gm = unit if grid_whole else (1 if fine_grid else 4)
    vm = unit if values_whole else 1
    top = lim // 2
    kmax = max(1, (top // 2) // gm)
    uniform = rng.below(3) == 0
    gap = rng.randint(1, max(1, min(6, (2 * kmax) // max(1, n))))
    k = rng.randint(-kmax, max(-kmax, kmax - (n - 1) * gap if uniform else 0))
    ks = [k]
    for _ in range(n - 1):
        step = gap if uniform else (0 if rng.below(5) == 0 else rng.randint(1, max(1, min(12, kmax // 4))))
        if ks[-1] + step > kmax:
            break
        ks.append(ks[-1] + step)
    g = [x * gm for x in ks]
    lo, hi = g[0], g[-1]

    def snap_v(v):
        v = max(-top, min(top, v))
        return (v // vm) * vm if vm > 1 else v

    vals = []
    for _ in range(nv):
        c = rng.below(14)
        i = rng.below(len(g))
        j = min(i + 1, len(g) - 1)
        if c < 2:
            v = g[i]
        elif c < 5:
            v = (g[i] + g[j]) // 2
        elif c < 7:
            v = (g[i] + g[j]) // 2 + rng.choice([-1, 1]) * vm
        elif c < 10:
            v = rng.randint(lo, hi) if hi > lo else lo
        elif c == 10:
            v = lo - rng.randint(0, 40) * vm
        elif c == 11:
            v = hi + rng.randint(0, 40) * vm
        else:
            v = rng.choice([-top, top])
        vals.append(snap_v(v))
    return g, vals


def _lim_for(dts):
    return 1000 if any(d in ("f2", "i2", "i1", "u1", "u2") for d in dts) else 1 << 20


def repr_pair(rng, vdt, gdt, n, nv):
    """(grid floats, value floats, tag) for a value dtype and a grid dtype: real numbers exactly representable in them,
    chosen so that every subtraction numpy performs (in the common type of the two) is exact"""
    lim = _lim_for([vdt, gdt])
    grid_whole, values_whole = gdt in INT_DT, vdt in INT_DT
    s = rng.randint(0, 3) if (grid_whole or values_whole) else rng.randint(0, 8)
    if lim == 1000 and (grid_whole or values_whole):
        s = rng.randint(0, 1)
    fine = values_whole and not grid_whole and rng.below(4) != 0      # whole values, fractional grid elements
    g, vals = small_world(rng, n, nv, lim, s, grid_whole, values_whole, fine)
    if gdt in UNSIGNED:
        off = ((-g[0] + (1 << (s + 2)) - 1) >> (s + 2) << (s + 2)) if g[0] < 0 else 0   # shift to non-negative wholes
        g = [x + off for x in g]
        vals = [v + off for v in vals]
    q = 2.0 ** -(s + 2)
    gf, vf, tag = [x * q for x in g], [v * q for v in vals], ""
    fq = q * 2.0 ** -20
    if gdt == "f8" and vdt in ("f4", "f2", "i8", "i4", "i2") and rng.below(2):
        # elements that the value dtype cannot hold: quarter units plus a fraction of 2^-20 quarter unit
        gf = sorted(x + rng.randint(1, (1 << 18) - 1) * fq for x in gf)
        tag = "-fine-grid"
    if vdt == "f8" and gdt in ("f4", "f2") and len(gf) >= 2:
        # values that the grid dtype cannot hold, a hair (2^-20 quarter unit ..) off a mid-point or an element
        for k in range(len(vf)):
            if rng.below(3) == 0:
                i = rng.below(len(gf) - 1)
                base = rng.choice([(gf[i] + gf[i + 1]) / 2, gf[i]])
                vf[k] = base + rng.choice([-1, 1]) * rng.choice([1, 1, 3, 1 << 10]) * fq
        tag = "-fine-values"
    return gf, vf, tag


def gen_gc_repr(rng):
    """the same real numbers in other dtypes: float32 / float16 / int64 / int32 / int16 values, float32 / float16 /
    signed and unsigned integer grids; with memory layouts"""
    vdt = rng.choice(["f8", "f8", "f4", "f4", "f2", "i8", "i4", "i2"])
    gdt = rng.choice(["f8", "f8", "f4", "f4", "f2", "i8", "i4", "i2", "u1", "u2", "u4"])
    if vdt == "f8" and gdt == "f8":
        gdt = rng.choice(["f4", "f2", "i4", "u2"])
    n = rng.choice([1, 1, 2, 3, 5, 8, 16, 33, 64, 200]) if rng.below(2) else rng.randint(1, 40)
    gf, vf, tag = repr_pair(rng, vdt, gdt, n, rng.randint(1, 24))
    case = {"kind": "gc", "tol": False, "cls": "repr-get-closest" + tag, "grid": gf, "values": vf,
            "grep": {"dt": gdt, "lay": rng.choice(LAYOUTS_1D)},
            "vrep": {"dt": vdt, "lay": rng.choice(LAYOUTS_1D + (["list"] if vdt in ("f8", "i8") else []))}}
    nv = len(vf)
    if nv >= 4 and nv % 2 == 0 and rng.below(5) == 0:
        case["vshape"] = [2, nv // 2]
        case["vrep"]["lay"] = rng.choice(LAYOUTS_ND)
    return case


def gen_dg_repr(rng):
    """digitize_data on arrays of another dtype / memory layout, 1-12 columns, up to 40 rows, grids of mixed dtypes,
    a tuple of grids, grids of further parameters after those of the columns, 3-d stacks"""
    ncol = rng.choice([1, 2, 3, 4, 6, 9, 11, 12])
    nrow = rng.choice([0, 1, 2, 3, 4, 6, 8, 17, 40])
    ddt = rng.choice(["f8", "f8", "f4", "f4", "f2", "i8", "i4", "i2"])
    grids, cols, greps = [], [], []
    tags = set()
    for _ in range(ncol):
        gdt = rng.choice(["f8", "f8", "f8", "f4", "f2", "i8", "i4", "u1"])
        n = rng.choice([1, 2, 3, 5, 9, 30]) if rng.below(2) else rng.randint(1, 25)
        gf, vf, tag = repr_pair(rng, ddt, gdt, n, nrow)
        tags.add(tag)
        grids.append(gf)
        cols.append(vf)
        greps.append({"dt": gdt, "lay": rng.choice(LAYOUTS_1D)})
    raw = [[cols[c][r] for c in range(ncol)] for r in range(nrow)]
    case = {"kind": "dg", "tol": False, "cls": "repr-digitize" + ("-fine-grid" if "-fine-grid" in tags else ""),
            "grids": grids, "raw": raw, "greps": greps, "drep": {"dt": ddt, "lay": rng.choice(LAYOUTS_ND)}}
    if rng.below(4) == 0:
        case["container"] = "tuple"
    if rng.below(5) == 0:
        case["extra_grids"] = [[float(i) for i in range(rng.randint(1, 4))] for _ in range(rng.randint(1, 2))]
        case["cls"] += "-extra-grids"
    if nrow >= 2 and rng.below(4) == 0:
        divs = [t for t in (2, 3, 4) if nrow % t == 0]
        if divs:
            case["stack"] = rng.choice(divs)
            case["cls"] += "-3d"
    return case


def finding_cases():
    """inputs on which the unchanged /repo fails (see design.d/C17.md, "Generator sweep"): reported under their own
    descriptors (key "repr"), listed in harness/findings.d/C17.json"""
    u = {"dt": "u1", "lay": "C"}
    return [
        # both arguments unsigned: values - sorted_array[...] wraps around below zero
        {"kind": "gc", "tol": False, "cls": "finding-unsigned-both", "finding_class": "unsigned-both",
         "grid": [2.0, 10.0], "values": [9.0, 3.0, 7.0, 6.0, 5.0, 0.0, 200.0], "grep": u, "vrep": u},
        {"kind": "gc", "tol": False, "cls": "finding-unsigned-both", "finding_class": "unsigned-both",
         "grid": [0.0, 100.0, 1000.0], "values": [99.0, 600.0, 51.0], "grep": {"dt": "u2", "lay": "C"}, "vrep": u | {"dt": "u2"}},
        {"kind": "dg", "tol": False, "cls": "finding-unsigned-both", "finding_class": "unsigned-both",
         "grids": [[0.0, 4.0, 16.0], [1.0, 9.0]], "raw": [[3.0, 8.0], [11.0, 2.0]], "greps": [u, u], "drep": u},
        # a single value (0-d array, numpy scalar, Python float): the index is a numpy scalar, idxs[mask] -= 1 raises
        {"kind": "gc", "tol": False, "cls": "finding-0-d-values", "finding_class": "0-d-values",
         "grid": [0.0, 1.0, 2.5], "values": [1.9], "vshape": [], "vrep": {"dt": "f8", "lay": "C"}},
        {"kind": "gc", "tol": False, "cls": "finding-0-d-values", "finding_class": "0-d-values",
         "grid": [0.0, 1.0, 2.5], "values": [0.25], "vshape": [], "vrep": {"dt": "f8", "lay": "npscalar"}},
        {"kind": "gc", "tol": False, "cls": "finding-0-d-values", "finding_class": "0-d-values",
         "grid": [0.0, 1.0, 2.5], "values": [7.0], "vshape": [], "vrep": {"dt": "f8", "lay": "pyscalar"}},
    ]


def shape_cases():
    """degenerate shapes (always run)"""
    return [
        {"kind": "gc", "tol": False, "cls": "fixed-shape", "grid": [0.0, 1.0], "values": [], "vshape": [0, 3],
         "vrep": {"dt": "f8", "lay": "C"}},
        {"kind": "gc", "tol": False, "cls": "fixed-shape", "grid": [0.0, 1.0], "values": [0.25], "vshape": [1, 1, 1],
         "vrep": {"dt": "f8", "lay": "C"}},
        {"kind": "dg", "tol": False, "cls": "fixed-shape", "grids": [], "raw": [[], [], []]},
        {"kind": "dg", "tol": False, "cls": "fixed-shape", "grids": [[0.0, 0.5, 1.0]] * 11,
         "raw": [[0.1 * k for k in range(11)], [0.75 - 0.125 * k for k in range(11)]]},
    ]


# ------------------------------------------------------------------ sequences of calls on shared objects
def gen_seq(rng):
    """several calls sharing the SAME grid array objects (and, for equal shapes, the same data array object refilled in
    place): other numbers of rows, other subsets of columns, grids of further parameters, a rejected call in between, the
    caller overwriting a returned array.  Every accepted call is judged as an ordinary case; in addition the arrays
    returned earlier must still hold the same numbers at the end ("stability")."""
    npool = rng.randint(2, 6)
    pool, prep = [], []
    for _ in range(npool):
        ints, s, _ = dyadic_grid2(rng, min(rng.choice(EDGE_SIZES), 40) if rng.below(2) else rng.randint(1, 12))
        pool.append((ints, s))
        prep.append({"dt": "f8", "lay": rng.choice(["C", "C", "ro", "stride", "offset"])})
    steps = []
    for _ in range(rng.randint(3, 7)):
        k = rng.below(10)
        if k < 6:
            ncol = rng.randint(1, npool)
            cols = list(range(ncol)) if rng.below(3) else [rng.below(npool) for _ in range(ncol)]
            nrow = rng.choice([1, 2, 2, 3, 5])
            prev = [st for st in steps if st["op"] == "dg"]
            if prev and rng.below(2):
                # same shape as an earlier call (so that the caller can refill the same data buffer), usually other grids
                nrow, ncol = len(prev[-1]["raw"]), len(prev[-1]["cols"])
                cols = list(prev[-1]["cols"]) if rng.below(3) == 0 else [rng.below(npool) for _ in range(ncol)]
            colv = []
            for c in cols:
                ints, s = pool[c]
                sc = 2.0 ** -(s + 2)
                colv.append([v * sc for v in dyadic_values(rng, ints, nrow)])
            st = {"op": "dg", "cols": cols, "raw": [[colv[j][r] for j in range(len(cols))] for r in range(nrow)],
                  "same_object": rng.below(3) != 0, "scribble": rng.below(4) == 0}
            if cols == list(range(ncol)) and ncol < npool and rng.below(3) == 0:
                st["extra"] = list(range(ncol, npool))
            steps.append(st)
        elif k < 8:
            c = rng.below(npool)
            ints, s = pool[c]
            sc = 2.0 ** -(s + 2)
            steps.append({"op": "gc", "g": c, "values": [v * sc for v in dyadic_values(rng, ints, rng.randint(1, 9))],
                          "scribble": rng.below(4) == 0})
        else:
            steps.append({"op": "fail", "how": rng.choice(["fewer-grids", "1-d", "empty-grid", "no-grids"])})
    if not any(st["op"] != "fail" for st in steps):
        steps.append({"op": "gc", "g": 0, "values": [0.0], "scribble": False})
    return {"kind": "seq", "tol": False, "cls": "sequence",
            "pool": [[4 * x * 2.0 ** -(s + 2) for x in ints] for ints, s in pool], "pool_rep": prep, "steps": steps}


def run_seq(case):
    """-> (unit cases, observations) of the accepted calls of a sequence"""
    from black_it.utils.base import digitize_data, get_closest

    pool, bases = [], []
    for g, rep in zip(case["pool"], case["pool_rep"]):
        a, b = mk_array(np.array(g, dtype=float), rep)
        pool.append(a)
        bases += b
    pool0 = [_snap(b) for b in bases]
    held, units, obss, data_objs, grid_lists, later = [], [], [], {}, {}, []
    rejected = 0
    for st in case["steps"]:
        if st["op"] == "fail":
            try:
                if st["how"] == "fewer-grids":
                    digitize_data(np.zeros((2, len(pool) + 1)), pool)
                elif st["how"] == "1-d":
                    digitize_data(np.zeros(3), pool)
                elif st["how"] == "no-grids":
                    digitize_data(np.zeros((2, 2)), [])
                else:
                    get_closest(np.array([], dtype=float), np.array([0.5, 1.5]))
            except Exception:  # noqa: BLE001
                rejected += 1
            continue
        obs = {"error": None, "in_sequence": True}
        try:
            if st["op"] == "gc":
                unit = {"kind": "gc", "tol": False, "cls": "sequence-step-gc", "grid": case["pool"][st["g"]], "values": st["values"]}
                g = pool[st["g"]]
                vs = np.array(st["values"], dtype=float)
                v0 = vs.copy()
                out = get_closest(g, vs)
                obs["out"] = [float(x) for x in np.asarray(out).ravel()]
                obs["shape"] = list(np.shape(out))
                obs["inputs_untouched"] = _same_bits(vs, v0)
                obs["twice"] = [float(x) for x in get_closest(g, np.array(out, dtype=float))]
                obs["grid_fixed"] = [float(x) for x in get_closest(g, g.copy())]
            else:
                cols = st["cols"]
                unit = {"kind": "dg", "tol": False, "cls": "sequence-step-dg", "grids": [case["pool"][c] for c in cols], "raw": st["raw"]}
                # one list object per choice of grids, passed again whenever that choice recurs (a search space keeps
                # its param_grid list)
                gkey = (tuple(cols), tuple(st.get("extra", [])))
                if gkey not in grid_lists:
                    grid_lists[gkey] = [pool[c] for c in cols] + [pool[c] for c in st.get("extra", [])]
                grids = grid_lists[gkey]
                a64 = np.array(st["raw"], dtype=float).reshape(len(st["raw"]), len(cols))
                if st.get("same_object") and a64.shape in data_objs:
                    data = data_objs[a64.shape]          # the caller's buffer, refilled in place
                    data[...] = a64
                    obs["same_data_object"] = True
                else:
                    data = a64.copy()
                    data_objs[a64.shape] = data
                d0 = data.copy()
                out = digitize_data(data, grids)
                obs["shape"] = list(np.shape(out))
                if np.shape(out) != a64.shape:
                    obs["error"] = f"shape: digitize_data returned shape {np.shape(out)} for input shape {a64.shape}"
                    obs["out"] = []
                else:
                    obs["out"] = [[float(x) for x in row] for row in np.asarray(out)]
                    obs["inputs_untouched"] = _same_bits(data, d0)
                    # the column-wise and idempotence calls are made after the last step, so that the calls of the
                    # sequence follow each other directly
                    later.append((obs, cols, a64, np.array(out, dtype=float), grids))
            if obs["error"] is None and isinstance(out, np.ndarray):
                if st.get("scribble") and out.flags.writeable:
                    out[...] = 31337.5                    # the caller owns what was returned
                else:
                    held.append((obs, out, out.copy()))
        except Exception as e:  # noqa: BLE001
            obs["error"] = f"{type(e).__name__}: {e}"
        units.append(unit)
        obss.append(obs)
    for obs, cols, a64, out64, grids in later:
        try:
            obs["by_column"] = [[float(x) for x in get_closest(pool[c], a64[:, j].copy())] for j, c in enumerate(cols)]
            obs["twice"] = [[float(x) for x in row] for row in digitize_data(out64, grids)]
        except Exception as e:  # noqa: BLE001
            obs["error"] = f"{type(e).__name__}: {e}"
    pool_ok = [_snap(b) for b in bases] == pool0
    for obs in obss:
        obs["rejected_calls_in_sequence"] = rejected
        if obs["error"] is None:
            obs["inputs_untouched"] = bool(obs["inputs_untouched"] and pool_ok)
    for obs, arr, snap in held:
        obs["stable"] = bool(_same_bits(arr, snap))
    return units, obss


# ------------------------------------------------------------------ concurrent calls (the functions are pure)
def gen_thr(rng):
    """four jobs of the same size (arrays of one shape in every thread), each repeated `reps` times concurrently"""
    jobs = []
    size = rng.choice([1000, 3000])      # above numpy's threshold (500 cells) for releasing the interpreter lock
    for _ in range(4):
        ints, s, _ = dyadic_grid(rng, rng.randint(2, 12))
        sc = 2.0 ** -(s + 2)
        g = [4 * x * sc for x in ints]
        if rng.below(4):
            jobs.append({"kind": "gc", "tol": False, "cls": "threads-gc", "grid": g,
                         "values": [v * sc for v in dyadic_values(rng, ints, size)]})
        else:
            ints2, s2, _ = dyadic_grid(rng, rng.randint(2, 12))
            sc2 = 2.0 ** -(s2 + 2)
            nrow = size
            c1, c2 = dyadic_values(rng, ints, nrow), dyadic_values(rng, ints2, nrow)
            jobs.append({"kind": "dg", "tol": False, "cls": "threads-dg", "grids": [g, [4 * x * sc2 for x in ints2]],
                         "raw": [[a * sc, b * sc2] for a, b in zip(c1, c2)]})
    return {"kind": "thr", "tol": False, "cls": "threads", "jobs": jobs, "reps": 300}


def run_thr(case):
    """every job is first run alone (ordinary observation), then all jobs are repeated concurrently, one thread each;
    every concurrent result must be bit-identical to the one obtained alone ("purity")"""
    import sys
    import threading

    from black_it.utils.base import digitize_data, get_closest

    # the unit handed to the oracle and to the Coq model is the head (48 values / rows) of each job: the long arrays
    # serve the concurrency (numpy releases the interpreter lock above 500 cells); the result of the long sequential
    # call is judged here by the same oracle_pair (membership, nearest), reported through "full_fails"
    head = 48
    units = [dict(u, values=u["values"][:head]) if u["kind"] == "gc" else dict(u, raw=u["raw"][:head]) for u in case["jobs"]]
    obss = [run_impl(u) for u in units]
    calls, refs = [], []
    for u, o in zip(case["jobs"], obss):
        try:
            if u["kind"] == "gc":
                g, v = np.array(u["grid"], dtype=float), np.array(u["values"], dtype=float)
                calls.append(lambda g=g, v=v: get_closest(g, v))
                ref = np.asarray(calls[-1](), dtype=float)
                fails = oracle_pair(u["grid"], u["values"], [float(x) for x in ref], False)
            else:
                grids = [np.array(g, dtype=float) for g in u["grids"]]
                raw = np.array(u["raw"], dtype=float).reshape(len(u["raw"]), len(grids))
                calls.append(lambda grids=grids, raw=raw: digitize_data(raw, grids))
                ref = np.asarray(calls[-1](), dtype=float)
                fails = [] if ref.shape == raw.shape else [f"shape: {ref.shape} != {raw.shape}"]
                for c in range(len(grids) if not fails else 0):
                    fails += oracle_pair(u["grids"][c], [float(x) for x in raw[:, c]], [float(x) for x in ref[:, c]], False)
            refs.append(ref.ravel())
            if fails:
                o["full_fails"] = fails[:5]
        except Exception as e:  # noqa: BLE001
            refs.append(None)
            o["full_fails"] = [f"exception: {type(e).__name__}: {e}"]
    bad = [0] * len(units)
    detail = [None] * len(units)
    gate = threading.Barrier(len(units))

    def work(k):
        gate.wait()
        for _ in range(case["reps"]):
            if refs[k] is None:
                return
            try:
                r = np.asarray(calls[k](), dtype=float).ravel()
                same = r.shape == refs[k].shape and bool(np.array_equal(r, refs[k]))
                if not same:
                    detail[k] = detail[k] or f"{int((r != refs[k]).sum()) if r.shape == refs[k].shape else 'all'} cells differ"
            except Exception as e:  # noqa: BLE001
                same = False
                detail[k] = detail[k] or f"{type(e).__name__}: {e}"
            if not same:
                bad[k] += 1

    old = sys.getswitchinterval()
    sys.setswitchinterval(1e-5)
    try:
        ths = [threading.Thread(target=work, args=(k,)) for k in range(len(units))]
        for t in ths:
            t.start()
        for t in ths:
            t.join()
    finally:
        sys.setswitchinterval(old)
    for k, o in enumerate(obss):
        o["pure"] = bad[k] == 0
        if bad[k]:
            o["pure_detail"] = f"{bad[k]} of {case['reps']} concurrent calls: {detail[k]}"
    return units, obss


def expand(case):
    """top-level case -> (unit cases judged by oracle and model, their observations)"""
    if case["kind"] == "seq":
        return run_seq(case)
    if case["kind"] == "thr":
        return run_thr(case)
    if case["kind"] == "codec":
        return [case], [{"error": None}]
    return [case], [run_impl(case)]


# ------------------------------------------------------------------ classification (coverage only)
def classify_pair(grid, values, stats):
    """Which branch of the snapping each value exercises (exact arithmetic); returns True if the pair is non-trivial:
    >= 2 distinct grid elements and at least one value strictly inside the range that is not a grid element."""
    G, V = scaled_ints(grid, values)
    gs = sorted(set(G))
    nontrivial = False
    for v in V:
        if v < gs[0]:
            stats["value:below-first"] += 1
        elif v > gs[-1]:
            stats["value:above-last(idx==len branch)"] += 1
        elif v in gs:
            stats["value:at-element"] += 1
        else:
            lo = max(x for x in gs if x < v)
            hi = min(x for x in gs if x > v)
            if v - lo == hi - v:
                stats["value:exact-midpoint"] += 1
            elif v - lo < hi - v:
                stats["value:inside-lower-closer"] += 1
            else:
                stats["value:inside-upper-closer"] += 1
            nontrivial = True
    n = len(G)
    stats["grid:1" if n == 1 else "grid:2-5" if n <= 5 else "grid:6-30" if n <= 30 else "grid:31-200"] += 1
    if len(gs) < n:
        stats["grid:with-duplicates"] += 1
    return nontrivial and len(gs) >= 2


def pairs_of(case, obs):
    """(grid, values, outputs) triples of a case."""
    if case["kind"] == "gc":
        return [(case["grid"], case["values"], (obs.get("out") or []))]
    out = obs.get("out") or []
    res = []
    for c, g in enumerate(case["grids"]):
        res.append((g, [row[c] for row in case["raw"]], [row[c] for row in out] if out else []))
    return res


# ------------------------------------------------------------------ entry
def codec_cases(rng, cases, n):
    """Self-check of the float64 -> Q injection done inside Coq (q_of_float) against float.as_integer_ratio()."""
    pool = [x for c in cases if c["kind"] == "gc" for x in c["grid"][:3] + c["values"][:3]]
    vals = [5e-324, -5e-324, 2.2250738585072014e-308, 1.7976931348623157e308, -0.0, 0.0, 1.0, -1.0, 0.1, -0.3, 2.0 ** 60,
            1 / 3, 1e-6, 123456789.125]
    vals += [rng.choice(pool) for _ in range(n)] if pool else []
    return [{"kind": "codec", "tol": False, "cls": "codec", "value": v} for v in vals]


def coq_eval_cases(chk, name, check_fn, lits, shard, depth=0):
    """chk.coq_mismatches, re-running (to depth three, in halves) the shards whose coqc process was killed by the
    operating system (return code -9: the out-of-memory killer of a loaded machine).  A killed process has produced no
    verdict; the same literals are evaluated again, nothing is excused: a shard that is killed every time stays an error."""
    import re
    import time

    bad, errors = chk.coq_mismatches(name, IMPORTS, check_fn, CASE_T, lits, shard=shard, preamble=PREAMBLE)
    if depth >= 3:
        return bad, errors
    pat = r"cases_\w+?_(\d+)\.v: rc=-9\b"
    killed = sorted({int(m.group(1)) for e in errors for m in [re.match(pat, e)] if m})
    errors = [e for e in errors if not re.match(pat, e)]
    bad = set(bad)
    for k in killed:
        idx = list(range(k * shard, min((k + 1) * shard, len(lits))))
        chk.notes.append(f"{name}: coqc killed by the OS (rc=-9) on shard {k}; its {len(idx)} cases are evaluated again")
        time.sleep(15 * (depth + 1))
        bad2, err2 = coq_eval_cases(chk, f"{name}k{k}", check_fn, [lits[i] for i in idx], max(1, shard // 2), depth + 1)
        bad |= {idx[j] for j in bad2}
        errors += err2
    return sorted(bad), errors


def run(chk, replay=None):
    chk.proof_gate()
    if replay:
        cases = [json.loads(open(replay).read())["case"]]
    else:
        cases = fixed_cases()
        corpus = common.CORPUS / "C17"
        for f in sorted(corpus.glob("*.json")):
            cases.append(json.loads(f.read_text())["case"])
        mult = 1 if chk.tier == "quick" else 20
        r = chk.rng
        cases += [gen_gc_dyadic(r) for _ in range(1500 * mult)]
        cases += [gen_gc_float(r) for _ in range(600 * mult)]
        cases += [gen_gc_int(r) for _ in range(150 * mult)]
        cases += [gen_dg(r, False) for _ in range(200 * mult)]
        cases += [gen_dg(r, True) for _ in range(100 * mult)]
        cases += [gen_dg_mixed_int(r) for _ in range(60 * mult)]
        cases += exhaustive_cases(with_duplicates=chk.tier != "quick")
        cases += codec_cases(r, cases, 150 * mult)
        # round 4 (appended after the earlier generators, whose random streams are unchanged)
        cases += near_max_cases() + shape_cases() + finding_cases()
        mult2 = 1 if chk.tier == "quick" else 8
        cases += [gen_gc_dyadic_x(r) for _ in range(500 * mult2)]
        cases += [gen_gc_repr(r) for _ in range(500 * mult2)]
        cases += [gen_dg_repr(r) for _ in range(200 * mult2)]
        cases += [gen_gc_zero(r) for _ in range(40 * mult2)]
        cases += [gen_seq(r) for _ in range(60 * mult2)]
        cases += [gen_thr(r) for _ in range(4 if chk.tier == "quick" else 12)]

    # sequences and thread scenarios expand into the calls they are made of; `parents` keeps the case to replay
    top, cases, observations, parents = cases, [], [], []
    for c in top:
        us, os_ = expand(c)
        cases += us
        observations += os_
        parents += [c] * len(us)
    lits = [emit(c, o) for c, o in zip(cases, observations)]
    shard = 200
    bad, errors = coq_eval_cases(chk, "C17", "check_case", lits, shard)
    bad = set(bad)
    # tolerant cases that really needed the slack (counted, never gating)
    tol_idx = [i for i, c in enumerate(cases) if c["tol"]]
    strict_bad, strict_err = coq_eval_cases(chk, "C17strict", "check_case_strict", [lits[i] for i in tol_idx], shard)
    slack_used = [tol_idx[k] for k in strict_bad if tol_idx[k] not in bad]
    # diagnostic, never gating: bit-level replica (the model instantiated with IEEE binary64 operations)
    # (run on the generic-float cases, where rounding matters; on dyadic cases it coincides with the exact model)
    fbad, ferr = chk.coq_mismatches("C17float", IMPORTS, "check_case_float", CASE_T, [lits[i] for i in tol_idx],
                                    shard=shard, preamble=PREAMBLE)
    fbad = [tol_idx[k] for k in fbad]
    if ferr:
        chk.notes.append(f"float replica diagnostic: {len(ferr)} coqc errors, first: {ferr[0][:300]}")

    stats = Counter()
    n_pairs = n_cells = 0
    keys, nontrivial = set(), set()
    for i, (c, o) in enumerate(zip(cases, observations)):
        stats["class:" + c["cls"]] += 1
        if c["kind"] == "codec":
            if i in bad:
                chk.violation({"kind": "correspondence", "name": "q_of_float"},
                              {"failed": "correspondence:q_of_float (Coq-side float64 -> Q injection differs from "
                                         "float.as_integer_ratio)", "case": c, "coq_case": lits[i]}, no_input=True)
            continue
        fails = oracle(c, o)
        for g, vs, _ in pairs_of(c, o):
            n_pairs += 1
            n_cells += len(vs)
            key = json.dumps([g, vs])
            keys.add(key)
            if classify_pair(g, vs, stats):
                nontrivial.add(key)
        if c["kind"] == "dg":
            stats[f"digitize:cols={len(c['grids'])}"] += 1
            stats["digitize:rows=0" if not c["raw"] else "digitize:rows>=1"] += 1
        for key, rp_ in [(k_, c[k_]) for k_ in ("grep", "vrep", "drep") if k_ in c] + [("grep", x) for x in c.get("greps", [])]:
            who = {"g": "grid", "v": "values", "d": "data"}[key[0]]
            stats[f"repr:{who}:dtype={rp_.get('dt', 'f8')}"] += 1
            stats[f"repr:{who}:layout={rp_.get('lay', 'C')}"] += 1
        if "grep" in c and "vrep" in c and (c["grep"].get("dt", "f8"), c["vrep"].get("dt", "f8")) != ("f8", "f8"):
            stats[f"repr:pair:values={c['vrep'].get('dt', 'f8')},grid={c['grep'].get('dt', 'f8')}"] += 1
        if "vshape" in c:
            stats[f"repr:values:ndim={len(c['vshape'])}"] += 1
        if c.get("container"):
            stats["repr:param_grid-is-a-tuple"] += 1
        if c.get("extra_grids"):
            stats["digitize:more-grids-than-columns"] += 1
        if o.get("same_data_object"):
            stats["sequence:data-object-refilled-in-place"] += 1
        if "stable" in o:
            stats["sequence:returned-array-rechecked-at-the-end"] += 1
        if "pure" in o:
            stats["threads:jobs"] += 1
        if fails:
            desc = {"kind": "oracle", "clause": fails[0].split(":")[0][:40], "function": c["kind"]}
            if c.get("finding_class"):
                desc["repr"] = c["finding_class"]        # inputs on which the unchanged code fails: own descriptor
            rp = {"failed": "oracle:" + fails[0], "all": fails[:20], "case": parents[i], "observed": o}
            if parents[i] is not c:
                rp["unit"] = c
            chk.violation(desc, rp)
        elif i in bad:
            chk.violation({"kind": "correspondence", "name": "get_closestQ" if c["kind"] == "gc" else "digitizeQ"},
                          {"failed": "correspondence:Snap (model and implementation disagree, e.g. on which of two "
                                     "equidistant neighbours is returned; the property oracle found no failing input)",
                           "case": parents[i], "unit": c, "observed": o, "coq_case": lits[i]}, no_input=True)
    for e in errors + strict_err:
        chk.violation({"kind": "correspondence", "name": "coqc"}, {"failed": "correspondence:coqc", "detail": e}, no_input=True)

    real = [i for i, c in enumerate(cases) if c["kind"] != "codec"]
    step = max(1, len(real) // 3)
    cov = {
        "evaluations": n_pairs,
        "cases": len(real),
        "cells": n_cells,
        "distinct": len(keys),
        "distinct_nontrivial": len(nontrivial),
        "rule": "one evaluation = one (grid, value vector) pair run through the real get_closest (directly or as a column "
                "of digitize_data) and through the Coq model; distinct = distinct (grid, values); non-trivial = grid with "
                ">= 2 distinct elements and >= 1 value strictly inside its range that is not an element (measured with "
                "exact integer arithmetic, independently of model and implementation)",
        "samples": [{"case": cases[i], "observed": observations[i].get("out")} for i in real[::step]
                    if len(json.dumps(cases[i])) < 4000][:4],
        "traces_validated_against_impl": len([i for i in real if i not in bad]),
        "model_impl_disagreements": len([i for i in real if i in bad]),
        "codec_checks": len(cases) - len(real),
        "tolerant_cases": len(tol_idx),
        "tolerant_cases_where_slack_was_needed": len(slack_used),
        "slack_examples": [{"case": cases[i], "observed": observations[i].get("out")} for i in slack_used[:2]
                           if len(json.dumps(cases[i])) < 4000],
        "diagnostic_float_replica_disagreements": len(fbad),
        "diagnostic_float_replica_examples": [cases[i] for i in fbad[:2] if len(json.dumps(cases[i])) < 4000],
        "distribution": dict(sorted(stats.items())),
        "exhaustive": False,
        "exhaustive_part": "every non-empty subset of {0..7} as a grid x every half-integer value in [-2, 9] (both tiers); "
                           "every non-decreasing sequence of length <= 4 over {0..7} with a repeated element (thorough)",
    }
    return chk.finish(
        cov,
        assumptions=[
            "grids are sorted, non-empty, finite float64; values finite (NaN and unsorted grids are outside the property; "
            "for them only membership is proved, for an arbitrary insertion index)",
            "np.searchsorted(side='left') on a sorted array returns the number of elements < v (theorem "
            "C17_searchsorted_left_spec shows the model's search has exactly that specification)",
            "float64 subtraction is correctly rounded, hence monotone: it can merge but never invert the order of the two "
            "neighbour distances (justifies the one-sided 2^-50 slack on generic floats; no slack on dyadic inputs)",
        ],
        trusted=["modelled, not verified: numpy searchsorted / fancy indexing / boolean-mask decrement / fabs",
                 "float64 -> Q injection computed inside Coq from PrimFloat hex literals (Prim2SF), cross-checked on every "
                 "run against float.as_integer_ratio (CODEC cases)"],
    )
