"""C17 - grid snapping maps every value to a nearest grid element.

Model: coq/Model/Snap.v   Theorems: coq/Properties/C17.v
Correspondence: the real get_closest / digitize_data (black_it/utils/base.py) are run on generated (grid, values) pairs
and 2-D arrays; the observed outputs are compared inside Coq with the exact-rational model
  * exactly on dyadic grids/values (every float subtraction the code performs is exact there), and
  * on generic floats with the one-sided slack of `cell_ok` (upper neighbour accepted when the exact distances differ
    by a factor < 1 + 2^-50; such cases are counted).
Direct oracle (independent of the model, exact integer arithmetic on the scaled floats): every output is an element of
its grid and no grid element is strictly closer; idempotence; column-wise action, shape, inputs untouched.
"""
from __future__ import annotations

import itertools
import json

import common
from collections import Counter

import numpy as np

from common import cbool, clist

IMPORTS = "From Coq Require Import List ZArith QArith Floats.\nFrom BlackIt Require Import Model.Snap."
PREAMBLE = "Open Scope float_scope."
CASE_T = "case"
TOL_NUM, TOL_DEN = (1 << 50) + 1, 1 << 50  # 1 + 2^-50, the same constant as Model/Snap.v tol_factor


# ------------------------------------------------------------------ implementation driver
def run_impl(case):
    """Runs the real code; floats come back as Python floats (exact)."""
    from black_it.utils.base import digitize_data, get_closest

    obs = {"error": None}
    try:
        if case["kind"] == "gc":
            g = np.array(case["grid"], dtype=float)
            if case.get("int_grids") and all(float(x).is_integer() and abs(x) < 2**40 for x in case["grid"]):
                g = np.array([int(x) for x in case["grid"]], dtype=np.int64)
            vs = np.array(case["values"], dtype=float)
            g0, v0 = g.copy(), vs.copy()
            out = get_closest(g, vs)
            obs["out"] = [float(x) for x in out]
            obs["shape"] = list(np.shape(out))
            obs["inputs_untouched"] = bool(_same_bits(g, g0) and _same_bits(vs, v0))
            again = get_closest(g, np.array(out, dtype=float))
            obs["twice"] = [float(x) for x in again]
            obs["grid_fixed"] = [float(x) for x in get_closest(g, g.copy())]
        else:
            def mk_grid(g):
                # a grid of whole numbers may legitimately be stored with an integer dtype
                if case.get("int_grids") and all(float(x).is_integer() and abs(x) < 2**40 for x in g):
                    return np.array([int(x) for x in g], dtype=np.int64)
                return np.array(g, dtype=float)

            grids = [mk_grid(g) for g in case["grids"]]
            ncol = len(case["grids"])
            if case.get("reuse_grid_objects"):
                # the SAME array objects held other interior points (same length, same end-points) during an earlier call
                real_vals = [g.copy() for g in grids]
                for g in grids:
                    if len(g) > 2 and g.dtype == np.float64:
                        g[1:-1] = np.linspace(g[0], g[-1], len(g))[1:-1]
                probe = np.array([[float(g[len(g) // 2]) for g in grids]], dtype=float)
                digitize_data(probe, grids)
                for g, r in zip(grids, real_vals):
                    g[:] = r
            raw = np.array(case["raw"], dtype=float).reshape(len(case["raw"]), ncol)
            T = case.get("stack")
            if T:
                # a 3-d array (rows, columns, T): column i of every slice is snapped with grid i ("all array shapes");
                # it is presented to the oracle and the model as the (rows*T, columns) matrix of its cells
                nrow3 = len(case["raw"]) // T
                raw_in = np.ascontiguousarray(raw.reshape(nrow3, T, ncol).transpose(0, 2, 1))
                back = lambda a: np.asarray(a).transpose(0, 2, 1).reshape(nrow3 * T, ncol)  # noqa: E731
            else:
                raw_in = raw
                back = lambda a: np.asarray(a)  # noqa: E731
            g0, r0 = [g.copy() for g in grids], raw_in.copy()
            out_in = digitize_data(raw_in, grids)
            if np.shape(out_in) != raw_in.shape:
                obs["shape"] = list(np.shape(out_in))
                obs["out"] = []
                obs["inputs_untouched"] = True
                obs["by_column"], obs["twice"] = [], []
                obs["error"] = f"shape: digitize_data returned shape {np.shape(out_in)} for input shape {raw_in.shape}"
                return obs
            out = back(out_in)
            obs["out"] = [[float(x) for x in row] for row in out]
            obs["shape"] = list(np.shape(out))
            obs["inputs_untouched"] = bool(_same_bits(raw_in, r0) and all(_same_bits(a, b) for a, b in zip(grids, g0)))
            obs["by_column"] = [[float(x) for x in get_closest(grids[c], raw[:, c].copy())] for c in range(ncol)]
            again = digitize_data(np.array(out_in, dtype=float), grids)
            obs["twice"] = [[float(x) for x in row] for row in back(again)]
    except Exception as e:  # noqa: BLE001
        obs["error"] = f"{type(e).__name__}: {e}"
    return obs


def _same_bits(a, b):
    return a.shape == b.shape and a.tobytes() == b.tobytes()


# ------------------------------------------------------------------ exact arithmetic helpers (oracle side)
def scaled_ints(*float_lists):
    """All floats as integers over one common power-of-two denominator (exact)."""
    ratios = [[float(x).as_integer_ratio() for x in lst] for lst in float_lists]
    den = max([d for lst in ratios for _, d in lst] or [1])
    return [[n * (den // d) for n, d in lst] for lst in ratios]


def oracle_pair(grid, values, outs, tol):
    """The property for one (grid, values) pair: membership and minimal distance.  Returns failure strings."""
    fails = []
    if len(outs) != len(values):
        return [f"shape: {len(outs)} outputs for {len(values)} values"]
    G, V, O = scaled_ints(grid, values, outs)
    gset = set(G)
    for k, (v, o) in enumerate(zip(V, O)):
        if o not in gset:
            fails.append(f"membership: value #{k}={values[k]!r} -> {outs[k]!r} is not an element of the grid")
            continue
        d = abs(v - o)
        best = min(abs(v - x) for x in G)
        worse = d > best if not tol else d * TOL_DEN > best * TOL_NUM
        if worse:
            x = grid[min(range(len(G)), key=lambda j: abs(v - G[j]))]
            fails.append(f"nearest: value #{k}={values[k]!r} -> {outs[k]!r} but grid element {x!r} is strictly closer")
    return fails


def oracle(case, obs):
    if obs["error"]:
        return [f"exception: {obs['error']}"]
    fails = []
    tol = case["tol"]
    if case["kind"] == "gc":
        if obs["shape"] != [len(case["values"])]:
            fails.append(f"shape: {obs['shape']} != {[len(case['values'])]}")
        fails += oracle_pair(case["grid"], case["values"], obs["out"], tol)
        if not _eq_floats(obs["twice"], obs["out"]):
            fails.append("idempotence: snapping the snapped values changes them")
        if not _eq_floats(obs["grid_fixed"], case["grid"]):
            fails.append("idempotence: a grid element is not mapped to itself")
    else:
        nrow, ncol = len(case["raw"]), len(case["grids"])
        if obs["shape"] != [nrow, ncol]:
            return [f"shape: {obs['shape']} != {[nrow, ncol]}"]
        for c in range(ncol):
            col_in = [row[c] for row in case["raw"]]
            col_out = [row[c] for row in obs["out"]]
            fails += [f.replace(": ", f": column {c}: ", 1) for f in oracle_pair(case["grids"][c], col_in, col_out, tol)]
            if not _eq_floats(col_out, obs["by_column"][c]):
                fails.append(f"columnwise: column {c} of digitize_data differs from get_closest(grid[{c}], data[:, {c}])")
        if [x for r in obs["twice"] for x in r] != [x for r in obs["out"] for x in r]:
            fails.append("idempotence: digitising the digitised array changes it")
    if not obs["inputs_untouched"]:
        fails.append("inputs: an argument array was modified")
    return fails


def _eq_floats(a, b):
    return len(a) == len(b) and all(x == y for x, y in zip(a, b))


# ------------------------------------------------------------------ Coq literals
def fl(x):
    """float64 -> PrimFloat literal (hexadecimal, exact; parsed natively by Coq)."""
    x = float(x)
    if x != x:
        return "nan"
    if x in (float("inf"), float("-inf")):
        return "infinity" if x > 0 else "neg_infinity"
    h = x.hex()
    return f"({h})" if h.startswith("-") else h


def fll(xs):
    return clist([fl(x) for x in xs])


def emit(case, obs):
    if case["kind"] == "codec":
        n, d = float(case["value"]).as_integer_ratio()
        return f"CODEC {fl(case['value'])} ({n})%Z {d}%positive"
    out = obs.get("out") if not obs["error"] else []
    if case["kind"] == "gc":
        return f"GC {cbool(case['tol'])} {fll(case['grid'])} {fll(case['values'])} {fll(out)}"
    return (f"DG {cbool(case['tol'])} {clist([fll(g) for g in case['grids']])} "
            f"{clist([fll(r) for r in case['raw']])} {clist([fll(r) for r in out])}")


# ------------------------------------------------------------------ generators
def grid_size(rng):
    k = rng.below(100)
    if k < 6:
        return 1
    if k < 36:
        return rng.randint(2, 5)
    if k < 76:
        return rng.randint(6, 30)
    return rng.randint(31, 200)


def dyadic_grid(rng, n):
    """Sorted integers (in units of 2^-s) -> (ints, s, flavour); |ints| < 2^32."""
    s = rng.choice([0, 0, 1, 2, 3, 5, 8, 10, 16, 20])
    start = rng.randint(-(1 << rng.randint(0, 30)), 1 << rng.randint(0, 30))
    flavour = rng.choice(["uniform", "uniform", "nonuniform", "nonuniform", "dups", "geometric"])
    if n == 1:
        flavour = "single"
    ints = [start]
    if flavour == "uniform":
        step = rng.randint(1, 1 << rng.randint(0, 12))
        ints = [start + i * step for i in range(n)]
    elif flavour == "geometric":
        gap = 1
        for _ in range(n - 1):
            ints.append(ints[-1] + gap)
            gap = min(gap * 2, 1 << 22)
    else:
        mg = 1 << rng.randint(0, 14)
        for _ in range(n - 1):
            if flavour == "dups" and rng.below(3) == 0:
                ints.append(ints[-1])
            else:
                ints.append(ints[-1] + rng.randint(1, mg))
    return ints, s, flavour


def dyadic_values(rng, ints, nv):
    """Values in units of 2^-(s+2) (grid ints are multiplied by 4): elements, exact mid-points, next to mid-points,
    inside, just outside, far outside."""
    g4 = [4 * x for x in ints]
    lo, hi = g4[0], g4[-1]
    vals = []
    for _ in range(nv):
        k = rng.below(16)
        i = rng.below(len(g4))
        j = min(i + 1, len(g4) - 1)
        if k < 3:
            v = g4[i]
        elif k < 6:
            v = (g4[i] + g4[j]) // 2  # exact mid-point (grid ints *4 are even sums)
        elif k < 8:
            v = (g4[i] + g4[j]) // 2 + rng.choice([-1, 1])
        elif k < 11:
            v = rng.randint(lo, hi) if hi > lo else lo
        elif k == 11:
            v = lo - rng.randint(0, 1 << rng.randint(0, 12))
        elif k == 12:
            v = hi + rng.randint(0, 1 << rng.randint(0, 12))
        elif k == 13:
            v = lo - (1 << rng.randint(20, 44))
        elif k == 14:
            v = hi + (1 << rng.randint(20, 44))
        else:
            v = rng.choice([lo, hi, g4[len(g4) // 2]])
        vals.append(v)
    return vals


def gen_gc_dyadic(rng):
    n = grid_size(rng)
    ints, s, flavour = dyadic_grid(rng, n)
    nv = rng.randint(1, 24)
    vals = dyadic_values(rng, ints, nv)
    sc = 2.0 ** -(s + 2)
    return {"kind": "gc", "tol": False, "cls": "dyadic-" + flavour, "grid": [4 * x * sc for x in ints],
            "values": [v * sc for v in vals]}


def gen_gc_int(rng):
    """a grid of whole numbers stored with an INTEGER dtype, real (fractional) values: exact in float arithmetic"""
    n = rng.randint(1, 12)
    start = rng.randint(-8, 8)
    grid, x = [], start
    for _ in range(n):
        grid.append(float(x))
        x += rng.randint(1, 4)
    vals = [grid[0] - 3.25, grid[-1] + 2.5] + [rng.randint(int(grid[0]) * 4 - 6, int(grid[-1]) * 4 + 6) / 4.0 for _ in range(rng.randint(2, 16))]
    return {"kind": "gc", "tol": False, "cls": "int-dtype-grid", "grid": grid, "values": vals, "int_grids": True}


def float_grid(rng, n):
    scale = 10.0 ** rng.randint(-6, 6)
    flavour = rng.choice(["arange", "linspace", "random", "random", "dups"])
    if n == 1:
        return [rng.uniform(-scale, scale)], "single"
    if flavour == "arange":
        lo = rng.choice([0.0, -scale, rng.uniform(-scale, scale)])
        step = rng.choice([0.1, 0.01, 0.001, 0.25, 0.3, 1.0 / 3.0, 0.7]) * scale / 10
        g = [float(x) for x in lo + np.arange(n) * step]
    elif flavour == "linspace":
        lo = rng.uniform(-scale, scale)
        g = [float(x) for x in np.linspace(lo, lo + rng.uniform(0.1, 2.0) * scale, n)]
    else:
        g = sorted(rng.uniform(-scale, scale) for _ in range(n))
        if flavour == "dups":
            for i in range(1, n):
                if rng.below(3) == 0:
                    g[i] = g[i - 1]
            g = sorted(g)
    return g, flavour


def float_values(rng, g, nv):
    lo, hi = g[0], g[-1]
    span = (hi - lo) or abs(lo) or 1.0
    vals = []
    for _ in range(nv):
        k = rng.below(12)
        i = rng.below(len(g))
        j = min(i + 1, len(g) - 1)
        if k < 2:
            v = g[i]
        elif k < 5:
            v = (g[i] + g[j]) / 2  # float mid-point: an exact tie or off by a rounding
        elif k < 6:
            v = float(np.nextafter((g[i] + g[j]) / 2, rng.choice([-np.inf, np.inf])))
        elif k < 9:
            v = rng.uniform(lo, hi)
        elif k == 9:
            v = lo - rng.random() * span
        elif k == 10:
            v = hi + rng.random() * span
        else:
            v = rng.choice([-1.0, 1.0]) * 10.0 ** rng.randint(3, 12) * (1 + rng.random())
        vals.append(float(v))
    return vals


def gen_gc_float(rng):
    g, flavour = float_grid(rng, grid_size(rng))
    return {"kind": "gc", "tol": True, "cls": "float-" + flavour, "grid": g, "values": float_values(rng, g, rng.randint(1, 24))}


def gen_dg(rng, tol):
    ncol = rng.randint(1, 6)
    nrow = rng.choice([0, 1, 1, 2, 3, 4, 6, 8])
    grids, cols = [], []
    for _ in range(ncol):
        n = min(grid_size(rng), 60)
        if tol:
            g, _ = float_grid(rng, n)
            col = float_values(rng, g, nrow)
        else:
            ints, s, _ = dyadic_grid(rng, n)
            sc = 2.0 ** -(s + 2)
            g = [4 * x * sc for x in ints]
            col = [v * sc for v in dyadic_values(rng, ints, nrow)]
        grids.append(g)
        cols.append(col)
    raw = [[cols[c][r] for c in range(ncol)] for r in range(nrow)]
    case = {"kind": "dg", "tol": tol, "cls": "digitize-" + ("float" if tol else "dyadic"), "grids": grids, "raw": raw}
    if rng.below(4) == 0:
        case["reuse_grid_objects"] = True
        case["cls"] += "-reused"
    if nrow >= 2 and rng.below(3) == 0:
        divs = [t for t in (2, 3, 4) if nrow % t == 0]
        if divs:
            case["stack"] = rng.choice(divs)          # the same cells arranged as a 3-d array (nrow/T, ncol, T)
            case["cls"] += "-3d"
    return case


def gen_dg_mixed_int(rng):
    """columns whose grids are whole numbers stored with an integer dtype next to columns with fractional grids (a count
    parameter next to a rate): every column is snapped onto its own grid, whatever the dtype of its neighbours' grids"""
    ncol = rng.randint(2, 4)
    nrow = rng.choice([1, 2, 3, 5])
    int_cols = {0} if rng.below(3) else {rng.below(ncol)}
    if rng.below(3) == 0:
        int_cols.add(rng.below(ncol))
    grids, cols = [], []
    for c in range(ncol):
        if c in int_cols:
            n, x, g = rng.randint(1, 8), rng.randint(-6, 6), []
            for _ in range(n):
                g.append(float(x))
                x += rng.randint(1, 3)
            col = [rng.randint(int(g[0]) * 4 - 6, int(g[-1]) * 4 + 6) / 4.0 for _ in range(nrow)]
        else:
            ints, sh, _ = dyadic_grid(rng, min(grid_size(rng), 20))
            sc = 2.0 ** -(sh + 2)
            g = [4 * x * sc for x in ints]
            col = [v * sc for v in dyadic_values(rng, ints, nrow)]
        grids.append(g)
        cols.append(col)
    raw = [[cols[c][r] for c in range(ncol)] for r in range(nrow)]
    return {"kind": "dg", "tol": False, "cls": "digitize-mixed-int-float-grids", "grids": grids, "raw": raw, "int_grids": True}


def exhaustive_cases(with_duplicates):
    """All sorted grids made of elements of {0..7} (every non-empty subset; optionally also every non-decreasing
    sequence of length <= 4), values = all halves from -2 to 9."""
    values = [k / 2 for k in range(-4, 19)]
    cases = []
    for m in range(1, 256):
        g = [float(i) for i in range(8) if m >> i & 1]
        cases.append({"kind": "gc", "tol": False, "cls": "exhaustive-subset", "grid": g, "values": values})
    if with_duplicates:
        for n in range(2, 5):
            for comb in itertools.combinations_with_replacement(range(8), n):
                if len(set(comb)) < n:
                    cases.append({"kind": "gc", "tol": False, "cls": "exhaustive-multiset",
                                  "grid": [float(i) for i in comb], "values": values})
    return cases


def fixed_cases():
    """Hand-placed boundary cases (always run)."""
    return [
        {"kind": "gc", "tol": False, "cls": "fixed", "grid": [0.0, 0.5, 1.0], "values": [0.75, 0.25, -5.0, 7.0, 0.0, 0.5, 1.0]},
        {"kind": "gc", "tol": False, "cls": "fixed", "grid": [2.5], "values": [-1.0, 2.5, 9.0]},
        {"kind": "gc", "tol": False, "cls": "fixed", "grid": [1.0, 1.0, 1.0], "values": [0.0, 1.0, 2.0]},
        {"kind": "gc", "tol": False, "cls": "fixed", "grid": [-3.0, -1.0], "values": [-2.0, -3.0, -1.0, -2.25, -1.75, 0.0, -4.0]},
        {"kind": "gc", "tol": False, "cls": "fixed", "grid": [0.0, 1.0], "values": []},
        {"kind": "dg", "tol": False, "cls": "fixed", "grids": [[0.0, 1.0, 2.0, 3.0], [0.0, 10.0, 20.0, 30.0], [0.0, 0.25, 0.5]],
         "raw": [[0.1, 1.0, 0.125], [2.5, 15.0, 0.3], [9.0, -4.0, 0.375]]},
        {"kind": "dg", "tol": True, "cls": "fixed", "grids": [[float(x) for x in np.arange(0, 1.0000001, 0.1)], [-1.0, 1.0]],
         "raw": [[0.05, 0.0], [0.15000000000000002, 0.5], [0.95, -0.5], [0.35, 1e9]]},
    ]


# ------------------------------------------------------------------ classification (coverage only)
def classify_pair(grid, values, stats):
    """Which branch of the snapping each value exercises (exact arithmetic); returns True if the pair is non-trivial:
    >= 2 distinct grid elements and at least one value strictly inside the range that is not a grid element."""
    G, V = scaled_ints(grid, values)
    gs = sorted(set(G))
    nontrivial = False
    for v in V:
        if v < gs[0]:
            stats["value:below-first"] += 1
        elif v > gs[-1]:
            stats["value:above-last(idx==len branch)"] += 1
        elif v in gs:
            stats["value:at-element"] += 1
        else:
            lo = max(x for x in gs if x < v)
            hi = min(x for x in gs if x > v)
            if v - lo == hi - v:
                stats["value:exact-midpoint"] += 1
            elif v - lo < hi - v:
                stats["value:inside-lower-closer"] += 1
            else:
                stats["value:inside-upper-closer"] += 1
            nontrivial = True
    n = len(G)
    stats["grid:1" if n == 1 else "grid:2-5" if n <= 5 else "grid:6-30" if n <= 30 else "grid:31-200"] += 1
    if len(gs) < n:
        stats["grid:with-duplicates"] += 1
    return nontrivial and len(gs) >= 2


def pairs_of(case, obs):
    """(grid, values, outputs) triples of a case."""
    if case["kind"] == "gc":
        return [(case["grid"], case["values"], (obs.get("out") or []))]
    out = obs.get("out") or []
    res = []
    for c, g in enumerate(case["grids"]):
        res.append((g, [row[c] for row in case["raw"]], [row[c] for row in out] if out else []))
    return res


# ------------------------------------------------------------------ entry
def codec_cases(rng, cases, n):
    """Self-check of the float64 -> Q injection done inside Coq (q_of_float) against float.as_integer_ratio()."""
    pool = [x for c in cases if c["kind"] == "gc" for x in c["grid"][:3] + c["values"][:3]]
    vals = [5e-324, -5e-324, 2.2250738585072014e-308, 1.7976931348623157e308, -0.0, 0.0, 1.0, -1.0, 0.1, -0.3, 2.0 ** 60,
            1 / 3, 1e-6, 123456789.125]
    vals += [rng.choice(pool) for _ in range(n)] if pool else []
    return [{"kind": "codec", "tol": False, "cls": "codec", "value": v} for v in vals]


def run(chk, replay=None):
    chk.proof_gate()
    if replay:
        cases = [json.loads(open(replay).read())["case"]]
    else:
        cases = fixed_cases()
        corpus = common.CORPUS / "C17"
        for f in sorted(corpus.glob("*.json")):
            cases.append(json.loads(f.read_text())["case"])
        mult = 1 if chk.tier == "quick" else 20
        r = chk.rng
        cases += [gen_gc_dyadic(r) for _ in range(1500 * mult)]
        cases += [gen_gc_float(r) for _ in range(600 * mult)]
        cases += [gen_gc_int(r) for _ in range(150 * mult)]
        cases += [gen_dg(r, False) for _ in range(200 * mult)]
        cases += [gen_dg(r, True) for _ in range(100 * mult)]
        cases += [gen_dg_mixed_int(r) for _ in range(60 * mult)]
        cases += exhaustive_cases(with_duplicates=chk.tier != "quick")
        cases += codec_cases(r, cases, 150 * mult)

    observations = [run_impl(c) if c["kind"] != "codec" else {"error": None} for c in cases]
    lits = [emit(c, o) for c, o in zip(cases, observations)]
    shard = 200
    bad, errors = chk.coq_mismatches("C17", IMPORTS, "check_case", CASE_T, lits, shard=shard, preamble=PREAMBLE)
    bad = set(bad)
    # tolerant cases that really needed the slack (counted, never gating)
    tol_idx = [i for i, c in enumerate(cases) if c["tol"]]
    strict_bad, strict_err = chk.coq_mismatches("C17strict", IMPORTS, "check_case_strict", CASE_T,
                                                [lits[i] for i in tol_idx], shard=shard, preamble=PREAMBLE)
    slack_used = [tol_idx[k] for k in strict_bad if tol_idx[k] not in bad]
    # diagnostic, never gating: bit-level replica (the model instantiated with IEEE binary64 operations)
    # (run on the generic-float cases, where rounding matters; on dyadic cases it coincides with the exact model)
    fbad, ferr = chk.coq_mismatches("C17float", IMPORTS, "check_case_float", CASE_T, [lits[i] for i in tol_idx],
                                    shard=shard, preamble=PREAMBLE)
    fbad = [tol_idx[k] for k in fbad]
    if ferr:
        chk.notes.append(f"float replica diagnostic: {len(ferr)} coqc errors, first: {ferr[0][:300]}")

    stats = Counter()
    n_pairs = n_cells = 0
    keys, nontrivial = set(), set()
    for i, (c, o) in enumerate(zip(cases, observations)):
        stats["class:" + c["cls"]] += 1
        if c["kind"] == "codec":
            if i in bad:
                chk.violation({"kind": "correspondence", "name": "q_of_float"},
                              {"failed": "correspondence:q_of_float (Coq-side float64 -> Q injection differs from "
                                         "float.as_integer_ratio)", "case": c, "coq_case": lits[i]}, no_input=True)
            continue
        fails = oracle(c, o)
        for g, vs, _ in pairs_of(c, o):
            n_pairs += 1
            n_cells += len(vs)
            key = json.dumps([g, vs])
            keys.add(key)
            if classify_pair(g, vs, stats):
                nontrivial.add(key)
        if c["kind"] == "dg":
            stats[f"digitize:cols={len(c['grids'])}"] += 1
            stats["digitize:rows=0" if not c["raw"] else "digitize:rows>=1"] += 1
        if fails:
            chk.violation({"kind": "oracle", "clause": fails[0].split(":")[0][:40], "function": c["kind"]},
                          {"failed": "oracle:" + fails[0], "all": fails[:20], "case": c, "observed": o})
        elif i in bad:
            chk.violation({"kind": "correspondence", "name": "get_closestQ" if c["kind"] == "gc" else "digitizeQ"},
                          {"failed": "correspondence:Snap (model and implementation disagree, e.g. on which of two "
                                     "equidistant neighbours is returned; the property oracle found no failing input)",
                           "case": c, "observed": o, "coq_case": lits[i]}, no_input=True)
    for e in errors + strict_err:
        chk.violation({"kind": "correspondence", "name": "coqc"}, {"failed": "correspondence:coqc", "detail": e}, no_input=True)

    real = [i for i, c in enumerate(cases) if c["kind"] != "codec"]
    step = max(1, len(real) // 3)
    cov = {
        "evaluations": n_pairs,
        "cases": len(real),
        "cells": n_cells,
        "distinct": len(keys),
        "distinct_nontrivial": len(nontrivial),
        "rule": "one evaluation = one (grid, value vector) pair run through the real get_closest (directly or as a column "
                "of digitize_data) and through the Coq model; distinct = distinct (grid, values); non-trivial = grid with "
                ">= 2 distinct elements and >= 1 value strictly inside its range that is not an element (measured with "
                "exact integer arithmetic, independently of model and implementation)",
        "samples": [{"case": cases[i], "observed": observations[i].get("out")} for i in real[::step]
                    if len(json.dumps(cases[i])) < 4000][:4],
        "traces_validated_against_impl": len([i for i in real if i not in bad]),
        "model_impl_disagreements": len([i for i in real if i in bad]),
        "codec_checks": len(cases) - len(real),
        "tolerant_cases": len(tol_idx),
        "tolerant_cases_where_slack_was_needed": len(slack_used),
        "slack_examples": [{"case": cases[i], "observed": observations[i].get("out")} for i in slack_used[:2]
                           if len(json.dumps(cases[i])) < 4000],
        "diagnostic_float_replica_disagreements": len(fbad),
        "diagnostic_float_replica_examples": [cases[i] for i in fbad[:2] if len(json.dumps(cases[i])) < 4000],
        "distribution": dict(sorted(stats.items())),
        "exhaustive": False,
        "exhaustive_part": "every non-empty subset of {0..7} as a grid x every half-integer value in [-2, 9] (both tiers); "
                           "every non-decreasing sequence of length <= 4 over {0..7} with a repeated element (thorough)",
    }
    return chk.finish(
        cov,
        assumptions=[
            "grids are sorted, non-empty, finite float64; values finite (NaN and unsorted grids are outside the property; "
            "for them only membership is proved, for an arbitrary insertion index)",
            "np.searchsorted(side='left') on a sorted array returns the number of elements < v (theorem "
            "C17_searchsorted_left_spec shows the model's search has exactly that specification)",
            "float64 subtraction is correctly rounded, hence monotone: it can merge but never invert the order of the two "
            "neighbour distances (justifies the one-sided 2^-50 slack on generic floats; no slack on dyadic inputs)",
        ],
        trusted=["modelled, not verified: numpy searchsorted / fancy indexing / boolean-mask decrement / fabs",
                 "float64 -> Q injection computed inside Coq from PrimFloat hex literals (Prim2SF), cross-checked on every "
                 "run against float.as_integer_ratio (CODEC cases)"],
    )
