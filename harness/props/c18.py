"""C18 - sampler labels in a history can always be mapped back to sampler names (shared calibrator model)."""
from __future__ import annotations

import json

from props import calib_common as cc
from props import calib_family as cf


def gen_cases(chk):
    rng = chk.rng
    quick = chk.tier == "quick"
    cases = []
    for i in range(240 if quick else 2500):
        c = cc.gen_case(rng, len(cases), max_ops=8 if quick else 12, max_samplers=4,
                        allow=("calibrate", "set_samplers", "set_scheduler", "checkpoint", "restore"), prec_prob=8, nmax=2)
        c["want_plot"] = True
        cases.append(c)
    return cases


def nontrivial(c, o):
    kinds = {op[0] for op in c["ops"]}
    return bool(kinds & {"set_samplers", "set_scheduler"}) and max((v["batchidx"] for v in o["views"]), default=0) >= 2


def run(chk, replay=None):
    chk.proof_gate()
    cases = [json.loads(open(replay).read())["case"]] if replay else gen_cases(chk)
    obs, bad, stats, keys, nontriv = cf.run_traces(chk, cases, cf.oracle_c18, nontrivial, label="C18")
    cov = {
        "evaluations": len(cases), "distinct": len(keys), "distinct_nontrivial": len(nontriv),
        "rule": "sequences of calibrate / set_samplers / set_scheduler / create_checkpoint / restore over token sampler classes "
                "(repeated classes included); after every operation the live id table, the labels of all rows and the table the "
                "plotting helper recovers from the checkpoint are compared; non-trivial = a line-up change and at least 2 batches",
        "samples": cf.sample_cases(cases, obs),
        "traces_validated_against_impl": len(cases) - len(bad), "model_impl_disagreements": len(bad),
        "distribution": dict(sorted(stats.items())),
    }
    return chk.finish(cov, assumptions=cf.ASSUME, trusted=cf.TRUSTED)
