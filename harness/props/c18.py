"""C18 - sampler labels in a history can always be mapped back to sampler names (shared calibrator model)."""
from __future__ import annotations

import json

from props import c09 as cx          # the extended trace runner of the round-4 sweep lives in props/c09.py
from props import calib_common as cc
from props import calib_family as cf


def gen_cases(chk):
    rng = chk.rng
    quick = chk.tier == "quick"
    cases = []
    for i in range(240 if quick else 2500):
        c = cc.gen_case(rng, len(cases), max_ops=8 if quick else 12, max_samplers=4,
                        allow=("calibrate", "set_samplers", "set_scheduler", "checkpoint", "restore"), prec_prob=8, nmax=2)
        c["want_plot"] = True
        cases.append(c)
    return cases


def nontrivial(c, o):
    kinds = {op[0] for op in c["ops"]}
    return bool(kinds & {"set_samplers", "set_scheduler"}) and max((v["batchidx"] for v in o["views"]), default=0) >= 2



# ------------------------------------------------------------------------------------------------ round 4 (generator sweep)
MANY = [0, 1, 2, 3, 4, 5, 6, 7, 8, 10, 11, 12, 13, 14, 15]      # token classes TokA..TokI, TokK..TokP (9 = HaltonSampler)


def class_name(cls):
    return "HaltonSampler" if cls == cc.HALTON_CLASS else "Tok" + cc.TOK_LETTERS[cls]


def reclass(rng, group, pool):
    for s in group:
        s["cls"] = rng.choice(pool)


def gen_xcases(chk):
    """Round 4: more than ten sampler classes (ids >= 10, names that sort differently from their ids), the real HaltonSampler
    class among the token classes, line-ups as tuples / lists changed afterwards, injected faults, a saving folder that holds
    ANOTHER run with another table, the folder named as str / Path / with a trailing slash, the RL scheduler, batch sizes
    reassigned; every case also asks the plotting helper for the NAMES of the ids found in calibration_results.csv."""
    rng = chk.rng
    quick = chk.tier == "quick"
    cases = []
    for i in range(200 if quick else 1000):
        kind = i % 6
        rl = kind == 4
        c = cc.gen_case(rng, len(cases), max_ops=7 if quick else 11, max_samplers=4,
                        allow=("calibrate", "set_samplers", "set_scheduler", "checkpoint", "restore"), prec_prob=8, nmax=2, rl=rl)
        c["x"] = 1
        c["want_plot"] = c["want_names"] = True
        groups = [c["samplers"] or c["rl"]["samplers"]] + [op[1] for op in c["ops"] if op[0] in ("set_samplers", "set_scheduler")]
        if kind == 0:
            # a first line-up with many classes, so that ids reach two digits; later line-ups add the rest
            pool = list(MANY)
            rng.shuffle(pool)
            first = pool[: rng.randint(9, 14)]
            for _ in range(rng.below(4)):
                first.insert(rng.below(len(first) + 1), rng.choice(first))     # repeated classes included
            c["samplers"] = [{"cls": k, "uid": 100 + j, "bs": 1, "seed": None} for j, k in enumerate(first)]
            for g in groups[1:]:
                reclass(rng, g, MANY)
            c["cfg"]["saving"] = True
            c["cfg"]["E"] = 1
        elif kind == 3:
            for g in groups:
                reclass(rng, g, [0, 1, 2, cc.HALTON_CLASS, cc.HALTON_CLASS])
        elif kind == 1:
            c["cfg"]["saving"] = True
            pre = cc.gen_samplers(rng, rng.randint(1, 4), 140, 3)
            reclass(rng, pre, [5, 4, 3, 2, 12])
            c["prefill"] = {"samplers": pre, "n": rng.randint(1, 4), "E": rng.randint(1, 3), "seed": rng.below(2**31),
                            "palette": [1.0, 2.0, 3.0], "salt": rng.below(100)}
            c["ops"] = [["calibrate", rng.randint(0, 2)]] + c["ops"]
            c["folder_repr"] = rng.choice(["str", "path", "slash"])
        elif kind == 2:
            c["lineup_repr"] = "tuple" if rng.below(2) else "list"
            c["mutate_lineup"] = c["lineup_repr"] == "list"
            k = rng.choice(["model", "loss", "sampler"])
            c["fault"] = ["sampler", rng.below(len(c["samplers"])), rng.below(3)] if k == "sampler" else [k, rng.below(8)]
            c["ops"] += [["calibrate", 2]]
        elif kind == 4:
            c["palette"] = [abs(x) + 0.125 for x in c["palette"]]
            uids = [s["uid"] for s in c["rl"]["samplers"]]
            c["ops"] = [x for op in c["ops"] for x in ([["set_bs", rng.choice(uids), rng.randint(1, 3)]] if rng.below(3) == 0 else []) + [op]]
            if rng.below(2):
                c["rl"]["agent"] = {"alpha": 0.3, "eps": 0.4, "init": 0.0}
        else:
            # checkpoint, restore, reconfigure with a class not seen before, an empty calibrate(0), restore again, go on
            c["cfg"]["saving"] = bool(rng.below(2))
            extra = []
            for r in range(rng.randint(1, 2)):
                new = cc.gen_samplers(rng, rng.randint(1, 3), 120 + 4 * r, 3)
                reclass(rng, new, [3, 4, 5, 6, 7])
                extra += [["checkpoint"], ["restore"], [rng.choice(["set_samplers", "set_scheduler"]), new], ["calibrate", 0],
                          ["checkpoint"], ["restore"], ["calibrate", rng.randint(1, 2)]]
            c["ops"] = c["ops"][:3] + extra
            c["folder_repr"] = rng.choice(["str", "path", "slash"])
        cases.append(c)
    return cases


def oracle_c18_safe(case, obs):
    """cf.oracle_c18; a history whose rows are not all labelled (a batch that raised after its parameters were recorded and before
    its labels were - e.g. KeyError on a class that has no id) is an oracle failure, not a harness error."""
    for k, v in enumerate(obs["views"]):
        if len(v["methods"]) != len(v["params"]):
            return [("row-without-label", f"op {k}: {len(v['params'])} parameter rows and {len(v['methods'])} sampler labels "
                                          f"(outcome {v['exc']})")]
    return cf.oracle_c18(case, obs)


def oracle_c18_x(case, obs):
    """cf.oracle_c18 + every class of the line-up in force has an id + the NAMES the plotting helper gives for the ids of a
    saved run are the class names of the samplers that produced the rows + calibrate(0) with a folder leaves the table too."""
    fails = oracle_c18_safe(case, obs)
    specs = cf.sampler_specs(case)
    for k, (op, v, now, new, ran, wrote) in enumerate(cx.in_force(case, obs)):
        t = dict(v["table"])
        for u, _, _ in v["samplers"]:
            if u in specs and specs[u]["cls"] not in t:
                fails.append(("class-without-id", f"op {k}: class {specs[u]['cls']} of sampler uid {u} is in the line-up and not in the table {v['table']}"))
                break
        pn, d = v.get("plot_names"), v.get("disk")
        if isinstance(pn, str):
            fails.append(("names-recoverable-error", f"op {k}: _get_samplers_names failed: {pn}"))
        elif pn is not None and d is not None and "error" not in d:
            names = {i: n for i, n in pn}
            for i, tok in enumerate(d["params"]):
                u = cf.decode(tok)[0]
                if u in specs and names.get(d["methods"][i]) != class_name(specs[u]["cls"]):
                    fails.append(("names-identify-class", f"op {k}: saved row {i} (sampler uid {u}, class {class_name(specs[u]['cls'])}) "
                                                          f"carries id {d['methods'][i]}, which the plotting helper names {names.get(d['methods'][i])}"))
                    break
        if op[0] == "calibrate" and op[1] == 0 and wrote and v.get("plot_table") is not None:
            pt = v["plot_table"]
            if isinstance(pt, str):
                fails.append(("table-recoverable-error", f"op {k}: plotting helper failed after calibrate(0): {pt}"))
            elif dict(pt) != t:
                fails.append(("table-recoverable-differs", f"op {k}: after calibrate(0) the checkpoint gives {pt}, live table {v['table']}"))
    return fails

def run(chk, replay=None):
    chk.proof_gate()
    cases = [json.loads(open(replay).read())["case"]] if replay else gen_cases(chk)
    xcases = []
    if replay and cases[0].get("x"):
        xcases, cases = cases, []
    elif not replay:
        xcases = gen_xcases(chk)
    obs, bad, stats, keys, nontriv = cf.run_traces(chk, cases, oracle_c18_safe, nontrivial, label="C18", shard=50)
    xobs, xbad, xstats, xkeys, xnontriv = cx.run_traces_x(chk, xcases, oracle_c18_x, nontrivial, label="C18x")
    stats.update(xstats)
    stats["x:cases-with-id>=10"] = sum(1 for o in xobs if any(i >= 10 for v in o["views"] for _, i in v["table"]))
    cov = {
        "evaluations": len(cases) + len(xcases), "distinct": len(keys) + len(xkeys), "distinct_nontrivial": len(nontriv) + len(xnontriv),
        "extended_cases": len(xcases),
        "rule": "sequences of calibrate / set_samplers / set_scheduler / create_checkpoint / restore over token sampler classes "
                "(repeated classes included); after every operation the live id table, the labels of all rows and the table the "
                "plotting helper recovers from the checkpoint are compared; round 4: up to 15 token classes + the real HaltonSampler "
                "(ids >= 10), tuples / lists changed afterwards, faults, a folder holding another run, folder as str / Path / "
                "trailing slash, RL scheduler, reassigned batch sizes, restore-reconfigure-calibrate(0)-restore sequences, and the "
                "names _get_samplers_names gives for the ids of calibration_results.csv; non-trivial = a line-up change and at "
                "least 2 batches",
        "samples": cf.sample_cases(cases, obs) + cf.sample_cases(xcases, xobs, 2),
        "traces_validated_against_impl": len(cases) - len(bad) + len(xcases) - len(xbad),
        "model_impl_disagreements": len(bad) + len(xbad),
        "distribution": dict(sorted(stats.items())),
    }
    return chk.finish(cov, assumptions=cf.ASSUME, trusted=cf.TRUSTED)
