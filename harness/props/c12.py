"""C12 - de-duplication replaces only repeated points and gives up only after its passes.

Model: coq/Model/Dedup.v   Theorems: coq/Properties/C12.v
Correspondence: the real BaseSampler.sample() is driven by a scripted generator; returned rows and the
sequence of requested sizes are compared, exactly, with `sample_script` evaluated inside Coq.
"""
from __future__ import annotations

import contextlib
import io
import itertools
import json

import common
from collections import Counter

import numpy as np

from common import cbool, clist, cnat, cz

IMPORTS = "From Coq Require Import List ZArith.\nFrom BlackIt Require Import Model.Dedup."
CASE_T = "nat * nat * list point * list (list point) * list point * list nat"


def run_impl(case):
    """case = {dims, alphabet (sorted floats), bs, budget, hist (index tuples), plan}; plan drives the draws."""
    from black_it.samplers.base import BaseSampler

    alpha = case["alphabet"]
    dims = case["dims"]
    plan = [list(b) for b in case["script"]]
    nz = case.get("negzero") or [False]
    nzk = [0]

    def val(c):
        """coordinate value; a zero is given as +0.0 or -0.0 (numerically equal, so the same point)"""
        v = alpha[c]
        if v == 0.0:
            nzk[0] += 1
            return -0.0 if nz[nzk[0] % len(nz)] else 0.0
        return v

    class Scripted(BaseSampler):
        def __init__(self):
            super().__init__(case["bs"], max_deduplication_passes=case.get("ctor_budget", case["budget"]))
            self.reqs, self.k, self.flag_log, self.snap = [], 0, [], []

        def sample_batch(self, batch_size, search_space, existing_points, existing_losses):
            self.reqs.append(int(batch_size))
            rows = plan[self.k] if self.k < len(plan) else []
            self.k += 1
            # the script holds as many rows as the *model-free* planner decided; the oracle checks sizes
            return np.array([[val(c) for c in r] for r in rows], dtype=float).reshape(len(rows), dims)

        def find_and_get_duplicates(self, new_points, existing_points):
            self.snap.append(new_points.copy())
            r = BaseSampler.find_and_get_duplicates(new_points, existing_points)
            self.flag_log.append([int(i) for i in r])
            return r

    smp = Scripted()
    if "ctor_budget" in case:
        # the public attribute is reassigned after construction (the only way to choose it for samplers whose constructor
        # fixes it, and the natural way to tune a restored sampler): the value in force is the assigned one
        smp.max_deduplication_passes = case["budget"]
    hist = np.array([[val(c) for c in r] for r in case["hist"]], dtype=float).reshape(len(case["hist"]), dims)
    hist0 = hist.copy()
    if case.get("prior"):
        # the same sampler object has been used before, on ANOTHER history of the same length: nothing of that call may leak
        ph = np.array([[alpha[c] for c in r] for r in case["prior"]["hist"]], dtype=float).reshape(len(case["prior"]["hist"]), dims)
        plan.insert(0, case["prior"]["draw"])
        prior_err = None
        with contextlib.redirect_stdout(io.StringIO()):
            try:
                pout = smp.sample(None, ph, np.zeros(len(ph)))
                if len(smp.reqs) != 1 or [[float(v) for v in r] for r in pout] != [[alpha[c] for c in r] for r in case["prior"]["draw"]]:
                    prior_err = f"prior call (no repeats at all) asked for {smp.reqs} points / altered its draw"
            except Exception as e:  # noqa: BLE001
                prior_err = f"prior call (no repeats at all) raised {type(e).__name__}: {e}"
        if prior_err:
            return {"error": prior_err, "reqs": smp.reqs, "flags": [], "snaps": [], "out": None, "shape": None,
                    "hist_untouched": True, "calls": smp.k}
        smp.reqs, smp.flag_log, smp.snap = [], [], []
    err = None
    with contextlib.redirect_stdout(io.StringIO()):
        try:
            out = smp.sample(None, hist, np.zeros(len(hist)))
        except Exception as e:  # noqa: BLE001
            out, err = None, f"{type(e).__name__}: {e}"
    inv = {v: i for i, v in enumerate(alpha)}
    obs = {
        "error": err,
        "reqs": smp.reqs,
        "flags": smp.flag_log,
        "snaps": [[[inv[float(v)] for v in row] for row in s] for s in smp.snap],
        "out": None if out is None else [[inv[float(v)] for v in row] for row in out],
        "shape": None if out is None else list(out.shape),
        "hist_untouched": bool((hist == hist0).all()),
        "calls": smp.k,
    }
    return obs


def plan_case(rng, dims, nalpha, bs, budget, nhist):
    """Build history and a script whose batches have the sizes the real code will ask for.

    Sizes are found by running the real code incrementally (no Python copy of the model is involved): the
    script is extended batch by batch with the size the implementation requested.
    """
    # distinct values that are "close" by any tolerance-based comparison: 1e6 vs 1e6+1 (relative 1e-6), 1e-9 vs 2e-9 vs the
    # zero below (absolute 1e-9): points are equal only if their coordinates are ==
    alpha_pool = [-3.5, -1.0, -0.25, 0.5, 1.0, 2.75, 1e6, 1e6 + 1.0, 1e-9, 2e-9]
    rng.shuffle(alpha_pool)
    alpha = sorted(alpha_pool[:nalpha - 1] + [0.0])      # zero is always there: it has two float representations
    pt = lambda: tuple(rng.below(nalpha) for _ in range(dims))  # noqa: E731
    hist = [pt() for _ in range(nhist)]
    if hist and rng.below(3) == 0:
        hist.append(rng.choice(hist))  # history with its own repeats
    case = {"dims": dims, "alphabet": alpha, "bs": bs, "budget": budget, "hist": [list(h) for h in hist], "script": [],
            "negzero": [bool(rng.below(2)) for _ in range(7)] if rng.below(2) else None}
    if rng.below(4) == 0:
        case["ctor_budget"] = rng.choice([b for b in range(7) if b != budget])

    def draw(cur):
        k = rng.below(10)
        if k < 3 and hist:
            return tuple(rng.choice(hist))  # repeat of history
        if k < 5 and cur:
            return tuple(rng.choice(cur))  # repeat within the batch / of an earlier redraw
        return pt()

    if hist and rng.below(3) == 0:
        # prior call: a history of the same length with different content, and a first draw that collides with nothing there
        allp = [tuple(p) for p in itertools.product(range(nalpha), repeat=dims)]
        ph = [pt() for _ in range(len(hist))]
        free = [p for p in allp if p not in ph]
        if ph != hist and len(free) >= bs:
            rng.shuffle(free)
            case["prior"] = {"hist": [list(p) for p in ph], "draw": [list(p) for p in free[:bs]]}
    sizes = [bs]
    seen_rows = []
    for _ in range(budget + 1):
        batch = []
        for _ in range(sizes[-1]):
            batch.append(draw(seen_rows + batch))
        case["script"].append([list(b) for b in batch])
        seen_rows += batch
        obs = run_impl(case)
        if len(obs["reqs"]) <= len(case["script"]):
            break
        sizes.append(obs["reqs"][len(case["script"])])
    return case


def oracle(case, obs):
    """The property itself, checked on the implementation's observations (independent of the Coq model)."""
    fails = []
    if obs["error"]:
        return [f"exception {obs['error']}"]
    hist = [tuple(r) for r in case["hist"]]
    script = [[tuple(r) for r in b] for b in case["script"]]
    bs, dims, budget = case["bs"], case["dims"], case["budget"]
    out = [tuple(r) for r in obs["out"]]
    if obs["shape"] != [bs, dims]:
        fails.append(f"shape {obs['shape']} != {[bs, dims]}")
    if obs["reqs"][0] != bs:
        fails.append("first request is not batch_size")
    redraws = obs["reqs"][1:]
    snaps = [[tuple(r) for r in s] for s in obs["snaps"]]
    cur = list(script[0])
    npass = 0
    for k, flagged in enumerate(obs["flags"]):
        if snaps[k] != cur:
            fails.append(f"pass {k}: working batch is not the first draw with earlier substitutions")
            break
        cnt = Counter(hist + cur)
        want = {i for i, p in enumerate(cur) if cnt[p] >= 2}
        if set(flagged) != want or len(flagged) != len(want):
            fails.append(f"pass {k}: flagged {flagged} but repeats are {sorted(want)}")
            break
        if not flagged:
            break
        if k >= len(redraws) or redraws[k] != len(flagged):
            fails.append(f"pass {k}: asked for {redraws[k] if k < len(redraws) else None} points, repeats {len(flagged)}")
            break
        news = script[k + 1]
        nxt = list(cur)
        # multiset substitution: unflagged untouched, flagged positions receive exactly the redraws
        for j, i in enumerate(flagged):
            nxt[i] = news[j]
        cur = nxt
        npass += 1
    if not fails:
        if len(redraws) != npass:
            fails.append("number of redraw requests differs from the number of passes that found repeats")
        fl = set(i for f in obs["flags"] for i in f)
        first = script[0]
        for i in range(bs):
            if i not in fl and out[i] != first[i]:
                fails.append(f"position {i} was never a repeat but changed")
        if Counter(out) != Counter(cur):
            fails.append("returned multiset is not first draw with repeats substituted")
        cnt = Counter(hist + out)
        if any(cnt[p] >= 2 for p in out) and npass != budget:
            fails.append(f"a repeat is returned after only {npass} of {budget} passes")
    if not obs["hist_untouched"]:
        fails.append("history modified")
    return fails


def emit(case, obs):
    pts = lambda rows: clist([clist([cz(c) for c in r]) for r in rows])  # noqa: E731
    out = obs["out"] if obs["out"] is not None else []
    return (
        f"({cnat(case['bs'])}, {cnat(case['budget'])}, {pts(case['hist'])}, "
        f"{clist([pts(b) for b in case['script']])}, {pts(out)}, {clist([cnat(r) for r in obs['reqs'][1:]])})"
    )


def exhaustive_cases(max_bs, max_budget, nalpha):
    """dim 1, alphabet nalpha, every history of <=2 points, every script (sizes fixed by the implementation)."""
    alpha = [0.0, 1.0, 2.0][:nalpha]
    cases = []
    pts = [(a,) for a in range(nalpha)]
    hists = [[]] + [[p] for p in pts] + [[p, q] for p in pts for q in pts]
    for bs in range(1, max_bs + 1):
        for budget in range(0, max_budget + 1):
            for h in hists:
                # enumerate scripts as trees: extend while the implementation keeps asking
                stack = [[list(map(list, f))] for f in itertools.product(pts, repeat=bs)]
                while stack:
                    script = stack.pop()
                    case = {"dims": 1, "alphabet": alpha, "bs": bs, "budget": budget,
                            "hist": [list(p) for p in h], "script": script}
                    obs = run_impl(case)
                    if len(obs["reqs"]) > len(script):
                        need = obs["reqs"][len(script)]
                        for nb in itertools.product(pts, repeat=need):
                            stack.append(script + [list(map(list, nb))])
                    else:
                        cases.append(case)
    return cases


def run(chk, replay=None):
    ok = chk.proof_gate()
    cases = []
    if replay:
        cases = [json.loads(open(replay).read())["case"]]
    else:
        for f in sorted((common.CORPUS / "C12").glob("*.json")):
            cases.append(json.loads(f.read_text())["case"])
        n_random = 2000 if chk.tier == "quick" else 40000
        for _ in range(n_random):
            r = chk.rng
            cases.append(plan_case(r, r.randint(1, 3), r.randint(2, 4), r.randint(1, 6), r.randint(0, 6), r.randint(0, 6)))
        cases += exhaustive_cases(2, 2, 2) if chk.tier == "quick" else exhaustive_cases(3, 3, 2) + exhaustive_cases(2, 2, 3)
    observations = [run_impl(c) for c in cases]
    lits = [emit(c, o) for c, o in zip(cases, observations)]
    bad, errors = chk.coq_mismatches("C12", IMPORTS, "check_case", CASE_T, lits, shard=500)
    hist_stats = Counter()
    keys = set()
    nontrivial = set()
    for i, (c, o) in enumerate(zip(cases, observations)):
        fails = oracle(c, o)
        key = json.dumps([c["bs"], c["budget"], c["hist"], c["script"], c["dims"]])
        keys.add(key)
        npass = len(o["reqs"]) - 1
        hist_stats[f"passes={npass}"] += 1
        hist_stats[f"budget={c['budget']}"] += 1
        if npass >= 1:
            nontrivial.add(key)
        if fails:
            chk.violation({"kind": "oracle", "clause": fails[0].split(":")[0][:60]},
                          {"failed": "oracle:" + fails[0], "all": fails, "case": c, "observed": o})
        elif i in bad:
            chk.violation({"kind": "correspondence", "name": "sample_script"},
                          {"failed": "correspondence:sample_script (model and implementation disagree; the "
                                     "property oracle found no failing input)", "case": c, "observed": o,
                           "coq_case": lits[i]}, no_input=True)
    for e in errors:
        chk.violation({"kind": "correspondence", "name": "coqc"}, {"failed": "correspondence:coqc", "detail": e}, no_input=True)
    cov = {
        "evaluations": len(cases),
        "distinct_nontrivial": len(nontrivial),
        "distinct": len(keys),
        "rule": "scripted-generator runs of the real BaseSampler.sample(); random cases (dims 1-3, alphabet 2-4, batch 1-6, "
                "budget 0-6, history 0-7 incl. internal repeats; draws biased to repeat history / batch / earlier redraws) "
                "plus exhaustive enumeration of all scripts over a tiny alphabet; non-trivial = at least one pass found a "
                "repeat; distinct = distinct (bs,budget,history,script)",
        "signed_zero_cases": sum(1 for c in cases if c.get("negzero")),
        "reused_object_cases": sum(1 for c in cases if c.get("prior")),
        "samples": [{"case": cases[i], "observed_requests": observations[i]["reqs"], "observed_out": observations[i]["out"]}
                    for i in range(0, len(cases), max(1, len(cases) // 3))][:4],
        "traces_validated_against_impl": len(cases) - len(bad),
        "model_impl_disagreements": len(bad),
        "distribution": dict(sorted(hist_stats.items())),
        "exhaustive": False,
        "exhaustive_part": "all scripts for dim 1, alphabet 2, batch<=2, budget<=2, history<=2 (quick); "
                           "alphabet 2 batch<=3 budget<=3 and alphabet 3 batch<=2 budget<=2 (thorough)",
    }
    return chk.finish(
        cov,
        assumptions=["np.unique(axis=0) returns rows in lexicographic order", "the generator returns as many rows as requested "
                     "(numpy would raise or broadcast otherwise); coordinates are compared by ==, modelled as integers via an "
                     "order-preserving alphabet of floats"],
        trusted=["modelled, not verified: numpy concatenate/unique/argwhere/fancy assignment"],
    )
