"""C12 - de-duplication replaces only repeated points and gives up only after its passes.

Model: coq/Model/Dedup.v   Theorems: coq/Properties/C12.v
Correspondence: the real BaseSampler.sample() is driven by a scripted generator; returned rows and the
sequence of requested sizes are compared, exactly, with `sample_script` evaluated inside Coq.

A *session* is one call of sample(): {dims, bs, budget, hist, script[, fail_at, hist_repr, draw_repr]} with points given as
tuples of indices into the case's alphabet of floats.  A *case* is its main session plus decorations (round 4): sessions run
before it on the same / another sampler object ("pre"), a session of another object run in the middle of it ("nested"), the
representation (dtype, memory layout) of the history and of the arrays the generator returns, attributes reassigned after
construction, numpy-integer option values, a real SearchSpace, a history array rewritten in place.
"""
from __future__ import annotations

import contextlib
import io
import itertools
import json

import common
from collections import Counter

import numpy as np

from common import cbool, clist, cnat, cz

IMPORTS = "From Coq Require Import List ZArith.\nFrom BlackIt Require Import Model.Dedup."
CASE_T = "nat * nat * list point * list (list point) * list point * list nat"
VIEW_T = "nat * nat * nat * list point * list (list point) * list point * list point * list nat"
VIEW_INPUT = "generator-returns-view-of-history"   # descriptor of the finding (harness/findings.d/C12.json)

# distinct values that are "close" by any tolerance-based comparison: 1e6 vs 1e6+1 (relative 1e-6), 1e-9 vs 2e-9 vs the
# zero below (absolute 1e-9): points are equal only if their coordinates are ==
ALPHA_POOL = [-3.5, -1.0, -0.25, 0.5, 1.0, 2.75, 1e6, 1e6 + 1.0, 1e-9, 2e-9]
# round 4: pairs that coincide in single precision / after rounding to any number of decimals / after any absolute or relative
# tolerance, subnormals next to the zero, huge scales, integers beyond 2^53 where the spacing of doubles is 2
NEAR_PAIRS = [(1e6, 1e6 + 1.0), (1e-9, 2e-9), (1e8, 1e8 + 1.0), (1.0, 1.0 + 2.0 ** -52), (5e-324, 1e-323),
              (2.0 ** 53, 2.0 ** 53 + 2.0), (1e300, 1e300 * (1.0 + 2.0 ** -52)), (-1e8 - 1.0, -1e8)]
EXTRA_POOL = [-2.0, 3.0, 7.0, 0.125, -1e300, 65504.0, 1e-300]
DTYPES = ["float64", "float32", "int64", "int32", "float16"]
LAYOUTS_HIST = ["C", "F", "rowstride", "colstride", "rev", "offset", "readonly"]
LAYOUTS_DRAW = ["C", "F", "rowstride", "colstride", "rev", "offset"]
NP_INTS = {None: int, "int64": np.int64, "int32": np.int32, "int8": np.int8, "uint8": np.uint8}
DEFAULT_BUDGET = 5          # the documented default of max_deduplication_passes (samplers/base.py:43)
SPACE = (-4.0, 4.0, 0.25)   # bounds and precision of the real SearchSpace handed over when case["space"] is set


class ScriptedFault(RuntimeError):
    """Raised by the scripted generator at the call the session names in `fail_at`."""


def exact_in(v, dt):
    """is the float v exactly representable in numpy dtype dt?"""
    with np.errstate(all="ignore"):
        try:
            return float(np.array(v, dtype=float).astype(dt)) == v
        except (OverflowError, ValueError):
            return False


def mk(vals, dims, rep):
    """(n, dims) array of the given float values in the representation rep = {dtype, layout}; returns (array, base buffer)."""
    n = len(vals)
    dt = np.dtype((rep or {}).get("dtype", "float64"))
    layout = (rep or {}).get("layout", "C")
    with np.errstate(all="ignore"):
        a = np.array(vals, dtype=float).reshape(n, dims).astype(dt)
    if layout == "C":
        return a, a
    if layout == "readonly":
        a.flags.writeable = False
        return a, a
    if layout == "F":
        a = np.asfortranarray(a)
        return a, a
    if layout == "rowstride":       # every second row of a buffer whose other rows are copies of the real ones
        big = np.repeat(a, 2, axis=0)
        return big[::2], big
    if layout == "colstride":       # every second column
        big = np.repeat(a, 2, axis=1)
        return big[:, ::2], big
    if layout == "rev":             # negative row stride
        big = a[::-1].copy()
        return big[::-1], big
    if layout == "offset":          # a window of a larger buffer (rows before and after it are copies of real rows, or zeros)
        big = np.zeros((n + 3, dims), dtype=dt)
        if n:
            big[:2] = a[0]
            big[2 + n:] = a[-1]
        big[2:2 + n] = a
        return big[2:2 + n], big
    raise ValueError(layout)


def run_impl(case):
    """Run every session of the case on the real code; returns the observation of the main session, with those of the other
    sessions under "pre" and "nested"."""
    from black_it.samplers.base import BaseSampler

    alpha = case["alphabet"]
    inv = {v: i for i, v in enumerate(alpha)}
    nz = case.get("negzero") or [False]
    nzk = [0]
    wrap_int = NP_INTS[case.get("np_ints")]
    spaces = {}

    def val(c):
        """coordinate value; a zero is given as +0.0 or -0.0 (numerically equal, so the same point)"""
        v = alpha[c]
        if v == 0.0:
            nzk[0] += 1
            return -0.0 if nz[nzk[0] % len(nz)] else 0.0
        return v

    def space_for(dims):
        """a real SearchSpace (the generator is user-defined: its points need not be on the grid, nor inside the bounds)"""
        if not case.get("space"):
            return None
        if dims not in spaces:
            from black_it.search_space import SearchSpace

            spaces[dims] = SearchSpace([[SPACE[0]] * dims, [SPACE[1]] * dims], [SPACE[2]] * dims, False)
        return spaces[dims]

    def index_rows(arr, foreign):
        rows = []
        for row in arr:
            r = []
            for v in row:
                i = inv.get(float(v))
                if i is None:
                    foreign.append(float(v))
                    i = -1
                r.append(i)
            rows.append(r)
        return rows

    class Scripted(BaseSampler):
        def __init__(self, bs, budget, default_budget=False):
            if default_budget:
                super().__init__(bs)
                budget = DEFAULT_BUDGET
            else:
                super().__init__(bs, max_deduplication_passes=budget)
            self.cfg_bs, self.cfg_budget = int(bs), int(budget)   # what the harness has put in force on this object
            self.begin(None, None)

        def begin(self, sess, nested):
            self.sess, self.nested, self.nested_obs = sess, nested, None
            self.plan = [] if sess is None else [list(b) for b in sess["script"]]
            self.reqs, self.k, self.flag_log, self.snap = [], 0, [], []

        def sample_batch(self, batch_size, search_space, existing_points, existing_losses):
            self.reqs.append(int(batch_size))
            k = self.k
            self.k += 1
            if self.nested is not None and k == self.nested["at"]:
                # another sampler object does a whole sample() while this one is in the middle of its own (a generator that
                # delegates to other samplers): nothing may be shared between objects
                ns = self.nested["session"]
                self.nested_obs = run_session(Scripted(wrap_int(ns["bs"]), wrap_int(ns["budget"])), ns, None)[0]
            if self.sess.get("fail_at") == k:
                raise ScriptedFault(f"scripted generator fault at call {k}")
            va = self.sess.get("view_of_history")
            if va is not None and k == 0:
                # a generator that proposes points of the history again, the way one writes it with numpy: a basic slice,
                # i.e. a VIEW of the caller's array (script[0] holds the same rows by content)
                return existing_points[va:va + int(batch_size)]
            rows = self.plan[k] if k < len(self.plan) else []
            # the script holds as many rows as the *model-free* planner decided; the oracle checks sizes
            return mk([[val(c) for c in r] for r in rows], self.sess["dims"], self.sess.get("draw_repr"))[0]

        def find_and_get_duplicates(self, new_points, existing_points):
            self.snap.append(np.array(new_points, copy=True))
            r = BaseSampler.find_and_get_duplicates(new_points, existing_points)
            self.flag_log.append([int(i) for i in r])
            return r

    def configure(obj, sess, force_bs, force_budget):
        """the public attributes are (re)assigned after construction (the only way to choose them for samplers whose
        constructor fixes them, and the natural way to tune a restored or reused sampler): the value in force is the assigned one"""
        if force_bs or obj.cfg_bs != sess["bs"]:
            obj.batch_size = wrap_int(sess["bs"])
            obj.cfg_bs = sess["bs"]
        if force_budget or obj.cfg_budget != sess["budget"]:
            obj.max_deduplication_passes = wrap_int(sess["budget"])
            obj.cfg_budget = sess["budget"]

    def run_session(obj, sess, reuse_hist, nested=None):
        dims = sess["dims"]
        obj.begin(sess, nested)
        hvals = [[val(c) for c in r] for r in sess["hist"]]
        if reuse_hist is not None and sess.get("inplace_hist") and reuse_hist.shape == (len(hvals), dims) and reuse_hist.flags.writeable:
            # the caller keeps ONE history array and rewrites it in place between two calls
            reuse_hist[...] = np.array(hvals, dtype=float).reshape(len(hvals), dims)
            hist = base = reuse_hist
        else:
            hist, base = mk(hvals, dims, sess.get("hist_repr"))
        hist0, base0 = hist.copy(), base.copy()
        err, out = None, None
        with contextlib.redirect_stdout(io.StringIO()):
            try:
                out = obj.sample(space_for(dims), hist, np.zeros(len(hist)))
            except Exception as e:  # noqa: BLE001
                err = f"{type(e).__name__}: {e}"
        foreign = []
        obs = {
            "error": err,
            "reqs": obj.reqs,
            "flags": obj.flag_log,
            "snaps": [index_rows(s, foreign) if getattr(s, "ndim", 0) == 2 else [] for s in obj.snap],
            "out": None if out is None else (index_rows(out, foreign) if getattr(out, "ndim", 0) == 2 else []),
            "shape": None if out is None else list(np.shape(out)),
            "hist_untouched": bool(np.array_equal(hist, hist0) and np.array_equal(base, base0)
                                   and np.array_equal(np.signbit(base.astype(float)), np.signbit(base0.astype(float)))),
            "calls": obj.k,
            "foreign": foreign[:6],
        }
        if nested is not None:
            obs["nested"] = obj.nested_obs
        if sess.get("view_of_history") is not None:
            obs["hist_after"] = index_rows(hist, foreign)
        return obs, hist

    main = Scripted(wrap_int(case.get("ctor_bs", case["bs"])), wrap_int(case.get("ctor_budget", case["budget"])),
                    default_budget=bool(case.get("default_budget")))
    pre = list(case.get("pre") or [])
    if case.get("prior"):
        # (format of rounds 2-3, kept for old replay files) the same object used before on another history of the same length,
        # with a draw that collides with nothing
        pre.append({"dims": case["dims"], "bs": case["bs"], "budget": case["budget"], "hist": case["prior"]["hist"],
                    "script": [case["prior"]["draw"]], "same_object": True})
    pre_obs, last_hist = [], None
    for ps in pre:
        if ps.get("same_object", True):
            obj = main
            configure(obj, ps, False, False)
        else:
            obj = Scripted(wrap_int(ps["bs"]), wrap_int(ps["budget"]))
        o, last_hist = run_session(obj, ps, last_hist)
        pre_obs.append(o)
    configure(main, case, "ctor_bs" in case, "ctor_budget" in case)
    obs, _ = run_session(main, case, last_hist, nested=case.get("nested"))
    obs["pre"] = pre_obs
    return obs


def bare(case, sess):
    """the session as a stand-alone case (same alphabet / zeros / search space), used by the planner"""
    c = {k: v for k, v in sess.items() if k not in ("same_object", "inplace_hist")}
    c.update(alphabet=case["alphabet"], negzero=case.get("negzero"), space=case.get("space"))
    return c


def plan_session(rng, case, sess, stubborn, first=None):
    """Fill sess["script"] with batches that have the sizes the real code will ask for.

    Sizes are found by running the real code incrementally (no Python copy of the model is involved): the
    script is extended batch by batch with the size the implementation requested.
    """
    nalpha, dims, hist = len(case["alphabet"]), sess["dims"], [tuple(h) for h in sess["hist"]]
    pt = lambda: tuple(rng.below(nalpha) for _ in range(dims))  # noqa: E731

    def draw(cur):
        k = rng.below(10)
        if stubborn and k < 9 and (hist or cur):
            return tuple(rng.choice(hist + cur))  # a generator that keeps proposing points already seen
        if k < 3 and hist:
            return tuple(rng.choice(hist))  # repeat of history
        if k < 5 and cur:
            return tuple(rng.choice(cur))  # repeat within the batch / of an earlier redraw
        return pt()

    sizes = [sess["bs"]]
    seen_rows = []
    sess["script"] = []
    for _ in range(sess["budget"] + 1):
        batch = []
        for _ in range(sizes[-1]):
            batch.append(draw(seen_rows + batch))
        if first is not None and not sess["script"]:
            batch = [tuple(p) for p in first]
        sess["script"].append([list(b) for b in batch])
        seen_rows += batch
        obs = run_impl(bare(case, sess))
        if len(obs["reqs"]) <= len(sess["script"]):
            break
        sizes.append(obs["reqs"][len(sess["script"])])
    return sess


def pick_alphabet(rng, nalpha):
    pool = list(ALPHA_POOL) + [v for p in NEAR_PAIRS for v in p if v not in ALPHA_POOL] + EXTRA_POOL
    rng.shuffle(pool)
    chosen = []
    if nalpha >= 3 and rng.below(5) < 3:
        chosen = list(rng.choice(NEAR_PAIRS))   # a near pair on purpose
    elif nalpha == 2 and rng.below(2):
        chosen = [rng.choice([1e-9, 5e-324, 1e-323, 1e-300])]   # a value next to the zero
    for v in pool:
        if len(chosen) >= nalpha - 1:
            break
        if v not in chosen:
            chosen.append(v)
    return sorted(chosen[:nalpha - 1] + [0.0])      # zero is always there: it has two float representations


def random_hist(rng, case, dims, nhist, rep):
    """history rows over the alphabet entries that the history's dtype represents exactly"""
    alpha = case["alphabet"]
    sub = [i for i, v in enumerate(alpha) if exact_in(v, (rep or {}).get("dtype", "float64"))]
    hist = [tuple(rng.choice(sub) for _ in range(dims)) for _ in range(nhist)]
    if hist and rng.below(3) == 0:
        hist.append(rng.choice(hist))  # history with its own repeats
    return [list(h) for h in hist]


def pick_reprs(rng, case):
    """representation of the history (any dtype; its rows use the exactly representable part of the alphabet) and of the
    generator's arrays (a dtype that holds the whole alphabet exactly, so that no draw is changed by its own container)"""
    hrep = drep = None
    if rng.below(2):
        hrep = {"dtype": rng.choice(DTYPES), "layout": rng.choice(LAYOUTS_HIST)}
    if rng.below(5) < 2:
        ok = [d for d in DTYPES if all(exact_in(v, d) for v in case["alphabet"])]
        drep = {"dtype": rng.choice(ok), "layout": rng.choice(LAYOUTS_DRAW)}
    return hrep, drep


def plan_case(rng, dims, nalpha, bs, budget, nhist, decorate=True):
    """Build a case: alphabet, main session and (round 4) the decorations around it."""
    case = {"dims": dims, "alphabet": pick_alphabet(rng, nalpha), "bs": bs, "budget": budget, "hist": [], "script": [],
            "negzero": [bool(rng.below(2)) for _ in range(7)] if rng.below(2) else None}
    if decorate and rng.below(4) == 0:
        case["space"] = True
    if decorate:
        hrep, drep = pick_reprs(rng, case)
        if hrep:
            case["hist_repr"] = hrep
        if drep:
            case["draw_repr"] = drep
    case["hist"] = random_hist(rng, case, dims, nhist, case.get("hist_repr"))
    first = None
    if decorate and not case.get("hist_repr") and not case.get("draw_repr") and len(case["hist"]) >= bs and rng.below(10) == 0:
        # the first batch is a view of rows [a, a + bs) of the history array itself
        case["view_of_history"] = rng.below(len(case["hist"]) - bs + 1)
        first = case["hist"][case["view_of_history"]:case["view_of_history"] + bs]
    plan_session(rng, case, case, stubborn=rng.below(6) == 0, first=first)
    if rng.below(4) == 0:
        case["ctor_budget"] = rng.choice([b for b in range(7) if b != budget])
    elif decorate and budget == DEFAULT_BUDGET and rng.below(2):
        case["default_budget"] = True       # constructed without the option: the documented default is in force
    if not decorate:
        return case
    if rng.below(5) == 0:
        case["ctor_bs"] = rng.choice([b for b in range(1, 2 * bs + 3) if b != bs])
    if rng.below(6) == 0:
        case["np_ints"] = rng.choice(["int64", "int32", "int8", "uint8"])
    # ---- sessions before the main one
    npre = [0, 0, 0, 1, 1, 2][rng.below(6)]
    pre = []
    for j in range(npre):
        kind = rng.below(4)
        ps = {"dims": dims if rng.below(5) < 3 else rng.randint(1, 3), "bs": rng.randint(1, 6), "budget": rng.randint(0, 6),
              "same_object": rng.below(5) > 0}
        if kind == 0 and len(case["hist"]) > 0:
            # a history of the same length with different content, and a draw that collides with nothing there (round 2)
            ps.update(dims=dims, bs=bs, budget=budget)
            allp = [tuple(p) for p in itertools.product(range(nalpha), repeat=dims)] if nalpha ** dims <= 4096 else []
            ph = [tuple(rng.below(nalpha) for _ in range(dims)) for _ in range(len(case["hist"]))]
            free = [p for p in allp if p not in ph]
            if [list(p) for p in ph] == case["hist"] or len(free) < bs:
                continue
            rng.shuffle(free)
            ps.update(hist=[list(p) for p in ph], script=[[list(p) for p in free[:bs]]])
        else:
            hrep, drep = pick_reprs(rng, case) if rng.below(3) == 0 else (None, None)
            if hrep:
                ps["hist_repr"] = hrep
            if drep:
                ps["draw_repr"] = drep
            samelen = rng.below(2) == 0
            ps["hist"] = random_hist(rng, case, ps["dims"], len(case["hist"]) if samelen else rng.randint(0, 7), hrep)
            plan_session(rng, case, ps, stubborn=rng.below(3) == 0)   # often one that exhausts its budget
            if len(ps["script"]) >= 1 and rng.below(4) == 0:
                # the generator raises at one of the calls the real code makes (first draw or a redraw)
                ps["fail_at"] = rng.below(len(ps["script"]))
                ps["script"] = ps["script"][:ps["fail_at"]]
        pre.append(ps)
    if pre:
        case["pre"] = pre
        last = pre[-1]
        if (last["dims"] == dims and len(last["hist"]) == len(case["hist"]) and not last.get("hist_repr")
                and not case.get("hist_repr") and last["hist"] != case["hist"] and case["hist"] and rng.below(3) < 2):
            case["inplace_hist"] = True
    # ---- a session of another object in the middle of the main one
    if rng.below(8) == 0:
        ns = {"dims": dims if rng.below(2) else rng.randint(1, 3), "bs": rng.randint(1, 6), "budget": rng.randint(0, 6)}
        ns["hist"] = random_hist(rng, case, ns["dims"], rng.randint(0, 7), None)
        plan_session(rng, case, ns, stubborn=rng.below(3) == 0)
        case["nested"] = {"at": rng.below(len(case["script"])), "session": ns}
    return case


def oracle_session(sess, obs):
    """The property itself, checked on the implementation's observations of one sample() call (independent of the Coq model)."""
    fails = []
    fault = sess.get("fail_at")
    if obs["error"]:
        if fault is None or not obs["error"].startswith("ScriptedFault"):
            return [f"exception {obs['error']}"]
    elif fault is not None:
        return [f"the exception raised by the generator at its call {fault} did not reach the caller"]
    hist = [tuple(r) for r in sess["hist"]]
    script = [[tuple(r) for r in b] for b in sess["script"]]
    bs, dims, budget = sess["bs"], sess["dims"], sess["budget"]
    if obs.get("foreign"):
        fails.append(f"a coordinate value that was never drawn appears in the batch {obs['foreign']}")
    if fault is None and obs["shape"] != [bs, dims]:
        fails.append(f"shape {obs['shape']} != {[bs, dims]}")
    if not obs["reqs"] or obs["reqs"][0] != bs:
        fails.append("first request is not batch_size")
    if fails:
        return fails
    out = None if obs["out"] is None else [tuple(r) for r in obs["out"]]
    redraws = obs["reqs"][1:]
    snaps = [[tuple(r) for r in s] for s in obs["snaps"]]
    cur = list(script[0]) if script else []
    npass = 0
    for k, flagged in enumerate(obs["flags"]):
        if fault == 0:
            fails.append("the generator failed at its first call, yet the batch was examined")
            break
        if k >= budget:
            # a look at the batch after the last pass (e.g. to word a warning) is not a pass: nothing may be redrawn any more,
            # which `len(redraws) != npass` below enforces
            break
        if snaps[k] != cur:
            fails.append(f"pass {k}: working batch is not the first draw with earlier substitutions")
            break
        cnt = Counter(hist + cur)
        want = {i for i, p in enumerate(cur) if cnt[p] >= 2}
        if set(flagged) != want or len(flagged) != len(want):
            fails.append(f"pass {k}: flagged {flagged} but repeats are {sorted(want)}")
            break
        if not flagged:
            break
        if k >= len(redraws) or redraws[k] != len(flagged):
            fails.append(f"pass {k}: asked for {redraws[k] if k < len(redraws) else None} points, repeats {len(flagged)}")
            break
        if fault is not None and k + 1 == fault:
            break   # this request is the one that raised: nothing was substituted
        if k + 1 >= len(script):
            fails.append(f"pass {k}: a redraw was requested that the unmodified code never asks for")
            break
        news = script[k + 1]
        if len(news) != len(flagged):
            # the script was sized by running the same code on the same inputs: another number of repeats now means the outcome
            # depends on something else than history, draws and budget
            fails.append(f"pass {k}: {len(flagged)} points redrawn where the same inputs gave {len(news)} when the script was planned")
            break
        nxt = list(cur)
        # multiset substitution: unflagged untouched, flagged positions receive exactly the redraws
        for j, i in enumerate(flagged):
            nxt[i] = news[j]
        cur = nxt
        npass += 1
    if not fails and fault is not None:
        if len(obs["reqs"]) != fault + 1:
            fails.append(f"the generator raised at its call {fault} but {len(obs['reqs'])} calls were made")
    elif not fails:
        if len(redraws) != npass:
            fails.append("number of redraw requests differs from the number of passes that found repeats")
        fl = set(i for f in obs["flags"][:budget] for i in f)
        first = script[0]
        for i in range(bs):
            if i not in fl and out[i] != first[i]:
                fails.append(f"position {i} was never a repeat but changed")
        if Counter(out) != Counter(cur):
            fails.append("returned multiset is not first draw with repeats substituted")
        cnt = Counter(hist + out)
        if any(cnt[p] >= 2 for p in out) and npass != budget:
            fails.append(f"a repeat is returned after only {npass} of {budget} passes")
    if not obs["hist_untouched"]:
        fails.append("history modified")
    return fails


def sessions_of(case, obs):
    """[(label, session, observation)] of every sample() call the case made"""
    res = []
    pre = list(case.get("pre") or [])
    if case.get("prior"):
        pre.append({"dims": case["dims"], "bs": case["bs"], "budget": case["budget"], "hist": case["prior"]["hist"],
                    "script": [case["prior"]["draw"]]})
    for j, (ps, po) in enumerate(zip(pre, obs.get("pre") or [])):
        res.append((f"reuse (earlier call {j} of {len(pre)}, {'same' if ps.get('same_object', True) else 'another'} object)", ps, po))
    if case.get("nested"):
        if obs.get("nested") is not None:
            res.append(("nested (another object's call during this one)", case["nested"]["session"], obs["nested"]))
    res.append(("", case, obs))
    return res


def oracle(case, obs):
    fails = []
    for label, sess, o in sessions_of(case, obs):
        f = oracle_session(sess, o)
        fails += [(f"{label}: {x}" if label else x) for x in f]
    # the main session's failures first (they name the clause of the descriptor)
    fails.sort(key=lambda x: x.startswith(("reuse", "nested")))
    if case.get("nested") and obs.get("nested") is None and not fails and case["nested"]["at"] < len(obs["reqs"]):
        fails.append("nested: the inner call did not run")
    return fails


def emit_view(case, obs):
    pts = lambda rows: clist([clist([cz(c) for c in r]) for r in rows])  # noqa: E731
    out = obs["out"] if obs["out"] is not None else []
    return (
        f"({cnat(case['bs'])}, {cnat(case['budget'])}, {cnat(case['view_of_history'])}, {pts(case['hist'])}, "
        f"{clist([pts(b) for b in case['script']])}, {pts(out)}, {pts(obs.get('hist_after') or [])}, "
        f"{clist([cnat(r) for r in obs['reqs'][1:]])})"
    )


def emit(case, obs):
    pts = lambda rows: clist([clist([cz(c) for c in r]) for r in rows])  # noqa: E731
    out = obs["out"] if obs["out"] is not None else []
    return (
        f"({cnat(case['bs'])}, {cnat(case['budget'])}, {pts(case['hist'])}, "
        f"{clist([pts(b) for b in case['script']])}, {pts(out)}, {clist([cnat(r) for r in obs['reqs'][1:]])})"
    )


def exhaustive_cases(max_bs, max_budget, nalpha):
    """dim 1, alphabet nalpha, every history of <=2 points, every script (sizes fixed by the implementation)."""
    alpha = [0.0, 1.0, 2.0][:nalpha]
    cases = []
    pts = [(a,) for a in range(nalpha)]
    hists = [[]] + [[p] for p in pts] + [[p, q] for p in pts for q in pts]
    for bs in range(1, max_bs + 1):
        for budget in range(0, max_budget + 1):
            for h in hists:
                # enumerate scripts as trees: extend while the implementation keeps asking
                stack = [[list(map(list, f))] for f in itertools.product(pts, repeat=bs)]
                while stack:
                    script = stack.pop()
                    case = {"dims": 1, "alphabet": alpha, "bs": bs, "budget": budget,
                            "hist": [list(p) for p in h], "script": script}
                    obs = run_impl(case)
                    if len(obs["reqs"]) > len(script):
                        need = obs["reqs"][len(script)]
                        for nb in itertools.product(pts, repeat=need):
                            stack.append(script + [list(map(list, nb))])
                    else:
                        cases.append(case)
    return cases


def large_case(rng, k):
    """sizes beyond the small ones: batches of 7-40 points, up to 12 coordinates, alphabets up to 12 values, histories around and
    beyond 512 points (every third one)"""
    nhist = [rng.randint(0, 60), rng.randint(100, 300), rng.randint(513, 700)][k % 3]
    case = plan_case(rng, rng.randint(1, 12), rng.randint(2, 12), rng.randint(7, 40), rng.randint(0, 6), nhist, decorate=False)
    if nhist > 512 and case["hist"]:
        # make sure the OLD part of a long history matters: the first draw repeats some of its first rows
        old = case["hist"][:max(1, len(case["hist"]) - 512)]
        first = case["script"][0]
        for i in range(0, len(first), 3):
            first[i] = list(rng.choice(old))
        case["script"] = [first]
        plan_session_continue(rng, case)
    return case


def plan_session_continue(rng, case):
    """extend a script whose first batch is fixed, batch by batch with the sizes the implementation asks for"""
    nalpha, dims = len(case["alphabet"]), case["dims"]
    for _ in range(case["budget"] + 1):
        obs = run_impl(bare(case, case))
        if len(obs["reqs"]) <= len(case["script"]):
            break
        need = obs["reqs"][len(case["script"])]
        hist = case["hist"]
        case["script"].append([list(rng.choice(hist)) if rng.below(3) == 0 else [rng.below(nalpha) for _ in range(dims)]
                               for _ in range(need)])


def coq_check(chk, name, lits, shard, check_fn="check_case", case_t=CASE_T):
    """chk.coq_mismatches; a shard whose coqc process was killed from outside (rc -9 / 137: the kernel's out-of-memory killer on
    a crowded machine) is evaluated again on its own, one process at a time, up to five times after growing pauses (15 s ... 300 s); a shard that
    still fails is reported as before (fail closed)"""
    import re
    import time

    bad, errors = chk.coq_mismatches(name, IMPORTS, check_fn, case_t, lits, shard=shard)
    bad, kept = list(bad), []
    for e in errors:
        m = re.match(r"cases_" + re.escape(name) + r"_(\d+)\.v: rc=(-9|137)\b", e)
        if not m:
            kept.append(e)
            continue
        k = int(m.group(1))
        sub = lits[k * shard:(k + 1) * shard]
        for attempt, pause in enumerate((15, 45, 90, 180, 300)):
            time.sleep(pause)
            b2, e2 = chk.coq_mismatches(f"{name}s{k}r{attempt}", IMPORTS, check_fn, case_t, sub, shard=len(sub))
            if not any("rc=-9" in x or "rc=137" in x for x in e2):
                break
        bad += [k * shard + x for x in b2]
        kept += e2
    return sorted(bad), kept


def run(chk, replay=None):
    ok = chk.proof_gate()
    # the cases are generated, run and judged block by block (a thorough run holds 40 000 cases with every working batch of
    # every pass: kept all at once they weigh gigabytes); a block is a list of (case, is_large)
    def blocks():
        if replay:
            yield [(json.loads(open(replay).read())["case"], False)]
            return
        corpus = [(json.loads(f.read_text())["case"], False) for f in sorted((common.CORPUS / "C12").glob("*.json"))]
        if corpus:
            yield corpus
        n_random = 2000 if chk.tier == "quick" else 40000
        r = chk.rng
        for k0 in range(0, n_random, 4000):
            yield [(plan_case(r, r.randint(1, 3), r.randint(2, 4), r.randint(1, 6), r.randint(0, 6), r.randint(0, 6)), False)
                   for _ in range(min(4000, n_random - k0))]
        ex = exhaustive_cases(2, 2, 2) if chk.tier == "quick" else exhaustive_cases(3, 3, 2) + exhaustive_cases(2, 2, 3)
        for k0 in range(0, len(ex), 4000):
            yield [(c, False) for c in ex[k0:k0 + 4000]]
        n_large = 24 if chk.tier == "quick" else 240
        for k0 in range(0, n_large, 48):
            yield [(large_case(chk.rng, k), True) for k in range(k0, min(n_large, k0 + 48))]

    def all_sessions(c):
        return [c] + list(c.get("pre") or []) + ([c["nested"]["session"]] if c.get("nested") else [])

    hist_stats, reprs, r4 = Counter(), Counter(), Counter()
    keys, nontrivial = set(), set()
    n_cases = n_bad = n_lits = n_faulted = n_negzero = n_reused = 0
    samples, all_errors = [], []
    for bi, block in enumerate(blocks()):
        cases = [c for c, _ in block]
        observations = [run_impl(c) for c in cases]
        # one Coq literal per session that ended normally (the model has no failing generator: those sessions are judged by
        # the oracle only); `owner` maps a literal back to its case
        lits, owner, vlits, vowner = [], [], [], []
        verdicts = [oracle(c, o) for c, o in zip(cases, observations)]
        for i, (c, o) in enumerate(zip(cases, observations)):
            for label, sess, so in sessions_of(c, o):
                if sess.get("fail_at") is not None:
                    n_faulted += 1
                elif sess.get("view_of_history") is not None and verdicts[i]:
                    # the finding reproduces: the observation (batch, history afterwards, requests) must be the one of the
                    # model of the finding (Section SampleView); when it does not (a repaired tree) the case is an ordinary one
                    vlits.append(emit_view(sess, so))
                    vowner.append(i)
                else:
                    lits.append(emit(sess, so))
                    owner.append(i)
        large = bool(block) and block[0][1]
        bad_l, errors = coq_check(chk, f"C12{'L' if large else ''}b{bi}", lits, 8 if large else 500)
        bad = {owner[j] for j in bad_l}
        vbad = set()
        if vlits:
            vbad_l, verrors = coq_check(chk, f"C12Vb{bi}", vlits, 500, "check_case_view", VIEW_T)
            vbad = {vowner[j] for j in vbad_l}
            errors = errors + verrors
        all_errors += errors
        n_lits += len(lits) + len(vlits)
        for i, (c, o) in enumerate(zip(cases, observations)):
            fails = verdicts[i]
            key = json.dumps([c["bs"], c["budget"], c["hist"], c["script"], c["dims"]])
            keys.add(key)
            npass = len(o["reqs"]) - 1
            hist_stats[f"passes={npass}"] += 1
            hist_stats[f"budget={c['budget']}"] += 1
            if npass >= 1:
                nontrivial.add(key)
            if i in vbad:
                chk.violation({"kind": "correspondence", "name": "sample_view"},
                              {"failed": "correspondence:sample_view (the generator returned a view of the history and the property "
                                         "fails, but not the way Model/Dedup.v Section SampleView describes the finding)",
                               "oracle": fails, "case": c, "observed": o, "coq_case": emit_view(c, o)}, no_input=True)
            elif fails and c.get("view_of_history") is not None:
                r4["view_of_history_finding_reproduced"] += 1
                chk.violation({"kind": "oracle", "input": VIEW_INPUT},
                              {"failed": "oracle:" + fails[0], "all": fails, "case": c, "observed": o})
            elif fails:
                chk.violation({"kind": "oracle", "clause": fails[0].split(":")[0][:60]},
                              {"failed": "oracle:" + fails[0], "all": fails, "case": c, "observed": o})
            elif i in bad:
                chk.violation({"kind": "correspondence", "name": "sample_script"},
                              {"failed": "correspondence:sample_script (model and implementation disagree; the "
                                         "property oracle found no failing input)", "case": c, "observed": o,
                               "coq_case": [emit(s, so) for _, s, so in sessions_of(c, o) if s.get("fail_at") is None]}, no_input=True)
            # ---- what the generator hit
            pre, pobs = c.get("pre") or [], o.get("pre") or []
            n_negzero += bool(c.get("negzero"))
            n_reused += bool(c.get("prior") or any(p.get("same_object", True) for p in pre))
            r4["earlier_call_on_another_object"] += any(not p.get("same_object", True) for p in pre)
            r4["earlier_call_used_passes"] += any(len(po["reqs"]) > 1 for po in pobs)
            r4["earlier_call_exhausted_budget"] += any(p["budget"] >= 1 and len(po["reqs"]) - 1 == p["budget"] and p.get("fail_at") is None
                                                       for p, po in zip(pre, pobs))
            r4["earlier_call_failed"] += any(p.get("fail_at") is not None for p in pre)
            r4["earlier_call_other_length_or_dims"] += any(p["dims"] != c["dims"] or len(p["hist"]) != len(c["hist"]) for p in pre)
            r4["history_array_rewritten_in_place"] += bool(c.get("inplace_hist"))
            r4["nested_other_object"] += bool(c.get("nested"))
            r4["first_batch_is_view_of_history"] += c.get("view_of_history") is not None
            r4["batch_size_reassigned"] += "ctor_bs" in c
            r4["budget_reassigned"] += "ctor_budget" in c
            r4["default_budget"] += bool(c.get("default_budget"))
            r4["numpy_integer_options"] += bool(c.get("np_ints"))
            r4["real_search_space"] += bool(c.get("space"))
            r4["alphabet_with_near_pair"] += any(p[0] in c["alphabet"] and p[1] in c["alphabet"] for p in NEAR_PAIRS)
            r4["history_longer_than_512"] += len(c["hist"]) > 512
            r4["batch_larger_than_10"] += c["bs"] > 10
            for s in all_sessions(c):
                for which in ("hist_repr", "draw_repr"):
                    if s.get(which):
                        reprs[f"{which}:{s[which]['dtype']}"] += 1
                        reprs[f"{which}:{s[which]['layout']}"] += 1
        if len(samples) < 4 and cases:
            samples.append({"case": cases[0], "observed_requests": observations[0]["reqs"], "observed_out": observations[0]["out"]})
        n_cases += len(cases)
        n_bad += len(bad)
    for e in all_errors:
        chk.violation({"kind": "correspondence", "name": "coqc"}, {"failed": "correspondence:coqc", "detail": e}, no_input=True)
    cov = {
        "evaluations": n_cases,
        "distinct_nontrivial": len(nontrivial),
        "distinct": len(keys),
        "rule": "scripted-generator runs of the real BaseSampler.sample(); random cases (dims 1-3, alphabet 2-4, batch 1-6, "
                "budget 0-6, history 0-7 incl. internal repeats; draws biased to repeat history / batch / earlier redraws) "
                "plus exhaustive enumeration of all scripts over a tiny alphabet plus large cases (batch 7-40, dims 1-12, history "
                "up to 700); non-trivial = at least one pass found a repeat; distinct = distinct (bs,budget,history,script) of "
                "the main session",
        "sample_calls_judged": n_lits + n_faulted,
        "sample_calls_compared_with_model": n_lits,
        "signed_zero_cases": n_negzero,
        "reused_object_cases": n_reused,
        "round4": dict(sorted(r4.items()), representations=dict(sorted(reprs.items()))),
        "samples": samples,
        "traces_validated_against_impl": n_cases - n_bad,
        "model_impl_disagreements": n_bad,
        "distribution": dict(sorted(hist_stats.items())),
        "exhaustive": False,
        "exhaustive_part": "all scripts for dim 1, alphabet 2, batch<=2, budget<=2, history<=2 (quick); "
                           "alphabet 2 batch<=3 budget<=3 and alphabet 3 batch<=2 budget<=2 (thorough)",
    }
    return chk.finish(
        cov,
        assumptions=["np.unique(axis=0) returns rows in lexicographic order", "the generator returns as many rows as requested "
                     "(numpy would raise or broadcast otherwise); coordinates are compared by ==, modelled as integers via an "
                     "order-preserving alphabet of floats",
                     "the generator's arrays have a dtype that represents every value it draws (a container that rounds the "
                     "generator's own values is outside the property)"],
        trusted=["modelled, not verified: numpy concatenate/unique/argwhere/fancy assignment"],
    )
