"""C09 - samplers are scheduled exactly as the chosen scheduler prescribes (shared calibrator model)."""
from __future__ import annotations

import json

from props import calib_common as cc
from props import calib_family as cf


def gen_cases(chk):
    rng = chk.rng
    quick = chk.tier == "quick"
    cases = []
    n = 260 if quick else 2600
    for i in range(n):
        rl = i % 3 == 1
        c = cc.gen_case(rng, len(cases), max_ops=8 if quick else 14, max_samplers=6,
                        allow=("calibrate", "checkpoint", "restore") if i % 4 else
                        ("calibrate", "checkpoint", "restore", "set_samplers", "set_scheduler"), rl=rl, prec_prob=6)
        if not rl and i % 4 and i % 5 == 0:
            # a batch that raises (model, loss or sampler) is not recorded and must not consume a turn: after the retry,
            # batch i is still produced by sampler i mod n
            kind = rng.choice(["model", "loss", "sampler"])
            c["fault"] = ["sampler", rng.below(len(c["samplers"])), rng.below(3)] if kind == "sampler" else [kind, rng.below(10)]
            c["ops"] += [["calibrate", rng.randint(1, 3)], ["calibrate", rng.randint(1, 2)]]
        if rl:
            # reward is a relative improvement (prev - new) / prev: keep losses >= 0 (no division by zero), but do
            # include an exact zero, which is a legitimate best loss
            c["palette"] = [abs(x) + 0.125 for x in c["palette"]] + ([0.0, 0.0] if i % 2 else [])
            rng.shuffle(c["palette"])
        cases.append(c)
    # the four constructor combinations
    for has_s in (False, True):
        for has_sch in (False, True):
            c = cc.gen_case(rng, len(cases), max_ops=1, max_samplers=3)
            c["ctor_combo"] = [has_s, has_sch]
            c["ops"] = [["calibrate", 1]]
            if not has_s:
                c["samplers"] = None
            if has_sch:
                c["both"] = cc.gen_samplers(rng, 2, 20)
            cases.append(c)
    return cases


def nontrivial(c, o):
    return max((v["batchidx"] for v in o["views"]), default=0) >= 3


def bootstrap_cases(chk, stats):
    """_add_or_get_bootstrap_sampler on real sampler objects vs rl_bootstrap in Coq, and the direct oracle."""
    from black_it.samplers.halton import HaltonSampler
    from black_it.schedulers.rl.rl_scheduler import RLScheduler
    from common import clist, cnat

    rng = chk.rng
    lits, metas = [], []
    for _ in range(60 if chk.tier == "quick" else 600):
        n = rng.randint(1, 6)
        specs = [{"cls": (cc.HALTON_CLASS if rng.below(4) == 0 else rng.below(5)), "uid": i, "bs": rng.randint(1, 3)} for i in range(n)]
        objs = [cc.make_sampler(s) for s in specs]
        new, hid = RLScheduler._add_or_get_bootstrap_sampler(objs)  # noqa: SLF001
        new = list(new)
        classes = [cc.class_id(o) for o in new]
        stats["bootstrap:" + ("supplied" if cc.HALTON_CLASS in [s["cls"] for s in specs] else "added")] += 1
        # direct oracle
        sup = [s["cls"] for s in specs]
        ok = type(new[hid]) is HaltonSampler and all(a is b for a, b in zip(new, objs)) and \
            (len(new) == n if cc.HALTON_CLASS in sup else (len(new) == n + 1 and hid == n and new[-1].batch_size == 1))
        if not ok:
            chk.violation({"kind": "oracle", "clause": "rl-bootstrap-added"},
                          {"failed": "oracle:rl-bootstrap", "detail": f"supplied classes {sup} -> {classes}, bootstrap index {hid}", "case": {"bootstrap": sup}})
        lits.append(f"({clist([cnat(c) for c in sup])}, {clist([cnat(c) for c in classes])}, {cnat(hid)})")
        metas.append(sup)
    bad, errors = chk.coq_mismatches("C09boot", cc.IMPORTS, "check_bootstrap", "list nat * list nat * nat", lits, shard=200)
    for i in bad:
        chk.violation({"kind": "correspondence", "name": "rl_bootstrap"},
                      {"failed": "correspondence:rl_bootstrap", "case": {"bootstrap": metas[i]}, "coq_case": lits[i]}, no_input=True)
    for e in errors:
        chk.violation({"kind": "correspondence", "name": "coqc"}, {"failed": "correspondence:coqc", "detail": e}, no_input=True)
    return len(lits)


def run(chk, replay=None):
    chk.proof_gate()
    cases = [json.loads(open(replay).read())["case"]] if replay else gen_cases(chk)
    if replay and "bootstrap" in cases[0]:
        cases = []
    obs, bad, stats, keys, nontriv = cf.run_traces(chk, cases, cf.oracle_c09, nontrivial, label="C09")
    nboot = bootstrap_cases(chk, stats)
    cov = {
        "evaluations": len(cases) + nboot, "distinct": len(keys), "distinct_nontrivial": len(nontriv),
        "bootstrap_cases": nboot,
        "rule": "operation sequences on the real Calibrator with token samplers: round-robin line-ups of 1-6 samplers with splits "
                "into several calibrate() calls, checkpoints and restores; RL scheduler with a scripted agent (with / without / with "
                "several Halton samplers in the line-up); the four constructor argument combinations; non-trivial = at least 3 batches",
        "samples": cf.sample_cases(cases, obs),
        "traces_validated_against_impl": len(cases) - len(bad), "model_impl_disagreements": len(bad),
        "distribution": dict(sorted(stats.items())),
    }
    return chk.finish(cov, assumptions=cf.ASSUME + ["RL: the agent is an oracle of actions; the k-th sampler used is checked against the "
                      "k-th action the agent put on the queue (thread interleavings are C10's subject)"], trusted=cf.TRUSTED)
