"""C09 - samplers are scheduled exactly as the chosen scheduler prescribes (shared calibrator model)."""
from __future__ import annotations

import contextlib
import copy
import io
import json
import os
import shutil
import threading
from pathlib import Path

import numpy as np

from props import calib_common as cc
from props import calib_family as cf


def gen_cases(chk):
    rng = chk.rng
    quick = chk.tier == "quick"
    cases = []
    n = 260 if quick else 2600
    for i in range(n):
        rl = i % 3 == 1
        c = cc.gen_case(rng, len(cases), max_ops=8 if quick else 14, max_samplers=6,
                        allow=("calibrate", "checkpoint", "restore") if i % 4 else
                        ("calibrate", "checkpoint", "restore", "set_samplers", "set_scheduler"), rl=rl, prec_prob=6)
        if not rl and i % 4 and i % 5 == 0:
            # a batch that raises (model, loss or sampler) is not recorded and must not consume a turn: after the retry,
            # batch i is still produced by sampler i mod n
            kind = rng.choice(["model", "loss", "sampler"])
            c["fault"] = ["sampler", rng.below(len(c["samplers"])), rng.below(3)] if kind == "sampler" else [kind, rng.below(10)]
            c["ops"] += [["calibrate", rng.randint(1, 3)], ["calibrate", rng.randint(1, 2)]]
        if rl:
            # reward is a relative improvement (prev - new) / prev: keep losses >= 0 (no division by zero), but do
            # include an exact zero, which is a legitimate best loss
            c["palette"] = [abs(x) + 0.125 for x in c["palette"]] + ([0.0, 0.0] if i % 2 else [])
            rng.shuffle(c["palette"])
        cases.append(c)
    # the four constructor combinations
    for has_s in (False, True):
        for has_sch in (False, True):
            c = cc.gen_case(rng, len(cases), max_ops=1, max_samplers=3)
            c["ctor_combo"] = [has_s, has_sch]
            c["ops"] = [["calibrate", 1]]
            if not has_s:
                c["samplers"] = None
            if has_sch:
                c["both"] = cc.gen_samplers(rng, 2, 20)
            cases.append(c)
    return cases


def nontrivial(c, o):
    return max((v["batchidx"] for v in o["views"]), default=0) >= 3


def bootstrap_cases(chk, stats):
    """_add_or_get_bootstrap_sampler on real sampler objects vs rl_bootstrap in Coq, and the direct oracle."""
    from black_it.samplers.halton import HaltonSampler
    from black_it.schedulers.rl.rl_scheduler import RLScheduler
    from common import clist, cnat

    rng = chk.rng
    lits, metas = [], []
    for _ in range(60 if chk.tier == "quick" else 600):
        n = rng.randint(1, 6)
        specs = [{"cls": (cc.HALTON_CLASS if rng.below(4) == 0 else rng.below(5)), "uid": i, "bs": rng.randint(1, 3)} for i in range(n)]
        objs = [cc.make_sampler(s) for s in specs]
        new, hid = RLScheduler._add_or_get_bootstrap_sampler(objs)  # noqa: SLF001
        new = list(new)
        classes = [cc.class_id(o) for o in new]
        stats["bootstrap:" + ("supplied" if cc.HALTON_CLASS in [s["cls"] for s in specs] else "added")] += 1
        # direct oracle
        sup = [s["cls"] for s in specs]
        ok = type(new[hid]) is HaltonSampler and all(a is b for a, b in zip(new, objs)) and \
            (len(new) == n if cc.HALTON_CLASS in sup else (len(new) == n + 1 and hid == n and new[-1].batch_size == 1))
        if not ok:
            chk.violation({"kind": "oracle", "clause": "rl-bootstrap-added"},
                          {"failed": "oracle:rl-bootstrap", "detail": f"supplied classes {sup} -> {classes}, bootstrap index {hid}", "case": {"bootstrap": sup}})
        lits.append(f"({clist([cnat(c) for c in sup])}, {clist([cnat(c) for c in classes])}, {cnat(hid)})")
        metas.append(sup)
    bad, errors = chk.coq_mismatches("C09boot", cc.IMPORTS, "check_bootstrap", "list nat * list nat * nat", lits, shard=200)
    for i in bad:
        chk.violation({"kind": "correspondence", "name": "rl_bootstrap"},
                      {"failed": "correspondence:rl_bootstrap", "case": {"bootstrap": metas[i]}, "coq_case": lits[i]}, no_input=True)
    for e in errors:
        chk.violation({"kind": "correspondence", "name": "coqc"}, {"failed": "correspondence:coqc", "detail": e}, no_input=True)
    return len(lits)



# ======================================================================================================================
# Round 4 (generator sweep): extended trace runner, shared by C09, C14 and C18 (they import it from here).
#
# `run_case_x` executes the same kind of case as calib_common.run_case and understands further, optional keys that widen
# what the real Calibrator is given; absent keys give exactly the behaviour of calib_common.run_case:
#   lineup_repr  "list" | "tuple"    the sampler line-ups (constructor, RL scheduler, set_samplers, set_scheduler) are tuples
#   mutate_lineup  bool              after handing a *list* to the library the harness reverses its own list and appends a
#                                    foreign sampler to it: the line-up in force is the one that was handed over
#   bs_np        bool                batch sizes are numpy integers
#   n_repr       "int" | "np"        calibrate(np.int64(n))
#   prec_np      bool                the convergence precision is a numpy integer (only without a saving folder: json)
#   loss_repr    None | "np64" | "f32" | "0d" | "int"    type of the value the loss function returns
#   prefill      {...}               the folder already holds ANOTHER run (other line-up, other ensemble size) when the
#                                    calibrator is constructed
#   folder_repr  "str" | "path" | "slash"   how the folder is named in create_checkpoint / restore / the plotting helpers
#   rl.agent     {"alpha", "eps", "init"}   a real MABEpsilonGreedy agent (recording subclass) instead of the scripted one
#   want_names   bool                after every operation that leaves a checkpoint: plot_results._get_samplers_names on
#                                    the ids read from calibration_results.csv, as the plotting functions do
# and the operations
#   ["set_bs", uid, k]               sampler.batch_size = k on the live object uid
#   ["set_cfg", prec, verbose, saving]   calibrator.convergence_precision / .verbose / .saving_folder reassigned
# which the Coq model replays as XSetBsize / XSetCfg (coq/Model/CalibX.v).
XIMPORTS = "From Coq Require Import List ZArith QArith.\nFrom BlackIt Require Import Model.CalibX."
XCASE_T = "xcase"
FOREIGN_UID = 95


class TokLossX(cc.TokLoss):
    """The scripted loss, returning its value in another representation (the value itself is unchanged)."""

    def __init__(self, palette, salt, wrap=None):
        super().__init__(palette, salt)
        self.wrap = wrap

    def compute_loss(self, sim, real):
        x = super().compute_loss(sim, real)
        w = self.wrap
        if w == "np64":
            return np.float64(x)
        if w == "f32":
            return np.float32(x)          # the palette of such a case holds float32-representable values only
        if w == "0d":
            return np.array(x)
        if w == "int" and float(x).is_integer() and abs(x) < 2**53:
            return int(x)
        return x


def make_eps_agent(spec, n_actions):
    from black_it.schedulers.rl.agents.epsilon_greedy import MABEpsilonGreedy

    class _RecEps(MABEpsilonGreedy):
        def __init__(self):
            super().__init__(n_actions=n_actions, alpha=spec["alpha"], eps=spec["eps"], initial_values=spec["init"], random_state=0)
            self.actions, self.learned = [], []

        def policy(self, obs):
            a = super().policy(obs)
            self.actions.append(int(a))
            return a

        def learn(self, state, action, reward, next_state):
            self.learned.append((int(action), float(reward)))
            super().learn(state, action, reward, next_state)

    return _RecEps()


def named_halton_class():
    """A token sampler class whose NAME is HaltonSampler (for round-robin line-ups that are checkpointed: the tokenised real
    HaltonSampler of the RL cases carries an instance-level method and cannot be unpickled)."""
    if globals().get("HaltonSampler") is None:
        from black_it.samplers.base import BaseSampler

        def __init__(self, uid, bs, random_state=None, rows=None):
            BaseSampler.__init__(self, bs, random_state, max_deduplication_passes=0)
            self.tok_uid, self.tok_calls, self.tok_rows, self.seen = uid, 0, rows, []

        cls = type("HaltonSampler", (BaseSampler,), {"__init__": __init__, "sample_batch": cc._tok_sample_batch})  # noqa: SLF001
        cls.__module__ = __name__
        globals()["HaltonSampler"] = cls
    return globals()["HaltonSampler"]


def make_sampler_x(spec, case):
    if case.get("bs_np"):
        spec = dict(spec, bs=np.int64(spec["bs"]))
    if spec["cls"] == cc.HALTON_CLASS and case.get("rl") is None:
        return named_halton_class()(spec["uid"], spec["bs"], spec.get("seed"), spec.get("rows"))
    return cc.make_sampler(spec)


def _lineup(objs, case):
    return tuple(objs) if case.get("lineup_repr") == "tuple" else list(objs)


def _spoil(lst, case):
    """The caller goes on using its own list after handing it over."""
    if case.get("mutate_lineup") and isinstance(lst, list):
        lst.reverse()
        lst.append(cc.make_sampler({"cls": 5, "uid": FOREIGN_UID, "bs": 1}))


def _folder_arg(folder, case, ctor=False):
    r = case.get("folder_repr", "str")
    if r == "path" and not ctor:
        return Path(folder)
    if r == "slash":
        return str(folder) + "/"
    return str(folder)


def _prefill(folder, spec):
    from black_it.calibrator import Calibrator

    objs = [cc.make_sampler(s) for s in spec["samplers"]]
    with contextlib.redirect_stdout(io.StringIO()):
        c0 = Calibrator(loss_function=cc.TokLoss(spec["palette"], spec["salt"]), real_data=np.zeros((2, 1)), model=cc.tok_model,
                        parameters_bounds=[[0.0], [10.0]], parameters_precision=[1.0], ensemble_size=spec["E"], samplers=objs,
                        convergence_precision=None, verbose=False, saving_folder=str(folder), random_state=spec["seed"], n_jobs=1)
        c0.calibrate(spec["n"])


def plot_names(folder_arg):
    """(id, name) for the ids of calibration_results.csv, read and mapped as plot_convergence / plot_sampling do."""
    try:
        import pandas as pd
        from black_it.plot import plot_results

        ids = pd.read_csv(Path(folder_arg) / "calibration_results.csv")["method_samp"].unique()
        if len(ids) == 0:
            return []
        names = plot_results._get_samplers_names(folder_arg, ids)  # noqa: SLF001
        return [[int(i), str(n)] for i, n in zip(ids, names)]
    except Exception as e:  # noqa: BLE001
        return f"{type(e).__name__}: {e}"


def plot_table_x(folder_arg):
    try:
        from black_it.plot import plot_results

        t = plot_results._get_samplers_id_table(folder_arg)  # noqa: SLF001
        return [(cc.tok_class_index(k), int(v)) for k, v in t.items()]
    except Exception as e:  # noqa: BLE001
        return f"{type(e).__name__}: {e}"


def run_case_x(case, keep=False):
    from black_it.calibrator import Calibrator

    G = cc.G
    folder = cc.SCRATCH / f"{os.getpid()}" / f"xcase{case.get('idx', 0)}"
    if folder.exists():
        shutil.rmtree(folder)
    folder.mkdir(parents=True)
    G.update(fault=None, model_calls=0, loss_calls=0, flavour=None, hung=False)
    if case.get("prefill"):
        _prefill(folder, case["prefill"])
    G.update(fault=tuple(case["fault"]) if case.get("fault") else None, model_calls=0, loss_calls=0,
             flavour=case.get("fault_flavour"), hung=False)
    obs = {"ctor_exn": 0, "views": [], "actions": [], "rl": None, "loss_bad": [], "sampler_seen": {}}
    loss = TokLossX(case["palette"], case["salt"], case.get("loss_repr"))
    samplers = _lineup([make_sampler_x(s, case) for s in case["samplers"]], case) if case.get("samplers") is not None else None
    scheduler = agent = None

    def build_rl():
        from black_it.schedulers.rl.envs.mab import MABCalibrationEnv
        from black_it.schedulers.rl.rl_scheduler import RLScheduler

        rl_s = _lineup([make_sampler_x(s, case) for s in case["rl"]["samplers"]], case)
        has_h = any(s["cls"] == cc.HALTON_CLASS for s in case["rl"]["samplers"])
        if case["rl"].get("agent"):
            n_act = len(rl_s) + (0 if has_h else 1)
            ag = make_eps_agent(case["rl"]["agent"], n_act)
        else:
            n_act = len(rl_s) + 1
            ag = cc.make_agent(case["rl"]["script"])
        sch = RLScheduler(rl_s, ag, MABCalibrationEnv(n_act))
        _spoil(rl_s, case)
        for s in sch.samplers:
            if not hasattr(s, "tok_uid"):
                cc.tokenise_halton(s, 90)
        obs["rl"] = {"samplers": [(cc.class_id(s), s.tok_uid, int(s.batch_size)) for s in sch.samplers],
                     "halton_id": int(sch._halton_sampler_id)}  # noqa: SLF001
        return sch, ag

    cfg = case["cfg"]
    prec = cfg["prec"]
    if case.get("prec_np") and prec is not None:
        prec = np.int64(prec)
    sink = io.StringIO()
    try:
        with contextlib.redirect_stdout(sink):
            if case.get("rl") is not None:
                scheduler, agent = build_rl()
            if case.get("both") is not None:
                from black_it.schedulers.round_robin import RoundRobinScheduler

                scheduler = RoundRobinScheduler(_lineup([make_sampler_x(s, case) for s in case["both"]], case))
            cal = Calibrator(
                loss_function=loss, real_data=np.zeros((2, 1)), model=cc.tok_model,
                parameters_bounds=[[0.0], [10.0]], parameters_precision=[1.0], ensemble_size=cfg["E"],
                samplers=samplers, scheduler=scheduler,
                convergence_precision=prec, verbose=cfg["verbose"],
                saving_folder=_folder_arg(folder, case, ctor=True) if cfg["saving"] else None, random_state=case["seed"], n_jobs=1,
            )
    except Exception as e:  # noqa: BLE001
        obs["ctor_exn"] = cc.exn_code(e)
        obs["ctor_exc"] = f"{type(e).__name__}: {e}"
        shutil.rmtree(folder, ignore_errors=True)
        return obs
    _spoil(samplers, case)
    for op in case["ops"]:
        err, returned = None, []
        sink = io.StringIO()
        try:
            with contextlib.redirect_stdout(sink):
                if G.get("hung"):
                    raise TimeoutError("skipped: an earlier call of this case never returned")
                if op[0] == "calibrate":
                    n = np.int64(op[1]) if case.get("n_repr") == "np" else op[1]
                    p, l = cc.call_with_watchdog(lambda n=n: cal.calibrate(n)) if case.get("rl") else cal.calibrate(n)
                    returned = [(int(a[0]), float(b)) for a, b in zip(p, l)]
                elif op[0] == "checkpoint":
                    cal.create_checkpoint(_folder_arg(folder, case))
                elif op[0] == "restore":
                    cal = Calibrator.restore_from_checkpoint(_folder_arg(folder, case), model=cc.tok_model)
                elif op[0] == "set_samplers":
                    new = _lineup([make_sampler_x(s, case) for s in op[1]], case)
                    cal.set_samplers(new)
                    _spoil(new, case)
                elif op[0] == "set_scheduler":
                    from black_it.schedulers.round_robin import RoundRobinScheduler

                    new = _lineup([make_sampler_x(s, case) for s in op[1]], case)
                    cal.set_scheduler(RoundRobinScheduler(new))
                    _spoil(new, case)
                elif op[0] == "set_bs":
                    for s in {id(s): s for s in cal.scheduler.samplers}.values():
                        if getattr(s, "tok_uid", None) == op[1]:
                            s.batch_size = np.int64(op[2]) if case.get("bs_np") else op[2]
                elif op[0] == "set_cfg":
                    cal.convergence_precision = op[1]
                    cal.verbose = op[2]
                    cal.saving_folder = _folder_arg(folder, case, ctor=True) if op[3] else None
        except Exception as e:  # noqa: BLE001
            err = e
        except cc.TokInterrupt as e:
            err = e
        v = cc.core_view(cal)
        v["exn"] = cc.exn_code(err)
        v["exc"] = None if err is None else f"{type(err).__name__}: {err}"
        v["returned"] = returned
        v["disk"] = cc.disk_view(folder)
        v["threads"] = sum(1 for t in threading.enumerate() if t is not threading.main_thread() and t.is_alive())
        v["bsizes"] = [int(s.batch_size) for s in cal.scheduler.samplers]
        if agent is not None:
            v["nlearned"] = len(agent.learned)
        has_ckpt = (folder / "scheduler_pickled.pickle").exists()
        if case.get("want_plot") and has_ckpt:
            v["plot_table"] = plot_table_x(_folder_arg(folder, case))
        if case.get("want_names") and has_ckpt and (folder / "calibration_results.csv").exists():
            v["plot_names"] = plot_names(_folder_arg(folder, case))
        obs["views"].append(v)
    if agent is not None:
        obs["actions"] = list(agent.actions)
        obs["learned"] = list(agent.learned)
    obs["loss_bad"] = loss.bad
    cc.release_threads(cal)
    if not keep:
        shutil.rmtree(folder, ignore_errors=True)
    return obs


def c_xop(op):
    from common import cbool, cnat, copt

    if op[0] == "set_bs":
        return f"(XSetBsize {cnat(op[1])} {cnat(op[2])})"
    if op[0] == "set_cfg":
        return f"(XSetCfg {copt(op[1], cnat)} {cbool(op[2])} {cbool(op[3])})"
    return f"(XOp {cc.c_op(op)})"


def emit_xcase(case, obs):
    from common import cbool, clist, cnat, copt, cq, cz

    groups = [case.get("samplers") or [], (case.get("rl") or {}).get("samplers", []), case.get("both") or []]
    maxbs = 1
    for op in case["ops"]:
        if op[0] in ("set_samplers", "set_scheduler"):
            groups.append(op[1])
        if op[0] == "set_bs":
            maxbs = max(maxbs, op[2])
    nmax = max([len(g) + 1 for g in groups] + [1])
    maxbs = max([maxbs] + [max(s["bs"], s.get("rows") or 0) for g in groups for s in g])
    ndraws = 8 + sum(op[1] * maxbs * case["cfg"]["E"] + 2 * nmax + 2 for op in case["ops"] if op[0] == "calibrate")
    draws = [int(x) for x in np.random.default_rng(case["seed"]).integers(2**32 - 1, size=ndraws)]
    cfg = case["cfg"]
    samplers = "None" if case.get("samplers") is None else "(Some " + clist([cc.c_sampler(s) for s in case["samplers"]]) + ")"
    if obs.get("rl"):
        rl = ("(Some (" + clist([f"(mkS {cnat(c)} {cnat(u)} {cnat(b)} 0%nat None)" for c, u, b in obs["rl"]["samplers"]])
              + f", {cnat(obs['rl']['halton_id'])}))")
    else:
        rl = "None"
    rr = "None" if case.get("both") is None else "(Some " + clist([cc.c_sampler(s) for s in case["both"]]) + ")"
    base = ("(mkCase " + " ".join([
        clist([cq(x) for x in case["palette"]]), cz(case["salt"]), clist([cz(d) for d in draws]),
        clist([cnat(a) for a in obs.get("actions", [])]), cc.c_fault(case.get("fault")),
        f"(mkCfg {cnat(cfg['E'])} {copt(cfg['prec'], cnat)} {cbool(cfg['verbose'])} {cbool(cfg['saving'])})",
        samplers, rl, rr, cnat(obs["ctor_exn"]), "nil"]) + ")")
    ops = clist([f"({c_xop(op)}, {cc.c_view(v)})" for op, v in zip(case["ops"], obs["views"])])
    return f"(mkXCase {base} {ops})"


def run_traces_x(chk, cases, oracle, nontrivial, label="xtrace"):
    """cf.run_traces for extended cases (run_case_x, Model/CalibX.v)."""
    from collections import Counter

    observations = [run_case_x(c) for c in cases]
    lits = [emit_xcase(c, o) for c, o in zip(cases, observations)]
    bad, errors = chk.coq_mismatches(label, XIMPORTS, "check_xcase", XCASE_T, lits, shard=50) if lits else ([], [])
    stats = Counter()
    keys, nontriv = set(), set()
    for i, (c, o) in enumerate(zip(cases, observations)):
        key = json.dumps({k: c[k] for k in c if k != "idx"}, sort_keys=True)
        keys.add(key)
        if nontrivial(c, o):
            nontriv.add(key)
        for v in o["views"]:
            stats[f"x:exn={v['exn']}"] += 1
        for op in c["ops"]:
            stats[f"x:op={op[0]}"] += 1
        stats["x:rl" if c.get("rl") else "x:rr"] += 1
        for k in ("lineup_repr", "mutate_lineup", "bs_np", "n_repr", "prec_np", "loss_repr", "prefill", "folder_repr", "fault"):
            if c.get(k):
                stats[f"x:{k}" + (f"={c[k]}" if isinstance(c[k], str) else "")] += 1
        if (c.get("rl") or {}).get("agent"):
            stats["x:rl-eps-greedy" + ("-sample-average" if c["rl"]["agent"]["alpha"] == -1 else "")] += 1
        fails = oracle(c, o)
        seen = set()
        for clause, detail in fails:
            if clause in seen:
                continue
            seen.add(clause)
            chk.violation({"kind": "oracle", "clause": clause},
                          {"failed": f"oracle:{clause}", "detail": detail, "case": c,
                           "observed": [{k: v[k] for k in v if k != "series"} for v in o["views"]]})
        if i in bad and not fails:
            vals, _ = chk.coq_eval("firstbadx", XIMPORTS, [f"first_bad_x {lits[i]}"])
            chk.violation({"kind": "correspondence", "name": "Calibrator"},
                          {"failed": "correspondence:Model/CalibX.v + Model/Calibrator.v (model and implementation views disagree; "
                                     "the property oracle found no failing input)", "first_disagreeing_op": vals[0], "case": c,
                           "observed": [{k: v[k] for k in v if k != "series"} for v in o["views"]]}, no_input=True)
    for e in errors:
        chk.violation({"kind": "correspondence", "name": "coqc"}, {"failed": "correspondence:coqc", "detail": e}, no_input=True)
    return observations, bad, stats, keys, nontriv


def in_force(case, obs):
    """Per operation, the attribute values in force WHEN THE OPERATION RAN and what it produced:
    [(op, view, {bs: {uid: size}, prec, verbose, saving}, new batch groups, completed batches, wrote a checkpoint)].
    A successful restore returns to the values pickled with the checkpoint."""
    specs = cf.sampler_specs(case)
    cfg = case["cfg"]
    now = {"bs": {u: s["bs"] for u, s in specs.items()}, "prec": cfg["prec"], "verbose": cfg["verbose"], "saving": cfg["saving"]}
    now["bs"].setdefault(FOREIGN_UID, 1)
    disk = None
    out = []
    prev_groups, prev_bi = 0, 0
    for op, v in zip(case["ops"], obs["views"]):
        if op[0] == "set_bs":
            now["bs"][op[1]] = op[2]
        elif op[0] == "set_cfg":
            now.update(prec=op[1], verbose=op[2], saving=op[3])
        elif op[0] == "restore" and v["exn"] == 0 and disk is not None:
            now = copy.deepcopy(disk)
        gs = cf.groups_of(v)
        new = gs[prev_groups:] if op[0] == "calibrate" else []
        ran = v["batchidx"] - prev_bi if op[0] == "calibrate" else 0
        wrote = (op[0] == "checkpoint" and v["exn"] == 0) or \
                (op[0] == "calibrate" and now["saving"] and (ran > 0 or (op[1] == 0 and v["exn"] == 0)))
        out.append((op, v, copy.deepcopy(now), new, ran, wrote))
        if wrote:
            disk = copy.deepcopy(now)
        prev_groups, prev_bi = len(gs), v["batchidx"]
    return out


def oracle_c09_x(case, obs):
    """C09 on extended cases: the unchanged clauses of cf.oracle_c09 (they skip the round-robin clause when the case has
    operations other than calibrate/checkpoint/restore) + positions and batch sizes IN FORCE."""
    fails = cf.oracle_c09(case, obs)
    if case.get("ctor_combo") or obs["ctor_exn"]:
        return fails
    lineup_fixed = all(op[0] not in ("set_samplers", "set_scheduler") for op in case["ops"])
    for k, (op, v, now, new, ran, wrote) in enumerate(in_force(case, obs)):
        for u, c, idxs in new:
            if len(idxs) != now["bs"].get(u):
                fails.append(("batch-size-in-force", f"op {k}: a batch of sampler uid {u} has {len(idxs)} rows, its batch_size is {now['bs'].get(u)}"))
        if case.get("samplers") is not None and lineup_fixed:
            line = case["samplers"]
            for g, (u, c, idxs) in enumerate(cf.groups_of(v)):
                if u != line[g % len(line)]["uid"]:
                    fails.append(("round-robin", f"op {k}: batch {g} produced by sampler uid {u}, expected position {g % len(line)} "
                                                 f"(uid {line[g % len(line)]['uid']})"))
                    break
        if FOREIGN_UID in {u for u, _, _ in cf.groups_of(v)}:
            fails.append(("lineup-aliased", f"op {k}: a sampler the caller appended to its own list AFTER handing it over produced a batch"))
    return fails


def gen_xcases(chk):
    """Round 4: line-ups as tuples / lists the caller goes on changing, numpy-integer batch sizes and batch counts, batch sizes
    and calibrator attributes reassigned between calls, a real epsilon-greedy agent (constant and sample-average step), a
    saving folder that already holds another run, losses returned as numpy scalars / 0-d arrays."""
    rng = chk.rng
    quick = chk.tier == "quick"
    cases = []
    for i in range(200 if quick else 1000):
        kind = i % 5
        rl = kind in (1, 3)
        c = cc.gen_case(rng, len(cases), max_ops=6 if quick else 10, max_samplers=6,
                        allow=("calibrate", "checkpoint", "restore"), rl=rl, prec_prob=6)
        c["x"] = 1
        line = c["rl"]["samplers"] if rl else c["samplers"]
        uids = [s["uid"] for s in line]
        if rl:
            c["palette"] = [abs(x) + 0.125 for x in c["palette"]] + ([0.0, 0.0] if i % 2 else [])
            rng.shuffle(c["palette"])
            if all(s["cls"] != cc.HALTON_CLASS for s in line):
                uids.append(90)
            if kind == 3:
                c["rl"]["agent"] = {"alpha": rng.choice([-1, 0.1, 0.5]), "eps": rng.choice([0.0, 0.3, 1.0]),
                                    "init": rng.choice([0.0, 1.0])}
        c["lineup_repr"] = "tuple" if rng.below(2) else "list"
        c["mutate_lineup"] = c["lineup_repr"] == "list" and bool(rng.below(2))
        c["bs_np"] = rng.below(3) == 0
        c["n_repr"] = "np" if rng.below(3) == 0 else "int"
        c["loss_repr"] = rng.choice([None, None, "np64", "0d"])
        ops = []
        for op in c["ops"]:
            if rng.below(3) == 0:
                ops.append(["set_bs", rng.choice(uids), rng.randint(1, 4)])
            if rng.below(6) == 0:
                ops.append(["set_cfg", c["cfg"]["prec"] if rng.below(2) else None, bool(rng.below(2)), bool(rng.below(2)) and not rl])
            ops.append(op)
        c["ops"] = ops + [["calibrate", rng.randint(1, 3)]]
        if kind == 2:
            k = rng.choice(["model", "loss", "sampler"])
            c["fault"] = ["sampler", rng.below(len(line)), rng.below(3)] if k == "sampler" else [k, rng.below(10)]
            c["ops"] += [["calibrate", rng.randint(1, 2)]]
        if kind == 4:
            c["cfg"]["saving"] = True
            c["prefill"] = {"samplers": cc.gen_samplers(rng, rng.randint(1, 3), 140, 3), "n": rng.randint(1, 4),
                            "E": rng.randint(1, 3), "seed": rng.below(2**31), "palette": [1.0, 2.0, 3.0], "salt": rng.below(100)}
            c["ops"] = [["calibrate", rng.randint(0, 2)]] + c["ops"]
            c["folder_repr"] = rng.choice(["str", "path", "slash"])
        cases.append(c)
    # constructor combinations: tuples, and an RL scheduler as the `scheduler` argument
    for has_s in (False, True):
        for has_sch in (False, True):
            c = cc.gen_case(rng, len(cases), max_ops=1, max_samplers=3, rl=has_sch)
            c["x"] = 1
            c["ctor_combo"] = [has_s, has_sch]
            c["ops"] = [["calibrate", 1]]
            c["lineup_repr"] = "tuple"
            c["palette"] = [abs(x) + 0.125 for x in c["palette"]]
            c["samplers"] = cc.gen_samplers(rng, 2, 20) if has_s else None
            cases.append(c)
    return cases


def gen_direct(chk):
    """Line-ups that hold one sampler OBJECT at several positions, and one list of sampler objects given to two calibrators
    used alternately (after a rejected both-arguments constructor on the same list)."""
    rng = chk.rng
    out = []
    for i in range(40 if chk.tier == "quick" else 200):
        nobj = rng.randint(1, 4)
        objs = [{"cls": rng.below(4), "uid": j, "bs": rng.randint(1, 3)} for j in range(nobj)]
        if i % 2 == 0:
            pos = [rng.below(nobj) for _ in range(rng.randint(2, 6))]
            script = []
            for _ in range(rng.randint(1, 4)):
                script.append(rng.randint(0, 4))
                if rng.below(3) == 0:
                    script.append("restore")
            out.append({"kind": "shared", "objs": objs, "pos": pos, "script": script, "tuple": bool(rng.below(2)),
                        "seed": rng.below(2**31), "E": rng.randint(1, 2)})
        else:
            script = [[rng.choice("AB"), rng.randint(0, 3)] for _ in range(rng.randint(2, 6))]
            out.append({"kind": "two", "objs": objs, "script": script, "seed": rng.below(2**31), "E": 1})
    return out


def run_direct(d, tag=0):
    from black_it.calibrator import Calibrator
    from black_it.schedulers.round_robin import RoundRobinScheduler

    cc.G.update(fault=None, model_calls=0, loss_calls=0, flavour=None, hung=False)
    folder = cc.SCRATCH / f"{os.getpid()}" / f"direct{tag}"
    if folder.exists():
        shutil.rmtree(folder)
    folder.mkdir(parents=True)
    objs = [cc.make_sampler(s) for s in d["objs"]]
    fails = []

    def mk(line, seed):
        with contextlib.redirect_stdout(io.StringIO()):
            return Calibrator(loss_function=cc.TokLoss([1.0, 2.5, 0.5, 4.0], 7), real_data=np.zeros((2, 1)), model=cc.tok_model,
                              parameters_bounds=[[0.0], [10.0]], parameters_precision=[1.0], ensemble_size=d["E"], samplers=line,
                              verbose=False, random_state=seed, n_jobs=1)

    def judge(cal, pos, who):
        v = cc.core_view(cal)
        gs = cf.groups_of(v)
        if len(gs) != v["batchidx"]:
            fails.append(("round-robin", f"{who}: {len(gs)} batches recorded, batch counter {v['batchidx']}"))
        for g, (u, c, idxs) in enumerate(gs):
            want = d["objs"][pos[g % len(pos)]]
            if u != want["uid"]:
                fails.append(("round-robin", f"{who}: batch {g} produced by object uid {u}, position {g % len(pos)} holds uid {want['uid']}"))
                break
            if len(idxs) != want["bs"]:
                fails.append(("batch-size", f"{who}: batch {g} has {len(idxs)} rows, batch_size {want['bs']}"))
                break
        return len(gs)

    nb = 0
    try:
        with contextlib.redirect_stdout(io.StringIO()):
            if d["kind"] == "shared":
                line = [objs[j] for j in d["pos"]]
                cal = mk(tuple(line) if d["tuple"] else line, d["seed"])
                for st in d["script"]:
                    if st == "restore":
                        cal.create_checkpoint(str(folder))
                        cal = Calibrator.restore_from_checkpoint(str(folder), model=cc.tok_model)
                    else:
                        cal.calibrate(st)
                    nb = judge(cal, d["pos"], "shared-object line-up " + str(d["pos"]))
            else:
                pos = list(range(len(objs)))
                try:
                    Calibrator(loss_function=cc.TokLoss([1.0], 0), real_data=np.zeros((2, 1)), model=cc.tok_model,
                               parameters_bounds=[[0.0], [10.0]], parameters_precision=[1.0], ensemble_size=1, samplers=objs,
                               scheduler=RoundRobinScheduler(objs), verbose=False, random_state=1, n_jobs=1)
                    fails.append(("ctor", "samplers and scheduler both given: accepted"))
                except ValueError:
                    pass
                cals = {"A": mk(objs, d["seed"]), "B": mk(objs, d["seed"] + 1)}
                for who, n in d["script"]:
                    cals[who].calibrate(n)
                    for w in "AB":
                        nb = max(nb, judge(cals[w], pos, f"calibrator {w} of two sharing one sampler list"))
    except Exception as e:  # noqa: BLE001
        fails.append(("round-robin", f"unexpected {type(e).__name__}: {e}"))
    shutil.rmtree(folder, ignore_errors=True)
    return fails, nb


def direct_cases(chk, stats, only=None):
    ds = [only] if only is not None else gen_direct(chk)
    nontriv = 0
    for t, d in enumerate(ds):
        fails, nb = run_direct(d, t)
        stats[f"direct:{d['kind']}"] += 1
        nontriv += nb >= 3
        seen = set()
        for clause, detail in fails:
            if clause not in seen:
                seen.add(clause)
                chk.violation({"kind": "oracle", "clause": clause},
                              {"failed": f"oracle:{clause}", "detail": detail, "case": {"direct": d}})
    return len(ds), nontriv

def run(chk, replay=None):
    chk.proof_gate()
    cases = [json.loads(open(replay).read())["case"]] if replay else gen_cases(chk)
    xcases, direct_only, do_direct = [], None, not replay
    if replay and "bootstrap" in cases[0]:
        cases = []
    elif replay and "direct" in cases[0]:
        direct_only, do_direct, cases = cases[0]["direct"], True, []
    elif replay and cases[0].get("x"):
        xcases, cases = cases, []
    elif not replay:
        xcases = gen_xcases(chk)
    obs, bad, stats, keys, nontriv = cf.run_traces(chk, cases, cf.oracle_c09, nontrivial, label="C09", shard=50)
    xobs, xbad, xstats, xkeys, xnontriv = run_traces_x(chk, xcases, oracle_c09_x, nontrivial, label="C09x")
    stats.update(xstats)
    nboot = bootstrap_cases(chk, stats)
    ndirect, dnontriv = direct_cases(chk, stats, direct_only) if do_direct else (0, 0)
    cov = {
        "evaluations": len(cases) + len(xcases) + nboot + ndirect, "distinct": len(keys) + len(xkeys),
        "distinct_nontrivial": len(nontriv) + len(xnontriv) + dnontriv,
        "bootstrap_cases": nboot, "extended_cases": len(xcases), "direct_cases": ndirect,
        "rule": "operation sequences on the real Calibrator with token samplers: round-robin line-ups of 1-6 samplers with splits "
                "into several calibrate() calls, checkpoints and restores; RL scheduler with a scripted agent (with / without / with "
                "several Halton samplers in the line-up); the four constructor argument combinations; round 4: the same with "
                "line-ups given as tuples or as lists the caller changes afterwards, numpy-integer batch sizes / batch counts, "
                "batch_size and convergence_precision / verbose / saving_folder reassigned between calls (Model/CalibX.v), a real "
                "MABEpsilonGreedy agent, a saving folder holding another run, losses as numpy scalars / 0-d arrays; direct (oracle "
                "only): one sampler object at several positions, one sampler list shared by two calibrators; non-trivial = at "
                "least 3 batches",
        "samples": cf.sample_cases(cases, obs) + cf.sample_cases(xcases, xobs, 2),
        "traces_validated_against_impl": len(cases) - len(bad) + len(xcases) - len(xbad),
        "model_impl_disagreements": len(bad) + len(xbad),
        "distribution": dict(sorted(stats.items())),
    }
    return chk.finish(cov, assumptions=cf.ASSUME + ["RL: the agent is an oracle of actions; the k-th sampler used is checked against the "
                      "k-th action the agent put on the queue (thread interleavings are C10's subject)"], trusted=cf.TRUSTED)
