"""C09 - samplers are scheduled exactly as the chosen scheduler prescribes (shared calibrator model)."""
from __future__ import annotations

import json

from props import calib_common as cc
from props import calib_family as cf


def gen_cases(chk):
    rng = chk.rng
    quick = chk.tier == "quick"
    cases = []
    n = 260 if quick else 2600
    for i in range(n):
        rl = i % 3 == 1
        c = cc.gen_case(rng, len(cases), max_ops=8 if quick else 14, max_samplers=6,
                        allow=("calibrate", "checkpoint", "restore") if i % 4 else
                        ("calibrate", "checkpoint", "restore", "set_samplers", "set_scheduler"), rl=rl, prec_prob=6)
        if rl:
            c["palette"] = [abs(x) + 0.125 for x in c["palette"]]      # reward is a relative improvement: keep losses > 0
        cases.append(c)
    # the four constructor combinations
    for has_s in (False, True):
        for has_sch in (False, True):
            c = cc.gen_case(rng, len(cases), max_ops=1, max_samplers=3)
            c["ctor_combo"] = [has_s, has_sch]
            c["ops"] = [["calibrate", 1]]
            if not has_s:
                c["samplers"] = None
            if has_sch:
                c["both"] = cc.gen_samplers(rng, 2, 20)
            cases.append(c)
    return cases


def nontrivial(c, o):
    return max((v["batchidx"] for v in o["views"]), default=0) >= 3


def run(chk, replay=None):
    chk.proof_gate()
    cases = [json.loads(open(replay).read())["case"]] if replay else gen_cases(chk)
    obs, bad, stats, keys, nontriv = cf.run_traces(chk, cases, cf.oracle_c09, nontrivial, label="C09")
    cov = {
        "evaluations": len(cases), "distinct": len(keys), "distinct_nontrivial": len(nontriv),
        "rule": "operation sequences on the real Calibrator with token samplers: round-robin line-ups of 1-6 samplers with splits "
                "into several calibrate() calls, checkpoints and restores; RL scheduler with a scripted agent (with / without / with "
                "several Halton samplers in the line-up); the four constructor argument combinations; non-trivial = at least 3 batches",
        "samples": cf.sample_cases(cases, obs),
        "traces_validated_against_impl": len(cases) - len(bad), "model_impl_disagreements": len(bad),
        "distribution": dict(sorted(stats.items())),
    }
    return chk.finish(cov, assumptions=cf.ASSUME + ["RL: the agent is an oracle of actions; the k-th sampler used is checked against the "
                      "k-th action the agent put on the queue (thread interleavings are C10's subject)"], trusted=cf.TRUSTED)
