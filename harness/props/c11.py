"""C11 - a failing batch leaves the calibrator consistent and reusable (shared calibrator model)."""
from __future__ import annotations

import copy
import json

from props import calib_common as cc
from props import calib_family as cf


FLAVOURS = [None, "bare", "interrupt", "sysexit", "stopiter", "rich", "multiline"]


def gen_cases(chk):
    rng = chk.rng
    quick = chk.tier == "quick"
    cases = []
    max_b = 4 if quick else 6
    lineups = 10 if quick else 30
    for li in range(lineups):
        rl = li % 2 == 1
        with_prec = li % 3 == 2          # round 4: early stopping configured (it may end a session before the fault index is reached)
        base = cc.gen_case(rng, 0, max_ops=1, max_samplers=3, bs_max=2 if quick else 3, e_max=2 if quick else 3, rl=rl,
                           prec_prob=2 if with_prec else 10**9)
        if not with_prec:
            base["cfg"]["prec"] = None
        base["cfg"]["saving"] = (li % 4 >= 2) and not rl
        if rl:
            base["palette"] = [abs(x) + 0.125 for x in base["palette"]]
        nb = rng.randint(2, max_b)
        retry = 2 if rl else 1                # RL: the retry needs a bootstrap batch and an agent-chosen one
        # round 4: what happens between the failing session and the retry, and how many sessions the fault may land in
        shape = (li // 2) % 5
        window = 1
        if shape == 1:
            a = rng.randint(1, nb - 1)
            base["ops"] = [["calibrate", a], ["calibrate", nb - a], ["calibrate", retry]]       # several sessions before the fault
            window = 2
        elif shape == 2 or (shape in (3, 4) and rl):
            base["ops"] = [["calibrate", nb], ["calibrate", 0], ["calibrate", retry]]           # an empty session after the failing one
        elif shape == 3:
            base["ops"] = [["calibrate", nb], ["set_samplers", cc.gen_samplers(rng, rng.randint(1, 3), 10, 2)], ["calibrate", retry + 1]]
        elif shape == 4:
            base["cfg"]["saving"] = True
            base["ops"] = [["calibrate", nb], ["restore"], ["calibrate", retry]]                # back to the last checkpoint, then on
        else:
            base["ops"] = [["calibrate", nb], ["calibrate", retry]]
        # run once fault-free to learn how many invocations there are
        probe = cc.run_case(dict(base, idx=0))
        v = probe["views"][window - 1]
        n_model = v["nsampled"] * base["cfg"]["E"]
        n_loss = v["nsampled"]
        plans = [["model", k] for k in range(n_model)] + [["loss", k] for k in range(n_loss)]
        for uid, calls, _ in v["samplers"]:
            plans += [["sampler", uid, k] for k in range(calls)]
        if quick and len(plans) > 28:
            first = [p for p in plans if p[-1] == 0]          # faults in the very first batch are always kept
            rest = [p for p in plans if p[-1] != 0]
            rng.shuffle(rest)
            plans = first + rest[: max(0, 28 - len(first))]
        for j, f in enumerate(plans):
            c = copy.deepcopy(base)
            c["idx"], c["fault"] = len(cases), f
            fl = FLAVOURS[(j + li) % len(FLAVOURS)]
            if fl == "stopiter" and f[0] == "model":
                # joblib runs the model inside a generator: Python (PEP 479) turns a StopIteration escaping it into a RuntimeError
                # whose __cause__ is the original - not the calibrator's doing; the model gets the several-argument exception
                fl = "rich"
            if fl is not None:
                c["fault_flavour"] = fl
            if fl in ("bare", "rich", "multiline"):
                c["cfg"]["verbose"] = True
            cases.append(c)
    return cases


def genuine_fault_runs(chk, stats):
    """Faults that the built-in samplers raise THEMSELVES (not injected): a surrogate sampler refusing a history that holds
    a NaN loss next to losses outside the float32 range (XGBoost rejects NaN labels after it has prepared the labels), a
    best-batch sampler asked for more parents than there are points.  calibrate() must propagate the exception with the
    history exactly as it was before the call - every array bit for bit - and no thread left."""
    import contextlib
    import io
    import threading

    import numpy as np
    from black_it.calibrator import Calibrator

    from props import real_lineups as rl
    from props.c02 import ExtremeLoss

    rng = chk.rng
    n = 0
    surrogates = ["xgb", "xgb", "rf", "gp", "bestbatch", "cors", "pso"]
    for li in range(8 if chk.tier == "quick" else 60):
        kind = surrogates[li % len(surrogates)]
        kinds = [("halton", 2), (kind, 2 if kind != "bestbatch" else 9)]
        vals = [1.0, 1e39, 2.5, float("nan"), -3.5e38, 0.25, 3.0, float("nan"), 1e300]
        if li % 3 == 2:
            rng.shuffle(vals)
        samplers = [rl.make_sampler(k, bs, 5 + li) for k, bs in kinds]
        with contextlib.redirect_stdout(io.StringIO()):
            cal = Calibrator(loss_function=ExtremeLoss(vals), real_data=np.zeros((6, 1)),
                             model=lambda th, N, seed: np.full((N, 1), float(th[0])),  # noqa: N803
                             parameters_bounds=[[0.0, -1.0], [1.0, 1.0]], parameters_precision=[0.01, 0.01], ensemble_size=1,
                             samplers=samplers, verbose=False, random_state=rng.below(2**31), n_jobs=1)
        for b in range(6):
            before = {"params": cal.params_samp.tobytes(), "losses": cal.losses_samp.tobytes(), "series": cal.series_samp.tobytes(),
                      "bnums": cal.batch_num_samp.tobytes(), "methods": cal.method_samp.tobytes(),
                      "counters": (int(cal.n_sampled_params), int(cal.current_batch_index))}
            raised = None
            with contextlib.redirect_stdout(io.StringIO()), np.errstate(all="ignore"):
                try:
                    cal.calibrate(1)
                except Exception as e:  # noqa: BLE001
                    raised = f"{type(e).__name__}: {str(e)[:80]}"
            n += 1
            if raised is None:
                stats["genuine:batch completed"] += 1
                continue
            stats[f"genuine:raised:{kind}:{raised.split(':')[0]}"] += 1
            after = {"params": cal.params_samp.tobytes(), "losses": cal.losses_samp.tobytes(), "series": cal.series_samp.tobytes(),
                     "bnums": cal.batch_num_samp.tobytes(), "methods": cal.method_samp.tobytes(),
                     "counters": (int(cal.n_sampled_params), int(cal.current_batch_index))}
            changed = [k for k in before if before[k] != after[k]]
            alive = [t.name for t in threading.enumerate() if t is not threading.main_thread() and t.is_alive()
                     and not t.daemon]
            if changed or alive:
                chk.violation({"kind": "oracle", "clause": "genuine-fault-history-changed" if changed else "genuine-fault-thread-alive"},
                              {"failed": "oracle:fault", "detail": f"line-up {kinds}, losses script {vals}: batch {b} raised {raised}; "
                               f"changed by the failed call: {changed}; threads alive: {alive}",
                               "case": {"genuine": {"kinds": kinds, "vals": [repr(v) for v in vals], "batch": b}}})
                break
    return n


# ====================================================================================================================
# Round 4 (generator sweep): sequences of failing and clean sessions on the real Calibrator with real samplers, schedulers
# (round-robin, RL with a reward-driven agent) and a saving folder, instrumented by C02's audit (props/c02.py): several faults in
# a row, every exception flavour raised as the very instance that must come out of calibrate(), components re-assigned between
# the failure and the retry, a model answering with a wrong shape, faults under n_jobs > 1.  Direct oracle only (the Coq model
# has a single fault plan; its theorems are about one failing session followed by any operations).
# ====================================================================================================================
class RichError(Exception):
    def __init__(self, what, code, payload):
        super().__init__(what, code, payload)
        self.what = what

    def __str__(self):
        return f"{self.what}\n  second line ☠"


class SilentError(Exception):
    """its text cannot be produced (a reporting layer that formats the error must not replace it by another one)"""

    def __str__(self):
        raise TypeError("no text")


def make_exception(flavour, what):
    if flavour == "plain":
        return RuntimeError(f"{what} failed")
    if flavour == "bare":
        return ValueError()
    if flavour == "interrupt":
        return KeyboardInterrupt()
    if flavour == "sysexit":
        return SystemExit(3)
    if flavour == "stopiter":
        return StopIteration(what)
    if flavour == "rich":
        return RichError(what, 3, {"x": None})
    if flavour == "silent":
        return SilentError(what)
    if flavour == "genexit":
        return GeneratorExit()
    raise ValueError(flavour)


DIRECT_FLAVOURS = ["plain", "bare", "interrupt", "sysexit", "stopiter", "rich", "silent", "genexit"]


def gen_faulted_spec(rng, idx, quick):
    from props import c02

    rl = idx % 3 == 1
    d, D, L = rng.choice([1, 2]), rng.choice([1, 2]), rng.choice([3, 5])
    spec = {"family": "faulted", "d": d, "D": D, "L": L, "sim_length": rng.choice([None, None, 2, L + 2]), "E": rng.randint(1, 3),
            "E_np": False, "sched": "rl" if rl else "rr", "model": rng.choice(["plain", "list", "f32"]), "loss": "sum",
            "verbose": bool(rng.below(2)), "seed": rng.below(2 ** 31), "salt": rng.below(100), "kinds": [], "ops": [], "n_jobs": 1,
            "saving": (not rl) and idx % 2 == 0, "calls": []}
    nk = rng.randint(1, 3)
    for j in range(nk):
        kind = rng.choice(c02.PLAIN_KINDS + c02.HISTORY_KINDS)
        bs = rng.randint(1, 3)
        if kind in c02.HISTORY_KINDS and (j == 0 or rl):
            if rl:
                bs = 1
            else:
                kind = rng.choice(c02.PLAIN_KINDS)
        if j == 0 and not rl:
            bs = 3
        spec["kinds"].append([kind, bs, False])
    nfaults = rng.randint(1, 3)
    for f in range(nfaults):
        n = rng.randint(1, 3)
        kind = rng.choice(["model", "loss", "sampler", "model", "loss", "badshape"])
        rows = 2 * n                                   # an index beyond the session's invocations never fires (the call is clean)
        j = 0 if rng.below(3) == 0 else rng.below(max(1, rows * (spec["E"] if kind in ("model", "badshape") else 1)))
        if kind == "sampler":
            j = rng.below(n)
        flavour = DIRECT_FLAVOURS[(idx + f) % len(DIRECT_FLAVOURS)]
        if flavour == "stopiter" and kind == "model":
            flavour = "rich"
        fix = rng.choice([None, None, "model", "loss", "samplers", "zero"])
        if rl and fix == "samplers":
            fix = "zero"
        spec["calls"].append({"n": n, "fault": [kind, j, flavour, rng.below(nk)], "fix": fix})
        if rng.below(2):
            spec["calls"].append({"n": rng.randint(1, 2) + (1 if rl else 0), "fault": None, "fix": None})
    spec["calls"].append({"n": 2, "fault": None, "fix": None})
    return spec


def run_faulted_spec(spec, twin=None):
    """-> (fails, fired, final history as bytes).  `twin` = the final history of the same scenario without faults."""
    import contextlib
    import io
    import shutil
    import threading
    import warnings

    import numpy as np
    from black_it.calibrator import Calibrator

    from props import c02
    from props import real_lineups as rl_

    threads0 = set(threading.enumerate())
    cc.G["hung"] = False
    n_exp = spec["sim_length"] if spec["sim_length"] is not None else spec["L"]
    audit = c02.Audit(spec["D"], n_exp, spec["model"])
    folder = str(rl_.scratch(f"c11-direct-{spec['seed']}")) if spec.get("saving") else None
    cal, samplers, loss = c02.build_audited(spec, audit, saving_folder=folder)
    fails, fired, first_failure_checked = [], 0, False
    faults_on = twin is not None
    saved_model = cal.model            # the model in force when the folder was last written (its name is checked by restore)
    try:
        for ci, call in enumerate(spec["calls"]):
            plan, expect_any = {}, False
            f = call["fault"] if faults_on else None
            if f is not None:
                kind, j, flavour, pos = f
                if kind == "badshape":
                    plan[("badshape", j)] = True
                    expect_any = True
                elif kind == "sampler":           # the j-th sample() call of the session, whichever sampler is designated
                    plan[("sample", j)] = lambda fl=flavour: make_exception(fl, "sampler")
                else:
                    plan[(kind, j)] = lambda fl=flavour, k=kind: make_exception(fl, k)
            audit.begin_call(plan)
            b0 = int(cal.current_batch_index)
            err = ret = None
            with contextlib.redirect_stdout(io.StringIO()), warnings.catch_warnings(), np.errstate(all="ignore"):
                warnings.simplefilter("ignore")
                try:
                    if spec["sched"] == "rl":
                        ret = cc.call_with_watchdog(lambda n=call["n"]: cal.calibrate(n), timeout=60.0)
                    else:
                        ret = cal.calibrate(call["n"])
                except BaseException as e:  # noqa: BLE001
                    err = e
            did_fire = bool(audit.raised) or audit.badshape_fired
            audit.end_call(err is not None)
            where = f"call {ci} calibrate({call['n']}) with fault {f}"
            if isinstance(err, TimeoutError) and cc.G.get("hung"):
                fails.append(("reusable", f"{where}: calibrate() did not return (deadlock)"))
                break
            if did_fire:
                fired += 1
                if err is None:
                    fails.append(("propagates", f"{where}: the exception raised by the {f[0]} did not come out of calibrate()"))
                elif audit.raised and err is not audit.raised[0]:
                    fails.append(("propagates", f"{where}: calibrate() raised {type(err).__name__} instead of the "
                                                f"{type(audit.raised[0]).__name__} instance raised by the {f[0]}"))
            elif err is not None:
                fails.append(("reusable", f"{where}: no fault in this call, yet calibrate() raised {type(err).__name__}"))
            stage = "after-fault:" if err is not None else ("reusable:" if fired else "")
            for clause, detail in audit.verify(ret if err is None else None):
                fails.append((stage + clause, f"{where}: {detail}"))
            if err is None and int(cal.current_batch_index) != b0 + call["n"]:
                fails.append(("reusable", f"{where}: {int(cal.current_batch_index) - b0} batches ran"))
            left = [t.name for t in threading.enumerate() if t not in threads0 and t.is_alive() and t is not threading.main_thread()
                    and not t.name.startswith(("QueueManager", "ExecutorManager", "QueueFeeder"))]
            th = getattr(cal.scheduler, "_agent_thread", None)
            if left or (th is not None and th.is_alive()) or getattr(cal.scheduler, "_stopped", True) is not True:
                fails.append(("thread-left-running", f"{where}: threads {left} alive / session flag not reset after the call"))
            if err is not None and not first_failure_checked and twin is not None:
                first_failure_checked = True
                mine = rl_.history(cal)
                for key in ("params", "losses", "series", "bnums", "methods"):
                    if twin[key][: len(mine[key])] != mine[key]:
                        fails.append(("prefix-of-fault-free", f"{where}: {key} is not a prefix of the fault-free run"))
            if int(cal.current_batch_index) > b0:
                saved_model = cal.model
            if folder is not None and int(cal.current_batch_index) > 0:
                try:
                    with contextlib.redirect_stdout(io.StringIO()):
                        c2 = Calibrator.restore_from_checkpoint(folder, model=saved_model)
                    if int(c2.current_batch_index) != int(cal.current_batch_index) or c2.params_samp.tobytes() != cal.params_samp.tobytes() \
                            or c2.losses_samp.tobytes() != cal.losses_samp.tobytes():
                        fails.append(("folder-last-complete-batch", f"{where}: the folder holds batch {int(c2.current_batch_index)}, live "
                                                                    f"{int(cal.current_batch_index)}"))
                except Exception as e:  # noqa: BLE001
                    fails.append(("folder-last-complete-batch", f"{where}: the folder cannot be restored: {type(e).__name__} {str(e)[:200]}"))
            if fails:
                break
            # what the user does about the failure before trying again
            fix = call.get("fix") if (faults_on and err is not None) else None
            b = int(cal.current_batch_index)
            if fix == "model":
                cal.model = c02.audited_model_b
            elif fix == "loss":
                loss = c02.AuditLoss("sum", spec["D"], spec["salt"] + 1)
                cal.loss_function = loss
                audit.loss_epochs.append((b, loss))
            elif fix == "samplers":
                samplers = [c02.make_audited_sampler(k, bs, 31 + i) for i, (k, bs, _) in enumerate(spec["kinds"])]
                cal.set_samplers(samplers)
            elif fix == "zero":
                audit.begin_call({})
                with contextlib.redirect_stdout(io.StringIO()):
                    r0 = cc.call_with_watchdog(lambda: cal.calibrate(0), timeout=60.0) if spec["sched"] == "rl" else cal.calibrate(0)
                audit.end_call(False)
                for clause, detail in audit.verify(r0):
                    fails.append(("reusable:" + clause, f"{where} then calibrate(0): {detail}"))
        final = rl_.history(cal)
    finally:
        cc.release_threads(cal)
        c02._A = None  # noqa: SLF001
        if folder is not None:
            shutil.rmtree(folder, ignore_errors=True)
    return fails, fired, final


def faulted_audit_runs(chk, stats, only=None):
    rng = chk.rng
    quick = chk.tier == "quick"
    specs = [only] if only is not None else [gen_faulted_spec(rng, i, quick) for i in range(48 if quick else 480)]
    n = 0
    deadlocked = False
    for spec in specs:
        if deadlocked and spec["sched"] == "rl" and only is None:
            stats["direct:rl scenarios skipped after a deadlock was reported"] += 1      # each would cost a watchdog time-out
            continue
        _, _, twin = run_faulted_spec(spec, twin=None)
        fails, fired, _ = run_faulted_spec(spec, twin=twin)
        deadlocked = deadlocked or any("did not return" in d for _, d in fails)
        n += 1
        stats[f"direct:{spec['sched']}"] += 1
        stats["direct:faults fired"] += fired
        stats[f"direct:fired {min(fired, 3)} faults in a row"] += 1
        seen = set()
        for clause, detail in fails:
            if clause in seen:
                continue
            seen.add(clause)
            chk.violation({"kind": "oracle", "clause": clause, "with": "real-components"},
                          {"failed": f"oracle:{clause}", "detail": detail, "case": {"faulted": spec}})
    return n


def remote_faulty_model(theta, N, seed):  # noqa: N803
    """runs in a worker process (n_jobs > 1): refuses half of the parameter space"""
    import numpy as np

    if float(theta[0]) >= 3.5:
        raise ArithmeticError(f"the model diverges at {float(theta[0])}")
    return np.random.default_rng(seed).random((N, 1)) + float(theta[0])


def njobs_fault_runs(chk, stats):
    """A model failing in a worker process of joblib (n_jobs = 2): the same guarantees."""
    import contextlib
    import io

    import numpy as np
    from black_it.calibrator import Calibrator
    from black_it.loss_functions.minkowski import MinkowskiLoss

    from props import real_lineups as rl_

    rng = chk.rng
    n = 0
    for li in range(1 if chk.tier == "quick" else 4):
        kinds = [("uniform", 2), ("halton", 3)]
        samplers = [rl_.make_sampler(k, bs, 3 + li) for k, bs in kinds]
        with contextlib.redirect_stdout(io.StringIO()):
            cal = Calibrator(loss_function=MinkowskiLoss(), real_data=np.zeros((4, 1)), model=remote_faulty_model,
                             parameters_bounds=[[0.0], [4.0]], parameters_precision=[0.0625], ensemble_size=1 + li % 2, samplers=samplers,
                             verbose=False, random_state=rng.below(2 ** 31), n_jobs=2)
        for b in range(8):
            before = rl_.history(cal)
            raised = None
            with contextlib.redirect_stdout(io.StringIO()):
                try:
                    cal.calibrate(1)
                except Exception as e:  # noqa: BLE001
                    raised = e
            n += 1
            after = rl_.history(cal)
            if raised is None:
                stats["njobs:batch completed"] += 1
                ok = int(cal.current_batch_index) == before["shape"][3] + 1 and all(after[k][: len(before[k])] == before[k]
                                                                                     for k in ("params", "losses", "series", "bnums", "methods"))
                bad_rows = [i for i, p in enumerate(cal.params_samp) if float(p[0]) >= 3.5]
                if not ok or bad_rows:
                    chk.violation({"kind": "oracle", "clause": "reusable", "with": "n_jobs"},
                                  {"failed": "oracle:reusable", "detail": f"n_jobs=2, batch {b}: history not extended by one batch, or rows "
                                   f"{bad_rows} recorded for parameters on which the model raised", "case": {"njobs": li}})
                    break
                continue
            stats[f"njobs:raised:{type(raised).__name__}"] += 1
            changed = rl_.diff(before, after)
            if changed or not isinstance(raised, ArithmeticError):
                chk.violation({"kind": "oracle", "clause": "genuine-fault-history-changed" if changed else "propagates", "with": "n_jobs"},
                              {"failed": "oracle:fault", "detail": f"n_jobs=2, batch {b}: the model raised ArithmeticError in a worker; out of "
                               f"calibrate() came {type(raised).__name__}; changed by the failed call: {changed}", "case": {"njobs": li}})
                break
    return n


def run(chk, replay=None):
    import threading

    chk.proof_gate()
    # threads of the harness itself (vcheck's wall-limit timer) are not "started by the calibration"
    cc.G["ignore_threads"] = set(threading.enumerate())
    cases = [json.loads(open(replay).read())["case"]] if replay else gen_cases(chk)
    twins = {}

    def oracle(c, o):
        key = json.dumps({k: c[k] for k in c if k not in ("idx", "fault", "fault_flavour")}, sort_keys=True)
        if key not in twins:
            t = copy.deepcopy(c)
            t["fault"] = None
            twins[key] = cc.run_case(t)
        fails, fired = cf.oracle_c11(c, o, twins[key])
        o["fired"] = fired
        return fails

    only = cases[0].get("faulted") if replay else None
    if replay and ("genuine" in cases[0] or "faulted" in cases[0] or "njobs" in cases[0]):
        cases = []
    obs, bad, stats, keys, nontriv = cf.run_traces(chk, cases, oracle, lambda c, o: o.get("fired") or any(v["exn"] in (1, 2, 3) for v in o["views"]), label="C11")
    n_gen = genuine_fault_runs(chk, stats) if only is None else 0
    n_direct = faulted_audit_runs(chk, stats, only=only) if (only is not None or not replay) else 0
    n_direct += njobs_fault_runs(chk, stats) if not replay else 0
    cov = {
        "evaluations": len(cases) + n_gen + n_direct, "direct_fault_sequences": n_direct, "distinct": len(keys), "distinct_nontrivial": len(nontriv),
        "genuine_fault_batches": n_gen,
        "rule": "for each line-up (round-robin and RL with a scripted agent, with and without a saving folder, 2-4 batches quick / 2-6 "
                "thorough) an exception is injected at every invocation index of the model, the loss and each sampler (sub-sampled to "
                "28 per line-up in the quick tier); the run is followed by calibrate(1); compared with the fault-free twin; "
                "non-trivial = the fault fired; plus real built-in samplers that raise by themselves on histories with NaN / out-of-float32 "
                "losses or too few points (history bytes before = after the failed call); round 4: seven exception flavours, early stopping "
                "configured, several sessions / an empty session / set_samplers / a restore between failure and retry in the token traces; "
                "direct runs on real components with 1-3 failing sessions in a row (identity of the raised instance, C02's audit of the "
                "recorded rows, prefix of the fault-free twin, threads, folder), a model failing in a joblib worker (n_jobs=2)",
        "samples": cf.sample_cases(cases, obs),
        "traces_validated_against_impl": len(cases) - len(bad), "model_impl_disagreements": len(bad),
        "distribution": dict(sorted(stats.items())),
    }
    return chk.finish(cov, assumptions=cf.ASSUME, trusted=cf.TRUSTED)
