"""C11 - a failing batch leaves the calibrator consistent and reusable (shared calibrator model)."""
from __future__ import annotations

import copy
import json

from props import calib_common as cc
from props import calib_family as cf


def gen_cases(chk):
    rng = chk.rng
    quick = chk.tier == "quick"
    cases = []
    max_b = 4 if quick else 6
    lineups = 6 if quick else 14
    for li in range(lineups):
        rl = li % 2 == 1
        base = cc.gen_case(rng, 0, max_ops=1, max_samplers=3, bs_max=2, e_max=2, rl=rl, prec_prob=10**9)
        base["cfg"]["prec"] = None
        base["cfg"]["saving"] = (li % 4 >= 2) and not rl
        if rl:
            base["palette"] = [abs(x) + 0.125 for x in base["palette"]]
        nb = rng.randint(2, max_b)
        base["ops"] = [["calibrate", nb], ["calibrate", 2 if rl else 1]]     # RL: the retry needs a bootstrap batch and an agent-chosen one
        # run once fault-free to learn how many invocations there are
        probe = cc.run_case(dict(base, idx=0))
        v = probe["views"][0]
        n_model = v["nsampled"] * base["cfg"]["E"]
        n_loss = v["nsampled"]
        plans = [["model", k] for k in range(n_model)] + [["loss", k] for k in range(n_loss)]
        specs = base["rl"]["samplers"] if rl else base["samplers"]
        for uid, calls, _ in v["samplers"]:
            plans += [["sampler", uid, k] for k in range(calls)]
        if quick and len(plans) > 28:
            first = [p for p in plans if p[-1] == 0]          # faults in the very first batch are always kept
            rest = [p for p in plans if p[-1] != 0]
            rng.shuffle(rest)
            plans = first + rest[: max(0, 28 - len(first))]
        for j, f in enumerate(plans):
            c = copy.deepcopy(base)
            c["idx"], c["fault"] = len(cases), f
            if j % 3 == 2:
                c["fault_flavour"] = "interrupt"      # the same fault raised as a KeyboardInterrupt (a BaseException)
            elif j % 3 == 1:
                c["fault_flavour"] = "bare"           # an exception without a message
                c["cfg"]["verbose"] = True
            cases.append(c)
    return cases


def run(chk, replay=None):
    chk.proof_gate()
    cases = [json.loads(open(replay).read())["case"]] if replay else gen_cases(chk)
    twins = {}

    def oracle(c, o):
        key = json.dumps({k: c[k] for k in c if k not in ("idx", "fault", "fault_flavour")}, sort_keys=True)
        if key not in twins:
            t = copy.deepcopy(c)
            t["fault"] = None
            twins[key] = cc.run_case(t)
        fails, fired = cf.oracle_c11(c, o, twins[key])
        o["fired"] = fired
        return fails

    obs, bad, stats, keys, nontriv = cf.run_traces(chk, cases, oracle, lambda c, o: o.get("fired") or any(v["exn"] in (1, 2, 3) for v in o["views"]), label="C11")
    cov = {
        "evaluations": len(cases), "distinct": len(keys), "distinct_nontrivial": len(nontriv),
        "rule": "for each line-up (round-robin and RL with a scripted agent, with and without a saving folder, 2-4 batches quick / 2-6 "
                "thorough) an exception is injected at every invocation index of the model, the loss and each sampler (sub-sampled to "
                "28 per line-up in the quick tier); the run is followed by calibrate(1); compared with the fault-free twin; "
                "non-trivial = the fault fired",
        "samples": cf.sample_cases(cases, obs),
        "traces_validated_against_impl": len(cases) - len(bad), "model_impl_disagreements": len(bad),
        "distribution": dict(sorted(stats.items())),
    }
    return chk.finish(cov, assumptions=cf.ASSUME, trusted=cf.TRUSTED)
