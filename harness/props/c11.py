"""C11 - a failing batch leaves the calibrator consistent and reusable (shared calibrator model)."""
from __future__ import annotations

import copy
import json

from props import calib_common as cc
from props import calib_family as cf


def gen_cases(chk):
    rng = chk.rng
    quick = chk.tier == "quick"
    cases = []
    max_b = 4 if quick else 6
    lineups = 6 if quick else 14
    for li in range(lineups):
        rl = li % 2 == 1
        base = cc.gen_case(rng, 0, max_ops=1, max_samplers=3, bs_max=2, e_max=2, rl=rl, prec_prob=10**9)
        base["cfg"]["prec"] = None
        base["cfg"]["saving"] = (li % 4 >= 2) and not rl
        if rl:
            base["palette"] = [abs(x) + 0.125 for x in base["palette"]]
        nb = rng.randint(2, max_b)
        base["ops"] = [["calibrate", nb], ["calibrate", 2 if rl else 1]]     # RL: the retry needs a bootstrap batch and an agent-chosen one
        # run once fault-free to learn how many invocations there are
        probe = cc.run_case(dict(base, idx=0))
        v = probe["views"][0]
        n_model = v["nsampled"] * base["cfg"]["E"]
        n_loss = v["nsampled"]
        plans = [["model", k] for k in range(n_model)] + [["loss", k] for k in range(n_loss)]
        specs = base["rl"]["samplers"] if rl else base["samplers"]
        for uid, calls, _ in v["samplers"]:
            plans += [["sampler", uid, k] for k in range(calls)]
        if quick and len(plans) > 28:
            first = [p for p in plans if p[-1] == 0]          # faults in the very first batch are always kept
            rest = [p for p in plans if p[-1] != 0]
            rng.shuffle(rest)
            plans = first + rest[: max(0, 28 - len(first))]
        for j, f in enumerate(plans):
            c = copy.deepcopy(base)
            c["idx"], c["fault"] = len(cases), f
            if j % 3 == 2:
                c["fault_flavour"] = "interrupt"      # the same fault raised as a KeyboardInterrupt (a BaseException)
            elif j % 3 == 1:
                c["fault_flavour"] = "bare"           # an exception without a message
                c["cfg"]["verbose"] = True
            cases.append(c)
    return cases


def genuine_fault_runs(chk, stats):
    """Faults that the built-in samplers raise THEMSELVES (not injected): a surrogate sampler refusing a history that holds
    a NaN loss next to losses outside the float32 range (XGBoost rejects NaN labels after it has prepared the labels), a
    best-batch sampler asked for more parents than there are points.  calibrate() must propagate the exception with the
    history exactly as it was before the call - every array bit for bit - and no thread left."""
    import contextlib
    import io
    import threading

    import numpy as np
    from black_it.calibrator import Calibrator

    from props import real_lineups as rl
    from props.c02 import ExtremeLoss

    rng = chk.rng
    n = 0
    surrogates = ["xgb", "xgb", "rf", "gp", "bestbatch", "cors", "pso"]
    for li in range(8 if chk.tier == "quick" else 60):
        kind = surrogates[li % len(surrogates)]
        kinds = [("halton", 2), (kind, 2 if kind != "bestbatch" else 9)]
        vals = [1.0, 1e39, 2.5, float("nan"), -3.5e38, 0.25, 3.0, float("nan"), 1e300]
        if li % 3 == 2:
            rng.shuffle(vals)
        samplers = [rl.make_sampler(k, bs, 5 + li) for k, bs in kinds]
        with contextlib.redirect_stdout(io.StringIO()):
            cal = Calibrator(loss_function=ExtremeLoss(vals), real_data=np.zeros((6, 1)),
                             model=lambda th, N, seed: np.full((N, 1), float(th[0])),  # noqa: N803
                             parameters_bounds=[[0.0, -1.0], [1.0, 1.0]], parameters_precision=[0.01, 0.01], ensemble_size=1,
                             samplers=samplers, verbose=False, random_state=rng.below(2**31), n_jobs=1)
        for b in range(6):
            before = {"params": cal.params_samp.tobytes(), "losses": cal.losses_samp.tobytes(), "series": cal.series_samp.tobytes(),
                      "bnums": cal.batch_num_samp.tobytes(), "methods": cal.method_samp.tobytes(),
                      "counters": (int(cal.n_sampled_params), int(cal.current_batch_index))}
            raised = None
            with contextlib.redirect_stdout(io.StringIO()), np.errstate(all="ignore"):
                try:
                    cal.calibrate(1)
                except Exception as e:  # noqa: BLE001
                    raised = f"{type(e).__name__}: {str(e)[:80]}"
            n += 1
            if raised is None:
                stats["genuine:batch completed"] += 1
                continue
            stats[f"genuine:raised:{kind}:{raised.split(':')[0]}"] += 1
            after = {"params": cal.params_samp.tobytes(), "losses": cal.losses_samp.tobytes(), "series": cal.series_samp.tobytes(),
                     "bnums": cal.batch_num_samp.tobytes(), "methods": cal.method_samp.tobytes(),
                     "counters": (int(cal.n_sampled_params), int(cal.current_batch_index))}
            changed = [k for k in before if before[k] != after[k]]
            alive = [t.name for t in threading.enumerate() if t is not threading.main_thread() and t.is_alive()
                     and not t.daemon]
            if changed or alive:
                chk.violation({"kind": "oracle", "clause": "genuine-fault-history-changed" if changed else "genuine-fault-thread-alive"},
                              {"failed": "oracle:fault", "detail": f"line-up {kinds}, losses script {vals}: batch {b} raised {raised}; "
                               f"changed by the failed call: {changed}; threads alive: {alive}",
                               "case": {"genuine": {"kinds": kinds, "vals": [repr(v) for v in vals], "batch": b}}})
                break
    return n


def run(chk, replay=None):
    chk.proof_gate()
    cases = [json.loads(open(replay).read())["case"]] if replay else gen_cases(chk)
    twins = {}

    def oracle(c, o):
        key = json.dumps({k: c[k] for k in c if k not in ("idx", "fault", "fault_flavour")}, sort_keys=True)
        if key not in twins:
            t = copy.deepcopy(c)
            t["fault"] = None
            twins[key] = cc.run_case(t)
        fails, fired = cf.oracle_c11(c, o, twins[key])
        o["fired"] = fired
        return fails

    if replay and "genuine" in cases[0]:
        cases = []
    obs, bad, stats, keys, nontriv = cf.run_traces(chk, cases, oracle, lambda c, o: o.get("fired") or any(v["exn"] in (1, 2, 3) for v in o["views"]), label="C11")
    n_gen = genuine_fault_runs(chk, stats)
    cov = {
        "evaluations": len(cases) + n_gen, "distinct": len(keys), "distinct_nontrivial": len(nontriv),
        "genuine_fault_batches": n_gen,
        "rule": "for each line-up (round-robin and RL with a scripted agent, with and without a saving folder, 2-4 batches quick / 2-6 "
                "thorough) an exception is injected at every invocation index of the model, the loss and each sampler (sub-sampled to "
                "28 per line-up in the quick tier); the run is followed by calibrate(1); compared with the fault-free twin; "
                "non-trivial = the fault fired; plus real built-in samplers that raise by themselves on histories with NaN / out-of-float32 "
                "losses or too few points (history bytes before = after the failed call)",
        "samples": cf.sample_cases(cases, obs),
        "traces_validated_against_impl": len(cases) - len(bad), "model_impl_disagreements": len(bad),
        "distribution": dict(sorted(stats.items())),
    }
    return chk.finish(cov, assumptions=cf.ASSUME, trusted=cf.TRUSTED)
