"""C02 - the recorded history is aligned, truthful and append-only (shared calibrator model)."""
from __future__ import annotations

import json

from props import calib_common as cc
from props import calib_family as cf


def gen_cases(chk):
    rng = chk.rng
    quick = chk.tier == "quick"
    cases = []
    n_random = 220 if quick else 2400
    for i in range(n_random):
        cases.append(cc.gen_case(rng, len(cases), max_ops=8 if quick else 12, max_samplers=4 if quick else 6,
                                 rl=(i % 7 == 3), fault=(i % 9 == 4)))
    # ensemble x batch-size grid (separates np.repeat from np.tile, rows from members)
    for E in range(1, 5):
        for bs in range(1, 6):
            c = cc.gen_case(rng, len(cases), max_ops=1, max_samplers=1, e_max=1)
            c["cfg"]["E"] = E
            c["samplers"] = [{"cls": 0, "uid": 0, "bs": bs, "seed": None}, {"cls": 1, "uid": 1, "bs": 1 + (bs % 3), "seed": 5}]
            c["ops"] = [["calibrate", 2], ["calibrate", 1]]
            cases.append(c)
    return cases


def nontrivial(c, o):
    nb = max((v["batchidx"] for v in o["views"]), default=0)
    return nb >= 2 and any(op[0] != "calibrate" for op in c["ops"])


class ExtremeLoss:
    """A loss returning extreme but finite values (models with extreme outputs), scripted by call index."""

    def __init__(self, values):
        self.values, self.k = list(values), 0

    def compute_loss(self, sim, real):
        v = self.values[self.k % len(self.values)]
        self.k += 1
        return v


def extreme_runs(chk, stats):
    """Rows once recorded never change - with the REAL built-in samplers reading a history that holds extreme losses."""
    import contextlib
    import io

    import numpy as np
    from black_it.calibrator import Calibrator

    from props import real_lineups as rl

    rng = chk.rng
    n = 0
    kinds_all = ["xgb", "rf", "bestbatch", "pso", "cors", "gp"]
    for li in range(6 if chk.tier == "quick" else 36):
        kinds = [("halton", 3), (kinds_all[(li // 3) % len(kinds_all)], 2), (rng.choice(kinds_all[:5]), 2)]
        mode = li % 3          # which side of the float32 range the history exceeds: only below, only above, both
        vals = {0: [1.0, -1e39, float("-inf"), 2.5, -3.5e38, 0.25, -1e300],
                1: [1.0, 1e39, 3.5e38, 2.5, 1e300, 0.25, float("inf")],
                2: [1.0, 1e39, -1e39, 3.5e38, 2.5, 1e300, 0.25, -3.5e38]}[mode]
        stats[f"extreme:mode{mode}"] += 1
        rng.shuffle(vals)
        samplers = [rl.make_sampler(k, bs, 5) for k, bs in kinds]
        with contextlib.redirect_stdout(io.StringIO()):
            cal = Calibrator(loss_function=ExtremeLoss(vals), real_data=np.zeros((6, 1)), model=lambda th, N, seed: np.full((N, 1), float(th[0]) * 1e200),
                             parameters_bounds=[[0.0, -1.0], [1.0, 1.0]], parameters_precision=[0.01, 0.01], ensemble_size=1,
                             samplers=samplers, verbose=False, random_state=rng.below(2**31), n_jobs=1)
        prev = None
        for b in range(6):
            with contextlib.redirect_stdout(io.StringIO()), np.errstate(all="ignore"):
                try:
                    cal.calibrate(1)
                except Exception as e:  # noqa: BLE001  a surrogate may legitimately refuse such a history
                    stats[f"extreme:raised:{type(e).__name__}"] += 1
            snap = {"params": cal.params_samp.copy(), "losses": cal.losses_samp.copy(), "series": cal.series_samp.copy(),
                    "bnums": cal.batch_num_samp.copy(), "methods": cal.method_samp.copy()}
            n += 1
            stats["extreme:batches"] += 1
            if prev is not None:
                for key, old in prev.items():
                    if snap[key][: len(old)].tobytes() != old.tobytes():
                        chk.violation({"kind": "oracle", "clause": "append-only", "with": "real-samplers"},
                                      {"failed": "oracle:append-only", "detail": f"line-up {kinds}: {key} rows changed after batch {b} "
                                       f"(losses script {vals})", "case": {"extreme": {"kinds": kinds, "vals": vals}}})
            prev = snap
    return n


def dtype_runs(chk, stats):
    """Row i holds the series obtained by running the model on exactly that vector: whatever the dtype of the real data
    (integer counts, float32) the recorded series are the values the model returned, and the loss is computed on them."""
    import contextlib
    import io

    import numpy as np
    from black_it.calibrator import Calibrator
    from black_it.loss_functions.minkowski import MinkowskiLoss
    from black_it.samplers.halton import HaltonSampler
    from black_it.samplers.random_uniform import RandomUniformSampler

    rng = chk.rng
    n = 0
    for dt in (np.int64, np.float32, np.int32, np.float64):
        log = []

        def model(theta, N, seed, log=log):  # noqa: N803
            r = np.random.default_rng(seed)
            out = (float(theta[0]) * 1000.3 + r.random((N, 2)) * 1e3)
            log.append(out.copy())
            return out

        real = (np.arange(12).reshape(6, 2) * 37 % 11).astype(dt)
        E = rng.randint(1, 2)
        with contextlib.redirect_stdout(io.StringIO()):
            cal = Calibrator(loss_function=MinkowskiLoss(), real_data=real, model=model, parameters_bounds=[[0.0], [1.0]],
                             parameters_precision=[0.01], ensemble_size=E, samplers=[HaltonSampler(2), RandomUniformSampler(3)],
                             verbose=False, random_state=rng.below(2**31), n_jobs=1)
            cal.calibrate(3)
        n += 1
        stats[f"dtype:{np.dtype(dt).name}"] += 1
        want = np.array(log).reshape(cal.series_samp.shape)
        if cal.series_samp.dtype != np.float64 or cal.series_samp.tobytes() != want.astype(np.float64).tobytes():
            bad = int(np.argmax((cal.series_samp.astype(np.float64) != want).reshape(len(want), -1).any(axis=1)))
            chk.violation({"kind": "oracle", "clause": "series-of-param", "with": "real-data-dtype"},
                          {"failed": "oracle:series-of-param", "detail": f"real_data of dtype {np.dtype(dt).name}: recorded series (dtype "
                           f"{cal.series_samp.dtype}) of row {bad} are not the values the model returned "
                           f"({cal.series_samp[bad].ravel()[:3]} vs {want[bad].ravel()[:3]})", "case": {"dtype": np.dtype(dt).name}})
        relosses = [MinkowskiLoss().compute_loss(want[i], real) for i in range(len(want))]
        if [float(x) for x in relosses] != [float(x) for x in cal.losses_samp]:
            chk.violation({"kind": "oracle", "clause": "loss-of-series", "with": "real-data-dtype"},
                          {"failed": "oracle:loss-of-series", "detail": f"real_data of dtype {np.dtype(dt).name}: recorded losses are not the loss of "
                           "the series the model returned", "case": {"dtype": np.dtype(dt).name}})
    return n


def tiny_space_runs(chk, stats):
    """Alignment and truthfulness with the REAL built-in samplers on search spaces that are (nearly) exhausted: repeated
    vectors inside a batch and against the history are then unavoidable, and every record must still grow by batch_size rows
    per batch, each row holding one model run per ensemble member on exactly that vector."""
    import contextlib
    import io
    import warnings

    import numpy as np
    from black_it.calibrator import Calibrator
    from black_it.loss_functions.minkowski import MinkowskiLoss

    from props import real_lineups as rl

    rng = chk.rng
    n = 0
    for li in range(10 if chk.tier == "quick" else 80):
        npts = rng.randint(2, 6)
        dims = 1 if li % 3 else 2
        k = rng.randint(1, 3)
        kinds = [(rng.choice(["uniform", "uniform", "halton", "rseq"]), rng.randint(1, 3)) for _ in range(k)]
        E = rng.randint(1, 2)
        calls = []

        def model(theta, N, seed, calls=calls):  # noqa: N803
            out = np.random.default_rng(seed).random((N, 1)) + float(theta[0])
            calls.append((np.array(theta, dtype=float).copy(), out.copy()))
            return out

        real = np.linspace(0.0, 1.0, 5).reshape(5, 1)
        samplers = [rl.make_sampler(kd, bs, 3 + i) for i, (kd, bs) in enumerate(kinds)]
        case = {"tiny": {"npts": npts, "dims": dims, "kinds": kinds, "E": E}}
        with contextlib.redirect_stdout(io.StringIO()):
            cal = Calibrator(loss_function=MinkowskiLoss(), real_data=real, model=model,
                             parameters_bounds=[[0.0] * dims, [float(npts - 1)] + [1.0] * (dims - 1)], parameters_precision=[1.0] * dims,
                             ensemble_size=E, samplers=samplers, verbose=False, random_state=rng.below(2**31), n_jobs=1)
        exp_b, exp_m = [], []
        nb = min(8, 2 * npts)
        for b in range(nb):
            with contextlib.redirect_stdout(io.StringIO()), warnings.catch_warnings():
                warnings.simplefilter("ignore")
                cal.calibrate(1)
            kd, bs = kinds[b % k]
            exp_b += [b] * bs
            exp_m += [cal.samplers_id_table[type(samplers[b % k]).__name__]] * bs
            n += 1
            stats["tiny:batches"] += 1
            rows = len(exp_b)
            lens = {"params": len(cal.params_samp), "losses": len(cal.losses_samp), "series": len(cal.series_samp),
                    "bnums": len(cal.batch_num_samp), "methods": len(cal.method_samp), "counter": int(cal.n_sampled_params)}
            why = None
            if set(lens.values()) != {rows}:
                why = ("aligned", f"after batch {b} (sampler {kd}, batch_size {bs}) the records have lengths {lens}, expected {rows}")
            elif [int(x) for x in cal.batch_num_samp] != exp_b or [int(x) for x in cal.method_samp] != exp_m:
                why = ("labels", f"batch / sampler labels {list(map(int, cal.batch_num_samp))} / {list(map(int, cal.method_samp))}, "
                                 f"expected {exp_b} / {exp_m}")
            elif len(calls) != rows * E:
                why = ("series-of-param", f"{rows} rows x ensemble {E} recorded but the model was run {len(calls)} times")
            else:
                for i in range(rows):
                    for e in range(E):
                        th, out = calls[i * E + e]
                        if th.tobytes() != np.asarray(cal.params_samp[i], dtype=float).tobytes() or \
                                cal.series_samp[i, e].tobytes() != out.tobytes():
                            why = ("series-of-param", f"row {i} member {e}: recorded vector {cal.params_samp[i]} / series are not those "
                                                      f"of model run number {i * E + e} (vector {th})")
                            break
                    if why:
                        break
                    if float(cal.losses_samp[i]) != float(MinkowskiLoss().compute_loss(cal.series_samp[i], real)):
                        why = ("loss-of-series", f"row {i}: recorded loss is not the loss of the recorded series")
                        break
            if why:
                stats["tiny:duplicate rows"] += 0
                chk.violation({"kind": "oracle", "clause": why[0], "with": "tiny-space"},
                              {"failed": f"oracle:{why[0]}", "detail": f"grid of {npts} points x {dims} dims, line-up {kinds}, ensemble {E}: {why[1]}",
                               "case": case})
                break
        stats["tiny:rows repeated in history"] += int(len(cal.params_samp) - len({r.tobytes() for r in cal.params_samp}))
    return n


def run(chk, replay=None):
    chk.proof_gate()
    if replay:
        cases = [json.loads(open(replay).read())["case"]]
        if "extreme" in cases[0] or "dtype" in cases[0] or "tiny" in cases[0]:
            cases = []
    else:
        cases = gen_cases(chk)
    obs, bad, stats, keys, nontriv = cf.run_traces(chk, cases, cf.oracle_c02, nontrivial, label="C02")
    n_ext = extreme_runs(chk, stats)
    n_ext += dtype_runs(chk, stats)
    n_ext += tiny_space_runs(chk, stats)
    cov = {
        "evaluations": len(cases) + n_ext, "distinct": len(keys), "distinct_nontrivial": len(nontriv),
        "extreme_value_batches_with_real_samplers": n_ext,
        "rule": "random operation sequences {calibrate(n), create_checkpoint, restore, set_samplers, set_scheduler} on the real "
                "Calibrator with token samplers/model/loss (1-6 samplers, batch sizes 1-4, ensemble 1-3, RR and RL schedulers, some "
                "with an injected fault) plus the ensemble(1-4) x batch-size(1-5) grid; non-trivial = at least 2 batches and one "
                "operation other than calibrate; distinct = distinct case description",
        "samples": cf.sample_cases(cases, obs),
        "traces_validated_against_impl": len(cases) - len(bad), "model_impl_disagreements": len(bad),
        "distribution": dict(sorted(stats.items())),
    }
    return chk.finish(cov, assumptions=cf.ASSUME + ["samplers return batch_size rows (C03/C12) and do not modify the history (C16)"],
                      trusted=cf.TRUSTED)
