"""C02 - the recorded history is aligned, truthful and append-only (shared calibrator model)."""
from __future__ import annotations

import json

from props import calib_common as cc
from props import calib_family as cf


def gen_cases(chk):
    rng = chk.rng
    quick = chk.tier == "quick"
    cases = []
    n_random = 220 if quick else 2400
    for i in range(n_random):
        cases.append(cc.gen_case(rng, len(cases), max_ops=8 if quick else 12, max_samplers=4 if quick else 6,
                                 rl=(i % 7 == 3), fault=(i % 9 == 4)))
    # ensemble x batch-size grid (separates np.repeat from np.tile, rows from members)
    for E in range(1, 5):
        for bs in range(1, 6):
            c = cc.gen_case(rng, len(cases), max_ops=1, max_samplers=1, e_max=1)
            c["cfg"]["E"] = E
            c["samplers"] = [{"cls": 0, "uid": 0, "bs": bs, "seed": None}, {"cls": 1, "uid": 1, "bs": 1 + (bs % 3), "seed": 5}]
            c["ops"] = [["calibrate", 2], ["calibrate", 1]]
            cases.append(c)
    return cases


def nontrivial(c, o):
    nb = max((v["batchidx"] for v in o["views"]), default=0)
    return nb >= 2 and any(op[0] != "calibrate" for op in c["ops"])


def run(chk, replay=None):
    chk.proof_gate()
    if replay:
        cases = [json.loads(open(replay).read())["case"]]
    else:
        cases = gen_cases(chk)
    obs, bad, stats, keys, nontriv = cf.run_traces(chk, cases, cf.oracle_c02, nontrivial, label="C02")
    cov = {
        "evaluations": len(cases), "distinct": len(keys), "distinct_nontrivial": len(nontriv),
        "rule": "random operation sequences {calibrate(n), create_checkpoint, restore, set_samplers, set_scheduler} on the real "
                "Calibrator with token samplers/model/loss (1-6 samplers, batch sizes 1-4, ensemble 1-3, RR and RL schedulers, some "
                "with an injected fault) plus the ensemble(1-4) x batch-size(1-5) grid; non-trivial = at least 2 batches and one "
                "operation other than calibrate; distinct = distinct case description",
        "samples": cf.sample_cases(cases, obs),
        "traces_validated_against_impl": len(cases) - len(bad), "model_impl_disagreements": len(bad),
        "distribution": dict(sorted(stats.items())),
    }
    return chk.finish(cov, assumptions=cf.ASSUME + ["samplers return batch_size rows (C03/C12) and do not modify the history (C16)"],
                      trusted=cf.TRUSTED)
