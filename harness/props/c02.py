"""C02 - the recorded history is aligned, truthful and append-only (shared calibrator model)."""
from __future__ import annotations

import json

from props import calib_common as cc
from props import calib_family as cf


def gen_cases(chk):
    rng = chk.rng
    quick = chk.tier == "quick"
    cases = []
    n_random = 220 if quick else 2400
    for i in range(n_random):
        cases.append(cc.gen_case(rng, len(cases), max_ops=8 if quick else 12, max_samplers=4 if quick else 6,
                                 rl=(i % 7 == 3), fault=(i % 9 == 4)))
    # round 4: losses that differ by one unit in the last place, at the 1e8 level and next to zero (the returned pairs must be
    # ordered by the exact loss values), and a simulation length different from the length of the real data
    for i, c in enumerate(cases):
        if i % 5 == 1 and c["cfg"]["prec"] is None:
            k0 = rng.below(len(TOKEN_TIES))
            c["palette"] += [TOKEN_TIES[(k0 + j) % len(TOKEN_TIES)] for j in range(rng.randint(2, 5))]
        if i % 4 == 2:
            c["cfg"]["sim_length"] = rng.choice([3, 5, 2])
    # ensemble x batch-size grid (separates np.repeat from np.tile, rows from members)
    for E in range(1, 5):
        for bs in range(1, 6):
            c = cc.gen_case(rng, len(cases), max_ops=1, max_samplers=1, e_max=1)
            c["cfg"]["E"] = E
            c["samplers"] = [{"cls": 0, "uid": 0, "bs": bs, "seed": None}, {"cls": 1, "uid": 1, "bs": 1 + (bs % 3), "seed": 5}]
            c["ops"] = [["calibrate", 2], ["calibrate", 1]]
            cases.append(c)
    return cases


# consecutive entries are neighbours (or nearly): a palette slice always holds a near-tie; all positive (fit for the RL reward)
TOKEN_TIES = [1.0 - 2.0 ** -53, 1.0, 1.0 + 2.0 ** -52, 1.0000001, 1.00000011, 1e8, 1e8 + 2.0 ** -26, 0.3, 0.1 + 0.2, 123456.789,
              123456.78900000002]


def oracle_with_length(c, o):
    """C02's oracle on the token traces + `with the configured simulation length` (round 4)."""
    fails = cf.oracle_c02(c, o)
    want = c["cfg"].get("sim_length") or 2
    for k, v in enumerate(o["views"]):
        if v["series_shape"] != [v["nsampled"], c["cfg"]["E"], want, 1]:
            fails.append(("series-of-param", f"op {k}: series record of shape {v['series_shape']}, configured simulation length {want}, "
                                             f"ensemble {c['cfg']['E']}, {v['nsampled']} rows"))
            break
    return fails


def nontrivial(c, o):
    nb = max((v["batchidx"] for v in o["views"]), default=0)
    return nb >= 2 and any(op[0] != "calibrate" for op in c["ops"])


class ExtremeLoss:
    """A loss returning extreme but finite values (models with extreme outputs), scripted by call index."""

    def __init__(self, values):
        self.values, self.k = list(values), 0

    def compute_loss(self, sim, real):
        v = self.values[self.k % len(self.values)]
        self.k += 1
        return v


def extreme_runs(chk, stats):
    """Rows once recorded never change - with the REAL built-in samplers reading a history that holds extreme losses."""
    import contextlib
    import io

    import numpy as np
    from black_it.calibrator import Calibrator

    from props import real_lineups as rl

    rng = chk.rng
    n = 0
    kinds_all = ["xgb", "rf", "bestbatch", "pso", "cors", "gp"]
    for li in range(12 if chk.tier == "quick" else 48):
        kinds = [("halton", 3), (kinds_all[(li // 3) % len(kinds_all)] if li % 4 != 3 else ("gp", "rf", "xgb")[(li // 4) % 3], 2),
                 (rng.choice(kinds_all[:5]), 2)]
        mode = li % 4          # which side of the float32 range the history exceeds: only below, only above, both; 3: NaN losses
        vals = {0: [1.0, -1e39, float("-inf"), 2.5, -3.5e38, 0.25, -1e300],
                1: [1.0, 1e39, 3.5e38, 2.5, 1e300, 0.25, float("inf")],
                2: [1.0, 1e39, -1e39, 3.5e38, 2.5, 1e300, 0.25, -3.5e38],
                # losses of diverged simulations: a surrogate may refuse such a history or impute the missing values for
                # its own fit - the recorded NaN must stay a NaN
                3: [1.0, float("nan"), 2.5, 0.25, float("nan"), 3.0, 0.5]}[mode]
        stats[f"extreme:mode{mode}"] += 1
        rng.shuffle(vals)
        samplers = [rl.make_sampler(k, bs, 5) for k, bs in kinds]
        with contextlib.redirect_stdout(io.StringIO()):
            cal = Calibrator(loss_function=ExtremeLoss(vals), real_data=np.zeros((6, 1)), model=lambda th, N, seed: np.full((N, 1), float(th[0]) * 1e200),
                             parameters_bounds=[[0.0, -1.0], [1.0, 1.0]], parameters_precision=[0.01, 0.01], ensemble_size=1,
                             samplers=samplers, verbose=False, random_state=rng.below(2**31), n_jobs=1)
        prev = None
        for b in range(6):
            with contextlib.redirect_stdout(io.StringIO()), np.errstate(all="ignore"):
                try:
                    cal.calibrate(1)
                except Exception as e:  # noqa: BLE001  a surrogate may legitimately refuse such a history
                    stats[f"extreme:raised:{type(e).__name__}"] += 1
            snap = {"params": cal.params_samp.copy(), "losses": cal.losses_samp.copy(), "series": cal.series_samp.copy(),
                    "bnums": cal.batch_num_samp.copy(), "methods": cal.method_samp.copy()}
            n += 1
            stats["extreme:batches"] += 1
            if prev is not None:
                for key, old in prev.items():
                    if snap[key][: len(old)].tobytes() != old.tobytes():
                        chk.violation({"kind": "oracle", "clause": "append-only", "with": "real-samplers"},
                                      {"failed": "oracle:append-only", "detail": f"line-up {kinds}: {key} rows changed after batch {b} "
                                       f"(losses script {vals})", "case": {"extreme": {"kinds": kinds, "vals": vals}}})
            prev = snap
    return n


def dtype_runs(chk, stats):
    """Row i holds the series obtained by running the model on exactly that vector: whatever the dtype of the real data
    (integer counts, float32) the recorded series are the values the model returned, and the loss is computed on them."""
    import contextlib
    import io

    import numpy as np
    from black_it.calibrator import Calibrator
    from black_it.loss_functions.minkowski import MinkowskiLoss
    from black_it.samplers.halton import HaltonSampler
    from black_it.samplers.random_uniform import RandomUniformSampler

    rng = chk.rng
    n = 0
    for dt in (np.int64, np.float32, np.int32, np.float64):
        log = []

        def model(theta, N, seed, log=log):  # noqa: N803
            r = np.random.default_rng(seed)
            out = (float(theta[0]) * 1000.3 + r.random((N, 2)) * 1e3)
            log.append(out.copy())
            return out

        real = (np.arange(12).reshape(6, 2) * 37 % 11).astype(dt)
        E = rng.randint(1, 2)
        with contextlib.redirect_stdout(io.StringIO()):
            cal = Calibrator(loss_function=MinkowskiLoss(), real_data=real, model=model, parameters_bounds=[[0.0], [1.0]],
                             parameters_precision=[0.01], ensemble_size=E, samplers=[HaltonSampler(2), RandomUniformSampler(3)],
                             verbose=False, random_state=rng.below(2**31), n_jobs=1)
            cal.calibrate(3)
        n += 1
        stats[f"dtype:{np.dtype(dt).name}"] += 1
        want = np.array(log).reshape(cal.series_samp.shape)
        if cal.series_samp.dtype != np.float64 or cal.series_samp.tobytes() != want.astype(np.float64).tobytes():
            bad = int(np.argmax((cal.series_samp.astype(np.float64) != want).reshape(len(want), -1).any(axis=1)))
            chk.violation({"kind": "oracle", "clause": "series-of-param", "with": "real-data-dtype"},
                          {"failed": "oracle:series-of-param", "detail": f"real_data of dtype {np.dtype(dt).name}: recorded series (dtype "
                           f"{cal.series_samp.dtype}) of row {bad} are not the values the model returned "
                           f"({cal.series_samp[bad].ravel()[:3]} vs {want[bad].ravel()[:3]})", "case": {"dtype": np.dtype(dt).name}})
        relosses = [MinkowskiLoss().compute_loss(want[i], real) for i in range(len(want))]
        if [float(x) for x in relosses] != [float(x) for x in cal.losses_samp]:
            chk.violation({"kind": "oracle", "clause": "loss-of-series", "with": "real-data-dtype"},
                          {"failed": "oracle:loss-of-series", "detail": f"real_data of dtype {np.dtype(dt).name}: recorded losses are not the loss of "
                           "the series the model returned", "case": {"dtype": np.dtype(dt).name}})
    return n


def tiny_space_runs(chk, stats):
    """Alignment and truthfulness with the REAL built-in samplers on search spaces that are (nearly) exhausted: repeated
    vectors inside a batch and against the history are then unavoidable, and every record must still grow by batch_size rows
    per batch, each row holding one model run per ensemble member on exactly that vector."""
    import contextlib
    import io
    import warnings

    import numpy as np
    from black_it.calibrator import Calibrator
    from black_it.loss_functions.minkowski import MinkowskiLoss

    from props import real_lineups as rl

    rng = chk.rng
    n = 0
    for li in range(10 if chk.tier == "quick" else 80):
        npts = rng.randint(2, 6)
        dims = 1 if li % 3 else 2
        k = rng.randint(1, 3)
        kinds = [(rng.choice(["uniform", "uniform", "halton", "rseq"]), rng.randint(1, 3)) for _ in range(k)]
        E = rng.randint(1, 2)
        calls = []

        def model(theta, N, seed, calls=calls):  # noqa: N803
            out = np.random.default_rng(seed).random((N, 1)) + float(theta[0])
            calls.append((np.array(theta, dtype=float).copy(), out.copy()))
            return out

        real = np.linspace(0.0, 1.0, 5).reshape(5, 1)
        samplers = [rl.make_sampler(kd, bs, 3 + i) for i, (kd, bs) in enumerate(kinds)]
        case = {"tiny": {"npts": npts, "dims": dims, "kinds": kinds, "E": E}}
        with contextlib.redirect_stdout(io.StringIO()):
            cal = Calibrator(loss_function=MinkowskiLoss(), real_data=real, model=model,
                             parameters_bounds=[[0.0] * dims, [float(npts - 1)] + [1.0] * (dims - 1)], parameters_precision=[1.0] * dims,
                             ensemble_size=E, samplers=samplers, verbose=False, random_state=rng.below(2**31), n_jobs=1)
        exp_b, exp_m = [], []
        nb = min(8, 2 * npts)
        for b in range(nb):
            with contextlib.redirect_stdout(io.StringIO()), warnings.catch_warnings():
                warnings.simplefilter("ignore")
                cal.calibrate(1)
            kd, bs = kinds[b % k]
            exp_b += [b] * bs
            exp_m += [cal.samplers_id_table[type(samplers[b % k]).__name__]] * bs
            n += 1
            stats["tiny:batches"] += 1
            rows = len(exp_b)
            lens = {"params": len(cal.params_samp), "losses": len(cal.losses_samp), "series": len(cal.series_samp),
                    "bnums": len(cal.batch_num_samp), "methods": len(cal.method_samp), "counter": int(cal.n_sampled_params)}
            why = None
            if set(lens.values()) != {rows}:
                why = ("aligned", f"after batch {b} (sampler {kd}, batch_size {bs}) the records have lengths {lens}, expected {rows}")
            elif [int(x) for x in cal.batch_num_samp] != exp_b or [int(x) for x in cal.method_samp] != exp_m:
                why = ("labels", f"batch / sampler labels {list(map(int, cal.batch_num_samp))} / {list(map(int, cal.method_samp))}, "
                                 f"expected {exp_b} / {exp_m}")
            elif len(calls) != rows * E:
                why = ("series-of-param", f"{rows} rows x ensemble {E} recorded but the model was run {len(calls)} times")
            else:
                for i in range(rows):
                    for e in range(E):
                        th, out = calls[i * E + e]
                        if th.tobytes() != np.asarray(cal.params_samp[i], dtype=float).tobytes() or \
                                cal.series_samp[i, e].tobytes() != out.tobytes():
                            why = ("series-of-param", f"row {i} member {e}: recorded vector {cal.params_samp[i]} / series are not those "
                                                      f"of model run number {i * E + e} (vector {th})")
                            break
                    if why:
                        break
                    if float(cal.losses_samp[i]) != float(MinkowskiLoss().compute_loss(cal.series_samp[i], real)):
                        why = ("loss-of-series", f"row {i}: recorded loss is not the loss of the recorded series")
                        break
            if why:
                stats["tiny:duplicate rows"] += 0
                chk.violation({"kind": "oracle", "clause": why[0], "with": "tiny-space"},
                              {"failed": f"oracle:{why[0]}", "detail": f"grid of {npts} points x {dims} dims, line-up {kinds}, ensemble {E}: {why[1]}",
                               "case": case})
                break
        stats["tiny:rows repeated in history"] += int(len(cal.params_samp) - len({r.tobytes() for r in cal.params_samp}))
    return n


# ====================================================================================================================
# Round 4 (generator sweep): audited runs.  The real Calibrator is run with real built-in samplers (plus samplers returning
# float32 / int64 / Fortran-ordered / read-only arrays), real schedulers (round-robin, RL with a reward-driven agent), models
# and losses in many representations, and every component is instrumented: what each sampler returned, which sampler the
# scheduler designated, every model invocation (vector, length, seed, output) and every loss invocation (series, real data,
# value) is logged, and every clause of the property is judged on the logs - independently of the Coq model.
# C11 re-uses the same instrumentation with faults injected (props/c11.py).
# ====================================================================================================================
_A = None          # the audit in force (the instrumented components report to it)
_ACLS = {}
GRID_LO, GRID_HI, GRID_STEP = 0.0, 4.0, 0.0625        # all grid values are exact in float32; the integers 0..4 are on the grid


def audited_model(theta, N, seed):  # noqa: N803
    return _A.on_model("a", theta, N, seed)


def audited_model_b(theta, N, seed):  # noqa: N803
    """a second model object: what `calibrator.model = other_model` installs"""
    return _A.on_model("b", theta, N, seed)


def remote_model(theta, N, seed):  # noqa: N803
    """a picklable model for n_jobs > 1 (runs in worker processes, cannot log): the output encodes the vector, the length and
    the seed it was given, so that the association can be judged from the recorded series alone"""
    import numpy as np

    r = np.random.default_rng(int(seed))
    out = r.random((N, 2)) + float(theta[0]) * 8.0 + float(theta[-1])
    out[0, 0] = float(seed)
    out[0, 1] = float(len(theta)) + 0.001 * N
    return out


def _audited_class(base):
    name = "Aud" + base.__name__
    if name not in _ACLS:
        def sample(self, search_space, existing_points, existing_losses, _base=base):
            return _A.on_sample(self, lambda: _base.sample(self, search_space, existing_points, existing_losses))

        cls = type(name, (base,), {"sample": sample})
        cls.__module__ = __name__
        globals()[name] = cls
        _ACLS[name] = cls
    return _ACLS[name]


def _audited_scheduler_class(base):
    name = "Aud" + base.__name__
    if name not in _ACLS:
        def get_next_sampler(self, _base=base):
            s = _base.get_next_sampler(self)
            _A.on_designate(s)
            return s

        cls = type(name, (base,), {"get_next_sampler": get_next_sampler})
        cls.__module__ = __name__
        globals()[name] = cls
        _ACLS[name] = cls
    return _ACLS[name]


def _repr_class(fmt):
    """A user sampler returning grid points as float32 / int64 / Fortran-ordered / read-only / strided arrays."""
    from black_it.samplers.base import BaseSampler

    name = f"Repr{fmt}Sampler"
    if name not in _ACLS:
        def sample_batch(self, batch_size, search_space, existing_points, existing_losses, _fmt=fmt):
            import numpy as np

            g = self.random_generator
            x = np.stack([g.choice(ax, size=int(batch_size)) for ax in search_space.param_grid], axis=1)
            if _fmt == "f32":
                return x.astype(np.float32)
            if _fmt == "i64":
                return np.floor(x).astype(np.int64)
            if _fmt == "F":
                return np.asfortranarray(x)
            if _fmt == "strided":
                big = np.zeros((2 * len(x), x.shape[1]))
                big[::2] = x
                return big[::2]
            x.setflags(write=False)      # "ro"
            return x

        cls = type(name, (BaseSampler,), {"sample_batch": sample_batch})
        cls.__module__ = __name__
        globals()[name] = cls
        _ACLS[name] = cls
    return _ACLS[name]


REPR_KINDS = ["repr-f32", "repr-i64", "repr-F", "repr-strided", "repr-ro"]
PLAIN_KINDS = ["halton", "rseq", "uniform"]                 # do not read the loss history
HISTORY_KINDS = ["bestbatch", "pso", "cors"]                # read it (finite losses only)
RESIZABLE = set(PLAIN_KINDS) | set(REPR_KINDS)                # batch_size may be reassigned after construction


def make_audited_sampler(kind, bs, seed, np_int=False):
    import numpy as np

    from props import real_lineups as rl

    b = np.int64(bs) if np_int else int(bs)
    if kind.startswith("repr-"):
        fmt = kind[5:]
        s = _repr_class(fmt)(b, seed, max_deduplication_passes=0 if fmt == "ro" else 2)
    else:
        s = rl.make_sampler(kind, b, seed)
    s.__class__ = _audited_class(type(s))
    return s


# ---------------------------------------------------------------------------------------------------- models and losses
MODEL_KINDS = ["plain", "f32", "i64", "list", "fortran", "transposed", "strided", "readonly", "extreme", "far", "mutating"]
EXTREME_VALUES = [float("inf"), float("-inf"), float("nan"), 1.7e308, -1.7e308, 5e-324, -0.0, 2.2250738585072014e-308]


def run_model_kind(kind, D, theta, N, seed):  # noqa: N803
    """All model kinds compute the same base series from (theta, N, seed) and differ in the representation they return."""
    import numpy as np

    r = np.random.default_rng(int(seed))
    x = r.random((N, D)) + float(theta[0]) * 10.0 + np.arange(D) + 0.125 * len(theta)
    if kind == "plain":
        return x
    if kind == "f32":
        return x.astype(np.float32)
    if kind == "i64":
        return (x * 100.0).astype(np.int64)
    if kind == "list":
        return x.tolist()
    if kind == "fortran":
        return np.asfortranarray(x)
    if kind == "transposed":
        return np.ascontiguousarray(x.T).T
    if kind == "strided":
        big = np.zeros((2 * N, D))
        big[::2] = x
        return big[::2]
    if kind == "readonly":
        x.setflags(write=False)
        return x
    if kind == "extreme":
        for j in range(min(x.size, 1 + int(seed) % 4)):
            x.flat[(int(seed) // 7 + 3 * j) % x.size] = EXTREME_VALUES[(int(seed) + j) % len(EXTREME_VALUES)]
        return x
    if kind == "far":
        return x + 1e8
    if kind == "mutating":
        theta *= 0.5          # a careless user model rescaling its parameter vector in place
        theta += 0.25
        return x
    if kind == "badshape":    # a model answering with one period too many (only used by C11: a batch that cannot be recorded)
        return np.vstack((x, x[:1]))
    raise ValueError(kind)


NEAR_TIES = [1.0, 1.0 + 2.0 ** -52, 1.0 - 2.0 ** -53, 1e8, 1e8 + 2.0 ** -26, 0.0, -0.0, 5e-324, 1e-310, 1e308, 0.1 + 0.2, 0.3,
             123456.789, 123456.78900000002, 1.0000001, 1.00000011]
EXTREME_LOSSES = [float("inf"), float("-inf"), float("nan"), 1e39, -1e39]


class AuditLoss:
    """The configured loss: forwards to the loss under audit, reporting (series, real data, value) to the audit in force."""

    def __init__(self, kind, D, salt=0):  # noqa: N803
        self.kind, self.D, self.salt, self.k = kind, D, salt, 0
        self.inner = None
        if kind in ("mink", "filters"):
            from black_it.loss_functions.minkowski import MinkowskiLoss

            if kind == "mink":
                self.inner = MinkowskiLoss()
            else:
                self.inner = MinkowskiLoss(p=1, coordinate_weights=[0.5 + 0.25 * i for i in range(D)],
                                           coordinate_filters=[(_double if i % 2 == 0 else None) for i in range(D)])

    def value(self, sim, real):
        import numpy as np

        k = self.k
        self.k += 1
        if self.inner is not None:
            return self.inner.compute_loss(sim, real)
        s = float(np.nansum(np.clip(np.asarray(sim, dtype=float), -1e3, 1e3))) + float(np.sum(real)) * 0.5
        base = 0.5 + abs(s * 1.0000001 + self.salt) % 5.0           # finite, >= 0.5: also fit for the RL reward
        if self.kind == "sum":
            return base
        if self.kind == "f32":
            return np.float32(base)
        if self.kind == "0d":
            return np.array(base)
        if self.kind == "int":
            return int(base * 1000)
        if self.kind == "neartie":
            return NEAR_TIES[(k * 7 + self.salt) % len(NEAR_TIES)]
        if self.kind == "extremeloss":
            pool = NEAR_TIES + EXTREME_LOSSES
            return pool[(k * 5 + self.salt) % len(pool)]
        raise ValueError(self.kind)

    def compute_loss(self, sim, real):
        return _A.on_loss(self, sim, real)


def _double(x):
    return x * 2.0


FINITE_LOSSES = ["sum", "f32", "0d", "int", "mink", "filters"]


class Audit:
    """Logs of one Calibrator's components and the oracle of C02 on them."""

    def __init__(self, D, n_expected, model_kind, remote=False):  # noqa: N803
        self.D, self.N, self.remote = D, n_expected, remote
        self.model_kinds = {"a": model_kind, "b": model_kind}
        self.cal = None
        self.real = None
        self.events = []           # one per batch the scheduler designated a sampler for
        self.failed_events = []    # batches that raised (C11)
        self.prev = None
        self.labels_seen = []
        # fault injection (C11): (kind, index within the current calibrate call[, sampler position]) -> exception factory
        self.plan = {}
        self.counters = {"model": 0, "loss": 0}
        self.sampler_counters = {}
        self.raised = []
        self.badshape_fired = False

    # ------------------------------------------------------------------ callbacks
    def begin_call(self, plan=None):
        self.plan = dict(plan or {})
        self.counters = {"model": 0, "loss": 0}
        self.sampler_counters = {}
        self.raised = []
        self.badshape_fired = False

    def _maybe_raise(self, key):
        mk = self.plan.get(key)
        if mk is not None:
            e = mk()
            self.raised.append(e)
            raise e

    def on_designate(self, sampler):
        cal = self.cal
        label = cal.samplers_id_table.get(type(sampler).__name__) if cal is not None else None
        self.events.append({"designated": sampler, "label": label, "rows": None, "model": [], "loss": [], "sampled_by": None,
                            "in_lineup": cal is None or any(s is sampler for s in cal.scheduler.samplers)})

    def on_sample(self, sampler, call):
        import numpy as np

        pos = [i for i, s in enumerate(self.cal.scheduler.samplers) if s is sampler]
        pos = pos[0] if pos else -1
        k = self.sampler_counters.get(pos, 0)
        self.sampler_counters[pos] = k + 1
        ks = self.counters.get("sample", 0)          # sample() calls of this calibrate() call, whichever the sampler
        self.counters["sample"] = ks + 1
        self._maybe_raise(("sampler", k, pos))
        self._maybe_raise(("sample", ks))
        out = call()
        if not self.events or self.events[-1]["rows"] is not None:
            # sample() called without a designation: record it as an event of its own so that the oracle reports it
            self.events.append({"designated": None, "label": None, "rows": None, "model": [], "loss": [], "sampled_by": None})
        ev = self.events[-1]
        ev["rows"] = np.array(out, dtype=np.float64, copy=True)
        ev["sampled_by"] = sampler
        ev["bs_at_call"] = int(sampler.batch_size)
        return out

    def on_model(self, tag, theta, N, seed):  # noqa: N803
        import numpy as np

        k = self.counters["model"]
        self.counters["model"] = k + 1
        th = np.array(theta, dtype=np.float64, copy=True)
        self._maybe_raise(("model", k))
        out = run_model_kind(self.model_kinds[tag], self.D, theta, N, seed)
        if self.plan.get(("badshape", k)):
            self.badshape_fired = True
            out = run_model_kind("badshape", self.D, theta, N, seed)
        if self.events:
            try:
                snap = np.array(out, dtype=np.float64, copy=True)
            except ValueError:
                snap = None
            self.events[-1]["model"].append({"theta": th, "N": int(N), "seed": int(seed), "out": snap, "tag": tag})
        return out

    def on_loss(self, loss, sim, real):
        import numpy as np

        k = self.counters["loss"]
        self.counters["loss"] = k + 1
        sim_bytes = np.array(sim, dtype=np.float64, copy=True).tobytes()
        self._maybe_raise(("loss", k))
        v = loss.value(sim, real)
        if self.events:
            self.events[-1]["loss"].append({"sim": sim_bytes, "real_ok": real is self.cal.real_data and real is self.real,
                                            "value": np.float64(np.asarray(v, dtype=np.float64)).tobytes(), "obj": loss})
        return v

    # ------------------------------------------------------------------ oracle
    def end_call(self, raised):
        """A calibrate() call is over: a batch that raised is not part of the history."""
        if raised and self.events and not self._complete(self.events[-1]):
            self.failed_events.append(self.events.pop())

    def _complete(self, ev):
        E = int(self.cal.ensemble_size)
        return ev["rows"] is not None and len(ev["loss"]) == len(ev["rows"]) and (self.remote or len(ev["model"]) == len(ev["rows"]) * E)

    def snapshot(self):
        cal = self.cal
        return {"params": cal.params_samp.copy(), "losses": cal.losses_samp.copy(), "series": cal.series_samp.copy(),
                "bnums": cal.batch_num_samp.copy(), "methods": cal.method_samp.copy()}

    def verify(self, returned=None):
        """-> list of (clause, detail).  Judges the whole recorded history against the logs."""
        import numpy as np

        cal = self.cal
        E = int(cal.ensemble_size)
        fails = []
        snap = self.snapshot()
        rows_exp = sum(len(ev["rows"]) for ev in self.events if ev["rows"] is not None)
        lens = {k: len(v) for k, v in snap.items()}
        lens["counter"] = int(cal.n_sampled_params)
        if set(lens.values()) != {rows_exp}:
            fails.append(("aligned", f"records have lengths {lens}; the samplers returned {rows_exp} rows in the "
                                     f"{len(self.events)} completed batches"))
            return fails
        if int(cal.current_batch_index) != len(self.events):
            fails.append(("batch-label", f"batch counter {int(cal.current_batch_index)} after {len(self.events)} completed batches"))
        if snap["params"].dtype != np.float64 or snap["losses"].dtype != np.float64:
            fails.append(("param-proposed", f"the parameter / loss records have dtypes {snap['params'].dtype} / {snap['losses'].dtype}: rows "
                                            "recorded earlier were converted (the records are float64 arrays)"))
            return fails
        if snap["series"].shape[1:] != (E, self.N, self.D) or snap["series"].dtype != np.float64:
            fails.append(("series-of-param", f"series record of shape {snap['series'].shape} / dtype {snap['series'].dtype}, expected "
                                             f"(rows, {E}, {self.N}, {self.D}) float64 (configured simulation length {self.N})"))
            return fails
        i = 0
        for b, ev in enumerate(self.events):
            if ev["designated"] is None or ev["sampled_by"] is not ev["designated"]:
                fails.append(("method-label", f"batch {b}: sample() was called on {type(ev['sampled_by']).__name__}, the scheduler had designated "
                                              f"{type(ev['designated']).__name__}"))
            if not ev.get("in_lineup", True):
                fails.append(("method-label", f"batch {b}: the designated {type(ev['designated']).__name__} object is not in the scheduler's "
                                              "current line-up (a sampler of a replaced line-up was used)"))
            if not self.remote and len(ev["model"]) != len(ev["rows"]) * E:
                fails.append(("series-of-param", f"batch {b}: {len(ev['rows'])} rows x ensemble {E} but the model was run {len(ev['model'])} times"))
                return fails
            if len(ev["loss"]) != len(ev["rows"]):
                fails.append(("loss-of-series", f"batch {b}: {len(ev['rows'])} rows but the loss was evaluated {len(ev['loss'])} times"))
                return fails
            for r, row in enumerate(ev["rows"]):
                where = f"row {i} (batch {b}, row {r} of {type(ev['sampled_by']).__name__})"
                if snap["params"][i].tobytes() != row.tobytes():
                    fails.append(("param-proposed", f"{where}: recorded vector {snap['params'][i]} but the sampler proposed {row}"))
                for e in range(E):
                    if self.remote:
                        got = snap["series"][i, e]
                        seed = got[0, 0]
                        ok = seed == int(seed) and 0 <= seed < 2 ** 32
                        if ok:
                            want = remote_model(snap["params"][i], self.N, int(seed))
                            ok = want.tobytes() == got.tobytes()
                        if not ok:
                            fails.append(("series-of-param", f"{where} member {e}: the recorded series is not a run of the model on "
                                                             f"{snap['params'][i]} with length {self.N}"))
                        continue
                    c = ev["model"][r * E + e]
                    if c["theta"].tobytes() != row.tobytes():
                        fails.append(("series-of-param", f"{where} member {e}: model run number {r * E + e} of the batch was on {c['theta']}, "
                                                         f"not on the proposed {row}"))
                    if c["N"] != self.N:
                        fails.append(("series-of-param", f"{where}: model run with length {c['N']}, configured simulation length {self.N}"))
                    if c["out"] is None or c["out"].shape != (self.N, self.D) or snap["series"][i, e].tobytes() != c["out"].tobytes():
                        fails.append(("series-of-param", f"{where} member {e}: recorded series differ from what the model returned "
                                                         f"(model kind {self.model_kinds[c['tag']]})"))
                lc = ev["loss"][r]
                if lc["sim"] != snap["series"][i].tobytes():
                    fails.append(("loss-of-series", f"{where}: the loss was evaluated on other series than the recorded ones"))
                if not lc["real_ok"]:
                    fails.append(("loss-of-series", f"{where}: the loss was not evaluated against the calibrator's real data"))
                if lc["obj"] is not self.loss_in_force(b):
                    fails.append(("loss-of-series", f"{where}: evaluated by a loss object other than the configured one"))
                if snap["losses"][i].tobytes() != lc["value"]:
                    fails.append(("loss-of-series", f"{where}: recorded loss {snap['losses'][i]!r} is not the value the loss returned "
                                                    f"({np.frombuffer(lc['value'])[0]!r})"))
                inner = lc["obj"].inner
                if inner is not None:
                    again = type(lc["obj"])(lc["obj"].kind, self.D).inner.compute_loss(snap["series"][i], self.real_at(b))
                    if np.float64(again).tobytes() != snap["losses"][i].tobytes():
                        fails.append(("loss-of-series", f"{where}: recorded loss {snap['losses'][i]!r} but a fresh {lc['obj'].kind} loss of the "
                                                        f"recorded series is {again!r}"))
                if int(snap["bnums"][i]) != b:
                    fails.append(("batch-label", f"{where}: labelled batch {int(snap['bnums'][i])}"))
                if ev["label"] is None or int(snap["methods"][i]) != ev["label"]:
                    fails.append(("method-label", f"{where}: sampler id {int(snap['methods'][i])}, the designated sampler's id is {ev['label']}"))
                i += 1
            if fails:
                break
        if self.remote and not fails:
            seeds = [float(s[0, 0]) for row in snap["series"] for s in row]
            if len(set(seeds)) != len(seeds):
                fails.append(("series-of-param", "two recorded series are the same model run (same seed): not one run per ensemble member"))
        if self.prev is not None:
            for key, old in self.prev.items():
                if snap[key][: len(old)].tobytes() != old.tobytes() or len(snap[key]) < len(old):
                    fails.append(("append-only", f"{key}: rows recorded earlier have changed"))
        if returned is not None:
            p, l = returned
            l = np.asarray(l)
            finite = l[~np.isnan(l)]
            if len(p) != len(l) or np.any(finite[1:] < finite[:-1]):
                fails.append(("returned-sorted", f"returned losses are not in increasing order: {l.tolist()[:12]}"))
            got = sorted((np.asarray(a, dtype=np.float64).tobytes(), np.float64(b).tobytes()) for a, b in zip(p, l))
            want = sorted((a.tobytes(), b.tobytes()) for a, b in zip(snap["params"], snap["losses"]))
            if got != want:
                fails.append(("returned-pairs", "the returned (parameter, loss) pairs are not the recorded ones"))
        self.prev = snap
        return fails

    # the loss / real data in force when batch b ran (they may be reassigned between calls)
    def loss_in_force(self, b):
        obj = None
        for b0, o in self.loss_epochs:
            if b0 <= b:
                obj = o
        return obj

    def real_at(self, b):
        arr = None
        for b0, a in self.real_epochs:
            if b0 <= b:
                arr = a
        return arr


def gen_audit_spec(rng, idx, quick):
    """One audited scenario (JSON-able)."""
    family = ["repr", "model-repr", "loss-repr", "simlen", "reassign", "rl", "many-params", "extreme", "reuse", "history"][idx % 10]
    d = rng.choice([1, 2, 2, 3])
    D = rng.choice([1, 2, 3])
    L = rng.choice([3, 4, 5, 8])
    spec = {"family": family, "d": d, "D": D, "L": L, "sim_length": None, "E": rng.randint(1, 3), "E_np": False, "sched": "rr",
            "model": "plain", "loss": "sum", "verbose": bool(rng.below(4) == 0), "seed": rng.below(2 ** 31), "salt": rng.below(100),
            "kinds": [], "ops": [], "n_jobs": 1}
    nk = rng.randint(1, 3)
    pool = PLAIN_KINDS + HISTORY_KINDS
    if family == "repr":
        pool = REPR_KINDS + PLAIN_KINDS
        spec["E_np"] = bool(rng.below(2))
    elif family == "model-repr":
        spec["model"] = MODEL_KINDS[(idx // 10) % len(MODEL_KINDS)]
        if spec["model"] in ("fortran", "transposed"):
            spec["D"] = D = rng.choice([2, 3])
    elif family == "loss-repr":
        spec["loss"] = ["f32", "0d", "int", "neartie", "mink", "filters", "neartie"][(idx // 10) % 7]
        if spec["loss"] == "neartie":
            spec["verbose"] = bool(rng.below(2))
    elif family == "simlen":
        spec["sim_length"] = rng.choice([1, 2, L - 1, L + 1, L + 3, 2 * L, L])
        spec["model"] = rng.choice(["plain", "list", "f32"])
    elif family == "rl":
        spec["sched"] = "rl"
        spec["loss"] = rng.choice(["sum", "mink", "sum"])
        pool = PLAIN_KINDS + HISTORY_KINDS
        nk = rng.randint(1, 3)
    elif family == "many-params":
        spec["d"] = d = rng.choice([11, 12, 13])
        pool = PLAIN_KINDS + ["bestbatch"]
    elif family == "extreme":
        spec["loss"] = "extremeloss"
        spec["model"] = rng.choice(["extreme", "far", "plain"])
        pool = PLAIN_KINDS + REPR_KINDS
    elif family == "history":
        spec["loss"] = rng.choice(FINITE_LOSSES)
    if family == "reassign":
        pool = PLAIN_KINDS + REPR_KINDS + ["bestbatch"]
    if spec["loss"] in ("neartie", "extremeloss"):
        pool = PLAIN_KINDS + REPR_KINDS
    if spec["loss"] in ("mink", "filters") and spec["sim_length"] not in (None, L):
        spec["loss"] = "sum"
    if spec["loss"] in ("mink", "filters") and spec["model"] == "extreme":
        spec["model"] = "far"
    for j in range(nk):
        kind = rng.choice(pool)
        bs = rng.randint(1, 4)
        if kind in HISTORY_KINDS and (j == 0 or spec["sched"] == "rl"):
            # a history-driven sampler needs at least batch_size evaluated points: it never opens a round-robin line-up, and under
            # the RL scheduler (bootstrap batch of one point, then any order) it has batch size 1
            if spec["sched"] == "rl":
                bs = 1
            else:
                kind = rng.choice(PLAIN_KINDS)
        if j == 0 and spec["sched"] != "rl":
            bs = 4
        spec["kinds"].append([kind, bs, bool(family == "repr" and rng.below(2))])
    if spec["sched"] == "rl" and not any(k[0] == "halton" for k in spec["kinds"]) and rng.below(2):
        spec["kinds"][rng.below(len(spec["kinds"]))][0] = "halton"
    # operations
    ncalls = rng.randint(2, 3 if quick else 4)
    for c in range(ncalls):
        spec["ops"].append(["cal", rng.randint(0, 3) if c else rng.randint(1, 3)])
        if family == "reassign" and c < ncalls - 1:
            what = rng.choice(["loss", "model", "real", "bs", "verbose", "loss", "bs", "samplers"])
            if what == "loss":
                spec["ops"].append(["set", "loss", rng.choice(["f32", "int", "sum", "neartie"]), rng.below(100)])
            elif what == "model":
                spec["ops"].append(["set", "model", rng.choice(["f32", "list", "far", "strided"])])
            elif what == "real":
                spec["ops"].append(["set", "real", rng.below(1000)])
            elif what == "verbose":
                spec["ops"].append(["set", "verbose"])
            elif what == "samplers":
                spec["ops"].append(["set", "samplers", [[rng.choice(PLAIN_KINDS + REPR_KINDS), rng.randint(1, 3), False]
                                                        for _ in range(rng.randint(1, 3))]])
            else:
                cand = [i for i, k in enumerate(spec["kinds"]) if k[0] in RESIZABLE]
                if cand:
                    spec["ops"].append(["set", "bs", rng.choice(cand), rng.randint(1, 5)])
    if family == "reuse":
        spec["ops"].append(["reuse", {"E": rng.randint(1, 3), "L": rng.choice([3, 6, 9]), "sim_length": rng.choice([None, 2, 7]),
                                      "D": rng.choice([1, 2, 3])}])
        spec["ops"].append(["cal", rng.randint(1, 3)])
        spec["ops"].append(["cal", rng.randint(1, 2)])
        spec["kinds"] = [k for k in spec["kinds"] if k[0] != "pso"] or [["halton", 2, False]]   # a swarm is tied to one run
    return spec


def build_audited(spec, audit, samplers=None, loss=None, saving_folder=None):
    """-> (calibrator, samplers, loss); `samplers` / `loss` given = the objects of an earlier calibrator, used again."""
    import contextlib
    import io
    import warnings

    import numpy as np
    from black_it.calibrator import Calibrator
    from black_it.schedulers.round_robin import RoundRobinScheduler

    global _A
    _A = audit
    d, D, L = spec["d"], spec["D"], spec["L"]
    real = np.random.default_rng(spec["seed"] % 9973).random((L, D)) * 3.0 + np.arange(D)
    if samplers is None:
        samplers = [make_audited_sampler(k, bs, 11 + i, np_int) for i, (k, bs, np_int) in enumerate(spec["kinds"])]
    if loss is None:
        loss = AuditLoss(spec["loss"], D, spec["salt"])
    if spec["sched"] == "rl":
        from black_it.schedulers.rl.agents.epsilon_greedy import MABEpsilonGreedy
        from black_it.schedulers.rl.envs.mab import MABCalibrationEnv
        from black_it.schedulers.rl.rl_scheduler import RLScheduler

        n_act = len(samplers) + 1        # the audited Halton subclass is not `HaltonSampler` itself: a bootstrap sampler is always added
        agent = MABEpsilonGreedy(n_actions=n_act, alpha=0.2, eps=0.3, initial_values=1.0, random_state=5)
        sched = _audited_scheduler_class(RLScheduler)(samplers, agent, MABCalibrationEnv(n_act))
        for s in sched.samplers:
            if not type(s).__name__.startswith("Aud"):
                s.__class__ = _audited_class(type(s))
    else:
        sched = _audited_scheduler_class(RoundRobinScheduler)(samplers)
    E = np.int64(spec["E"]) if spec.get("E_np") else spec["E"]
    model = remote_model if audit.remote else audited_model
    with contextlib.redirect_stdout(io.StringIO()), warnings.catch_warnings():
        warnings.simplefilter("ignore")
        cal = Calibrator(loss_function=loss, real_data=real, model=model, parameters_bounds=[[GRID_LO] * d, [GRID_HI] * d],
                         parameters_precision=[GRID_STEP] * d, ensemble_size=E, scheduler=sched, sim_length=spec["sim_length"],
                         verbose=spec["verbose"], saving_folder=saving_folder, random_state=spec["seed"], n_jobs=spec.get("n_jobs", 1))
    audit.cal, audit.real = cal, real
    audit.loss_epochs = [(0, loss)]
    audit.real_epochs = [(0, real)]
    return cal, samplers, loss


def run_audit_spec(spec):
    """-> (list of (clause, detail), stats dict)"""
    import contextlib
    import io
    import warnings

    import numpy as np

    global _A
    stats = {}
    n_exp = spec["sim_length"] if spec["sim_length"] is not None else spec["L"]
    audit = Audit(spec["D"], n_exp, spec["model"], remote=spec.get("n_jobs", 1) > 1)
    cal, samplers, loss = build_audited(spec, audit)
    fails = []
    try:
        for op in spec["ops"]:
            if op[0] == "cal":
                audit.begin_call()
                with contextlib.redirect_stdout(io.StringIO()), warnings.catch_warnings(), np.errstate(all="ignore"):
                    warnings.simplefilter("ignore")
                    if spec["sched"] == "rl":
                        ret = cc.call_with_watchdog(lambda n=op[1]: cal.calibrate(n), timeout=120.0)
                    else:
                        ret = cal.calibrate(op[1])
                audit.end_call(False)
                got = audit.verify(ret)
                stats["batches"] = stats.get("batches", 0) + op[1]
                if got:
                    fails += [(c, f"after {op}: {m}") for c, m in got]
                    break
            elif op[0] == "set":
                b = int(cal.current_batch_index)
                if op[1] == "loss":
                    loss = AuditLoss(op[2], spec["D"], op[3])
                    cal.loss_function = loss
                    audit.loss_epochs.append((b, loss))
                elif op[1] == "model":
                    cal.model = audited_model_b
                    audit.model_kinds["b"] = op[2]
                elif op[1] == "real":
                    real = np.random.default_rng(op[2]).random(cal.real_data.shape) * 2.0
                    cal.real_data = real
                    audit.real = real
                    audit.real_epochs.append((b, real))
                elif op[1] == "verbose":
                    cal.verbose = not cal.verbose
                elif op[1] == "bs":
                    if op[2] < len(samplers) and spec["kinds"][op[2]][0] in RESIZABLE:
                        samplers[op[2]].batch_size = op[3]
                elif op[1] == "samplers":
                    spec = dict(spec, kinds=op[2])
                    samplers = [make_audited_sampler(k, bs, 41 + i, np_int) for i, (k, bs, np_int) in enumerate(op[2])]
                    cal.set_samplers(samplers)
            elif op[0] == "reuse":
                cc.release_threads(cal)
                s2 = dict(spec, **op[1])
                n_exp = s2["sim_length"] if s2["sim_length"] is not None else s2["L"]
                audit = Audit(s2["D"], n_exp, spec["model"])
                # the SAME sampler objects and the SAME loss object serve a second calibrator (other data length, ensemble, ...)
                cal, samplers, loss = build_audited(s2, audit, samplers=samplers, loss=loss if loss.inner is None else None)
                spec = s2
    finally:
        cc.release_threads(cal)
        _A = None
    return fails, stats


def audited_runs(chk, stats, only=None):
    rng = chk.rng
    quick = chk.tier == "quick"
    n = 0
    specs = [only] if only is not None else [gen_audit_spec(rng, i, quick) for i in range(110 if quick else 1100)]
    if only is None:
        for j in range(2 if quick else 6):           # n_jobs > 1: the model runs in worker processes
            s = gen_audit_spec(rng, 10 * j, quick)   # family "repr"
            s.update(n_jobs=2, D=2, family="n_jobs", E=2 + j % 2, loss="sum", E_np=False)
            s["kinds"] = [[k, max(2, bs), False] for k, bs, _ in s["kinds"]]
            specs.append(s)
    for spec in specs:
        fails, st = run_audit_spec(spec)
        n += 1
        stats[f"audit:{spec['family']}"] += 1
        stats["audit:batches"] += st.get("batches", 0)
        stats[f"audit:model={spec['model']}"] += 1
        stats[f"audit:loss={spec['loss']}"] += 1
        seen = set()
        for clause, detail in fails:
            if clause in seen:
                continue
            seen.add(clause)
            chk.violation({"kind": "oracle", "clause": clause, "with": "audit", "family": spec["family"]},
                          {"failed": f"oracle:{clause}", "detail": detail, "case": {"audit": spec}})
    return n


def run(chk, replay=None):
    chk.proof_gate()
    if replay:
        cases = [json.loads(open(replay).read())["case"]]
        only = cases[0].get("audit")
        if "extreme" in cases[0] or "dtype" in cases[0] or "tiny" in cases[0] or only is not None:
            cases = []
    else:
        only = None
        cases = gen_cases(chk)
    obs, bad, stats, keys, nontriv = cf.run_traces(chk, cases, oracle_with_length, nontrivial, label="C02")
    n_ext = extreme_runs(chk, stats)
    n_ext += dtype_runs(chk, stats)
    n_ext += tiny_space_runs(chk, stats)
    n_aud = audited_runs(chk, stats, only=only) if (only is not None or not replay) else 0
    cov = {
        "evaluations": len(cases) + n_ext + n_aud, "audited_scenarios": n_aud, "distinct": len(keys), "distinct_nontrivial": len(nontriv),
        "extreme_value_batches_with_real_samplers": n_ext,
        "rule": "random operation sequences {calibrate(n), create_checkpoint, restore, set_samplers, set_scheduler} on the real "
                "Calibrator with token samplers/model/loss (1-6 samplers, batch sizes 1-4, ensemble 1-3, RR and RL schedulers, some "
                "with an injected fault) plus the ensemble(1-4) x batch-size(1-5) grid; non-trivial = at least 2 batches and one "
                "operation other than calibrate; distinct = distinct case description; one token case in five has losses one ulp apart "
                "in its palette, one in four a simulation length other than the data length; plus real-sampler runs (extreme losses, "
                "real-data dtypes, exhausted spaces) and the audited runs of round 4 (every sampler / scheduler / model / loss invocation "
                "logged; families: sampler-output and model-output representations, loss-value representations, sim_length, reassigned "
                "attributes, RL with a reward-driven agent, > 10 parameters, extreme values, reuse by a second calibrator, n_jobs=2)",
        "samples": cf.sample_cases(cases, obs),
        "traces_validated_against_impl": len(cases) - len(bad), "model_impl_disagreements": len(bad),
        "distribution": dict(sorted(stats.items())),
    }
    return chk.finish(cov, assumptions=cf.ASSUME + ["samplers return batch_size rows (C03/C12) and do not modify the history (C16)"],
                      trusted=cf.TRUSTED)
