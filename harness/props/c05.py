"""C05 - resuming from a checkpoint equals never having stopped."""
from __future__ import annotations

import itertools
import json
import shutil

from props import calib_common as cc
from props import calib_family as cf
from props import real_lineups as rl


def gen_cases(chk):
    rng = chk.rng
    quick = chk.tier == "quick"
    cases = []
    for i in range(200 if quick else 2000):
        c = cc.gen_case(rng, len(cases), max_ops=9 if quick else 14, max_samplers=4,
                        allow=("calibrate", "checkpoint", "restore", "restore"), prec_prob=10**9, nmax=3)
        c["cfg"]["prec"] = None
        c["cfg"]["saving"] = bool(rng.below(3))
        cases.append(c)
    return cases


def token_compositions(chk, stats):
    """Every composition of n with every choice of boundary kind, token components, compared with the uninterrupted twin."""
    rng = chk.rng
    nmax = 4 if chk.tier == "quick" else 5
    count = 0
    for lineup in range(3 if chk.tier == "quick" else 6):
        base = cc.gen_case(rng, 0, max_ops=1, max_samplers=4, prec_prob=10**9)
        base["cfg"].update(prec=None, saving=False)
        for n in range(2, nmax + 1):
            twin = dict(base, ops=[["calibrate", n]])
            tv = cc.run_case(twin)["views"][-1]
            for comp in rl.compositions(n):
                for kinds in itertools.product(("plain", "restore"), repeat=len(comp) - 1):
                    ops = []
                    for i, seg in enumerate(comp):
                        ops.append(["calibrate", seg])
                        if i < len(kinds) and kinds[i] == "restore":
                            ops += [["checkpoint"], ["restore"]]
                    c = dict(base, ops=ops)
                    v = cc.run_case(c)["views"][-1]
                    count += 1
                    stats[f"segments={len(comp)}"] += 1
                    if not cf.same_history(v, tv):
                        chk.violation({"kind": "oracle", "clause": "token-resume-differs"},
                                      {"failed": "oracle:resume", "detail": f"segments {comp} boundaries {kinds}: differs in {cf.diff_history(v, tv)}",
                                       "case": c})
    return count


def real_compositions(chk, stats):
    rng = chk.rng
    quick = chk.tier == "quick"
    kinds_pool = rl.CHEAP if quick else rl.ALL9
    count = 0
    nlineups = 3 if quick else 8
    for li in range(nlineups):
        k = rng.randint(2, 4)
        kinds = [(rng.choice(kinds_pool), rng.randint(1, 3)) for _ in range(k)]
        if not quick or li == 0:
            kinds[rng.below(k)] = (rng.choice(rl.ALL9[6:]), 2)      # one surrogate sampler
        kinds[0] = (rng.choice(["halton", "rseq", "uniform"]), rng.randint(2, 3))  # history-free first
        spec = {"kinds": kinds, "nparams": rng.randint(1, 3), "E": rng.randint(1, 2), "seed": rng.below(2**31),
                "loss": rng.choice(["minkowski", "msm", "fourier"]), "rl": False}
        n = 4 if quick else rng.randint(4, 6)
        folder = rl.scratch(f"c05_{li}")
        twin = rl.run_segments(spec, [n], [], folder=None)
        comps = list(rl.compositions(n))
        if quick:
            rng.shuffle(comps)
            comps = comps[:4]
        for comp in comps:
            opts = list(itertools.product(("plain", "restore"), repeat=len(comp) - 1))
            if quick and len(opts) > 2:
                rng.shuffle(opts)
                opts = opts[:2]
            for b in opts:
                shutil.rmtree(folder, ignore_errors=True)
                folder.mkdir(parents=True)
                h = rl.run_segments(spec, comp, list(b), folder=str(folder), ctor_seed_shift=0)
                count += 1
                stats["real_runs"] += 1
                d = rl.diff(twin, h)
                if d:
                    chk.violation({"kind": "oracle", "clause": "real-resume-differs", "boundary": "restore" if "restore" in b else "plain"},
                                  {"failed": "oracle:resume", "detail": f"line-up {kinds} segments {comp} boundaries {b}: differs in {d}",
                                   "case": {"spec": spec, "segments": comp, "boundaries": list(b)}})
        shutil.rmtree(folder, ignore_errors=True)
    return count


def class_cut_sweep(chk, stats):
    """Which sampler is active at the cut matters (cursors, swarm state, surrogate seeds): for every built-in class X, the
    line-up [uniform, X] is cut by checkpoint+restore after every batch and compared with the uninterrupted twin."""
    rng = chk.rng
    count = 0
    n = 6 if chk.tier == "quick" else 8
    reps = {"pso": 4, "cors": 2, "bestbatch": 2}       # samplers that carry state between calls get several seeds
    for kind in [k for k in rl.ALL9 for _ in range(reps.get(k, 1) * (1 if chk.tier == "quick" else 2))]:
        # bounds close to the unit cube, so that unit-cube state kept by a sampler (swarm positions, sequence points) is
        # not masked by clipping
        spec = {"kinds": [("uniform", 3), (kind, 3)], "nparams": 2, "E": 1, "seed": rng.below(2**31), "loss": "minkowski", "rl": False,
                "bounds": [[0.0, 0.1], [1.0, 1.1]]}
        twin = rl.run_segments(spec, [n], [], folder=None)
        folder = rl.scratch(f"c05_cut_{kind}")
        for cut in range(1, n):
            shutil.rmtree(folder, ignore_errors=True)
            folder.mkdir(parents=True)
            h = rl.run_segments(spec, [cut, n - cut], ["restore"], folder=str(folder))
            count += 1
            stats[f"cut_sweep:{kind}"] += 1
            d = rl.diff(twin, h)
            if d:
                chk.violation({"kind": "oracle", "clause": "real-resume-differs", "boundary": "restore", "active": kind},
                              {"failed": "oracle:resume", "detail": f"line-up [uniform, {kind}], restore after batch {cut} of {n}: differs in {d}",
                               "case": {"spec": spec, "segments": [cut, n - cut], "boundaries": ["restore"]}})
        shutil.rmtree(folder, ignore_errors=True)
    return count


def run(chk, replay=None):
    from collections import Counter

    chk.proof_gate()
    if replay:
        case = json.loads(open(replay).read())["case"]
        if "spec" in case:
            folder = rl.scratch("c05_replay")
            twin = rl.run_segments(case["spec"], [sum(case["segments"])], [])
            h = rl.run_segments(case["spec"], case["segments"], case["boundaries"], folder=str(folder))
            print("differs in", rl.diff(twin, h))
            return 1 if rl.diff(twin, h) else 0
        cases = [case]
    else:
        cases = gen_cases(chk)
    obs, bad, stats, keys, nontriv = cf.run_traces(
        chk, cases, lambda c, o: [], lambda c, o: any(op[0] == "restore" and v["exn"] == 0 for op, v in zip(c["ops"], o["views"])), label="C05")
    extra = Counter()
    n_tok = token_compositions(chk, extra) if not replay else 0
    n_real = real_compositions(chk, extra) if not replay else 0
    n_real += class_cut_sweep(chk, extra) if not replay else 0
    stats.update(extra)
    cov = {
        "evaluations": len(cases) + n_tok + n_real, "distinct": len(keys) + n_tok + n_real,
        "distinct_nontrivial": len(nontriv) + n_tok + n_real,
        "rule": "(a) token traces with checkpoint/restore operations replayed by the Coq model (exact); (b) token components: every "
                "composition of n (2..4 quick, 2..6 thorough) with every boundary kind in {second calibrate call, checkpoint+restore} "
                "against the uninterrupted twin; (c) real built-in samplers (Halton, R-sequence, uniform, best-batch, PSO, CORS, and one "
                "of RF/XGBoost/GP), real model and losses: sampled compositions x boundary kinds, plus for each of the nine classes X the "
                "line-up [uniform, X] cut by checkpoint+restore after every batch; histories compared bitwise with the uninterrupted twin; non-trivial = a restore succeeded / a cut was made",
        "samples": cf.sample_cases(cases, obs),
        "traces_validated_against_impl": len(cases) - len(bad), "model_impl_disagreements": len(bad),
        "composition_runs_token": n_tok, "composition_runs_real": n_real,
        "distribution": dict(sorted(stats.items())),
    }
    return chk.finish(cov, assumptions=cf.ASSUME + ["round-robin line-ups (RL is single-session by the property's quantifier)"], trusted=cf.TRUSTED)
