"""C05 - resuming from a checkpoint equals never having stopped."""
from __future__ import annotations

import itertools
import json
import shutil

from props import calib_common as cc
from props import calib_family as cf
from props import real_lineups as rl


def gen_cases(chk):
    rng = chk.rng
    quick = chk.tier == "quick"
    cases = []
    for i in range(200 if quick else 2000):
        # (round 4) a third of the traces also reconfigure the calibrator between the cuts (set_samplers / set_scheduler: a new
        # scheduler starts its cursor at 0 whatever the batch index is), a quarter carry a convergence precision (0 included):
        # restore followed by reconfiguration, early stop followed by further calls, calibrate(0) after a restore
        reconf, with_prec = i % 3 == 1, i % 4 == 2
        c = cc.gen_case(rng, len(cases), max_ops=9 if quick else 14, max_samplers=4,
                        allow=("calibrate", "checkpoint", "restore", "restore") + (("set_samplers", "set_scheduler") if reconf else ()),
                        prec_prob=2 if with_prec else 10**9, nmax=3)
        if not with_prec:
            c["cfg"]["prec"] = None
        c["cfg"]["saving"] = bool(rng.below(3))
        cases.append(c)
    return cases


def token_compositions(chk, stats):
    """Every composition of n with every choice of boundary kind, token components, compared with the uninterrupted twin."""
    rng = chk.rng
    nmax = 4 if chk.tier == "quick" else 5
    count = 0
    for lineup in range(3 if chk.tier == "quick" else 6):
        base = cc.gen_case(rng, 0, max_ops=1, max_samplers=4, prec_prob=10**9)
        base["cfg"].update(prec=None, saving=False)
        for n in range(2, nmax + 1):
            twin = dict(base, ops=[["calibrate", n]])
            tv = cc.run_case(twin)["views"][-1]
            for comp in rl.compositions(n):
                for kinds in itertools.product(("plain", "restore"), repeat=len(comp) - 1):
                    ops = []
                    for i, seg in enumerate(comp):
                        ops.append(["calibrate", seg])
                        if i < len(kinds) and kinds[i] == "restore":
                            ops += [["checkpoint"], ["restore"]]
                    c = dict(base, ops=ops)
                    v = cc.run_case(c)["views"][-1]
                    count += 1
                    stats[f"segments={len(comp)}"] += 1
                    if not cf.same_history(v, tv):
                        chk.violation({"kind": "oracle", "clause": "token-resume-differs"},
                                      {"failed": "oracle:resume", "detail": f"segments {comp} boundaries {kinds}: differs in {cf.diff_history(v, tv)}",
                                       "case": c})
    return count


def real_compositions(chk, stats):
    rng = chk.rng
    quick = chk.tier == "quick"
    kinds_pool = rl.CHEAP if quick else rl.ALL9
    count = 0
    nlineups = 3 if quick else 8
    for li in range(nlineups):
        k = rng.randint(2, 4)
        kinds = [(rng.choice(kinds_pool), rng.randint(1, 3)) for _ in range(k)]
        if not quick or li == 0:
            kinds[rng.below(k)] = (rng.choice(rl.ALL9[6:]), 2)      # one surrogate sampler
        # history-free first sampler, producing at least as many points as any later sampler needs (best-batch requires
        # batch_size existing points)
        kinds[0] = (rng.choice(["halton", "rseq", "uniform"]), max(3, max(b for _, b in kinds)))
        spec = {"kinds": kinds, "nparams": rng.randint(1, 3), "E": rng.randint(1, 2), "seed": rng.below(2**31),
                "loss": rng.choice(["minkowski", "msm", "fourier"]), "rl": False}
        n = 4 if quick else rng.randint(4, 6)
        folder = rl.scratch(f"c05_{li}")
        twin = rl.run_segments(spec, [n], [], folder=None)
        comps = list(rl.compositions(n))
        if quick:
            rng.shuffle(comps)
            comps = comps[:4]
        for comp in comps:
            opts = list(itertools.product(("plain", "restore"), repeat=len(comp) - 1))
            if quick and len(opts) > 2:
                rng.shuffle(opts)
                opts = opts[:2]
            for b in opts:
                shutil.rmtree(folder, ignore_errors=True)
                folder.mkdir(parents=True)
                prefilled = count % 2 == 1
                if prefilled:
                    # the folder already holds the checkpoint of ANOTHER calibration (other loss, other line-up, other seed):
                    # the run that is stopped and resumed in it must not pick up anything from it
                    other = {"kinds": [("uniform", 2), ("halton", 1)], "nparams": spec["nparams"], "E": 1, "seed": 99,
                             "loss": next(x for x in ("fourier", "minkowski", "msm") if x != spec["loss"]), "rl": False}
                    rl.run_segments(other, [2], [], folder=str(folder))
                    stats["real_runs_in_a_used_folder"] += 1
                h = rl.run_segments(spec, comp, list(b), folder=str(folder), ctor_seed_shift=0)
                count += 1
                stats["real_runs"] += 1
                d = rl.diff(twin, h)
                if d:
                    chk.violation({"kind": "oracle", "clause": "real-resume-differs", "boundary": "restore" if "restore" in b else "plain"},
                                  {"failed": "oracle:resume", "detail": f"line-up {kinds} segments {comp} boundaries {b}: differs in {d}",
                                   "case": {"spec": spec, "segments": comp, "boundaries": list(b), "prefilled_folder": prefilled}})
        shutil.rmtree(folder, ignore_errors=True)
    return count


def early_stop_resume(chk, stats):
    """Configurations WITH a convergence precision (0 included): the uninterrupted calibrate(n) stops after batch k < n; cutting
    it after any batch a < k (plain second call, or checkpoint + restore) and asking for the remaining n - a batches must stop
    after the same batch k with the same history."""
    rng = chk.rng
    n = 6
    count = found = tries = 0
    want = 6 if chk.tier == "quick" else 40
    while found < want and tries < 40 * want:
        tries += 1
        base = cc.gen_case(rng, 0, max_ops=1, max_samplers=3, bs_max=2, e_max=2, prec_prob=1)
        base["cfg"].update(prec=rng.choice([0, 0, 1, 2, base["cfg"]["prec"]]), saving=False)
        base["palette"] = cc.gen_palette(rng, base["cfg"]["prec"]) + [5.0, 3.0]
        twin = dict(base, ops=[["calibrate", n]])
        tv = cc.run_case(twin)["views"][-1]
        k = tv["batchidx"]
        if not 2 <= k < n:
            continue
        found += 1
        stats[f"early-stop:prec={base['cfg']['prec']}"] += 1
        for a in range(1, k):
            for kind in ("plain", "restore"):
                ops = [["calibrate", a]] + ([["checkpoint"], ["restore"]] if kind == "restore" else []) + [["calibrate", n - a]]
                c = dict(base, ops=ops)
                v = cc.run_case(c)["views"][-1]
                count += 1
                stats["early-stop:cuts"] += 1
                if not cf.same_history(v, tv):
                    chk.violation({"kind": "oracle", "clause": "token-resume-differs", "with": "convergence-precision"},
                                  {"failed": "oracle:resume", "detail": f"precision {base['cfg']['prec']}: uninterrupted calibrate({n}) stops "
                                   f"after batch {k}; cut after {a} ({kind}) then calibrate({n - a}) ends after batch {v['batchidx']}: "
                                   f"differs in {cf.diff_history(v, tv)}", "case": c})
    return count


def class_cut_sweep(chk, stats):
    """Which sampler is active at the cut matters (cursors, swarm state, surrogate seeds): for every built-in class X, the
    line-up [uniform, X] is cut by checkpoint+restore after every batch and compared with the uninterrupted twin."""
    rng = chk.rng
    count = 0
    n = 6 if chk.tier == "quick" else 8
    reps = {"pso": 4, "cors": 2, "bestbatch": 2}       # samplers that carry state between calls get several seeds
    for kind in [k for k in rl.ALL9 for _ in range(reps.get(k, 1) * (1 if chk.tier == "quick" else 2))]:
        # bounds close to the unit cube, so that unit-cube state kept by a sampler (swarm positions, sequence points) is
        # not masked by clipping
        spec = {"kinds": [("uniform", 3), (kind, 3)], "nparams": 2, "E": 1, "seed": rng.below(2**31), "loss": "minkowski", "rl": False,
                "bounds": [[0.0, 0.1], [1.0, 1.1]]}
        twin = rl.run_segments(spec, [n], [], folder=None)
        folder = rl.scratch(f"c05_cut_{kind}")
        for cut in range(1, n):
            shutil.rmtree(folder, ignore_errors=True)
            folder.mkdir(parents=True)
            h = rl.run_segments(spec, [cut, n - cut], ["restore"], folder=str(folder))
            count += 1
            stats[f"cut_sweep:{kind}"] += 1
            d = rl.diff(twin, h)
            if d:
                chk.violation({"kind": "oracle", "clause": "real-resume-differs", "boundary": "restore", "active": kind},
                              {"failed": "oracle:resume", "detail": f"line-up [uniform, {kind}], restore after batch {cut} of {n}: differs in {d}",
                               "case": {"spec": spec, "segments": [cut, n - cut], "boundaries": ["restore"]}})
        shutil.rmtree(folder, ignore_errors=True)
    return count


def crash_resume(chk, stats):
    """A calibration that dies in the middle of a batch (exception or Ctrl-C in model / loss / sampler) is resumed from its
    folder: the folder holds the last COMPLETED batch, so restore + continue must reproduce the uninterrupted run."""
    rng = chk.rng
    count = 0
    for li in range(3 if chk.tier == "quick" else 8):
        base = cc.gen_case(rng, 0, max_ops=1, max_samplers=3, bs_max=2, e_max=2, prec_prob=10**9)
        base["cfg"].update(prec=None, saving=True)
        n = rng.randint(3, 4)
        tv = cc.run_case(dict(base, ops=[["calibrate", n]]))["views"][-1]
        n_model = tv["nsampled"] * base["cfg"]["E"]
        # (sampler faults are keyed by the sampler's own call counter, which a restore rewinds: they would fire again)
        plans = [["model", rng.below(n_model)] for _ in range(3)] + [["loss", rng.below(tv["nsampled"])] for _ in range(2)]
        for j, f in enumerate(plans):
            flavour = "interrupt" if j % 2 else None
            c1 = dict(base, ops=[["calibrate", n]], fault=f, fault_flavour=flavour)
            v1 = cc.run_case(c1)["views"][-1]
            if v1["batchidx"] == 0 or v1["batchidx"] >= n:
                continue                      # nothing had been completed (no checkpoint to resume from) / the fault came too late
            rem = n - v1["batchidx"]
            c2 = dict(c1, ops=[["calibrate", n], ["restore"], ["calibrate", rem]])
            v2 = cc.run_case(c2)["views"]
            count += 1
            stats[f"crash_resume:{f[0]}:{flavour or 'exception'}"] += 1
            if v2[1]["exn"] != 0 or v2[2]["exn"] != 0 or not cf.same_history(v2[2], tv):
                chk.violation({"kind": "oracle", "clause": "crash-resume-differs", "fault": f[0], "flavour": flavour or "exception"},
                              {"failed": "oracle:resume", "detail": f"fault {f} ({flavour or 'exception'}) after {v1['batchidx']} completed batches; "
                               f"restore -> {v2[1]['exc']}, continue -> {v2[2]['exc']}, differs in "
                               f"{cf.diff_history(v2[2], tv) if v2[2]['exn'] == 0 else 'n/a'}", "case": c2})
    return count


def nan_runs(chk, stats):
    """NaN losses are legitimate values (a model may produce NaN series): a row holding one must survive a restore."""
    import numpy as np

    rng = chk.rng
    count = 0
    for li in range(2 if chk.tier == "quick" else 6):
        spec = {"kinds": [("uniform", 3), ("halton", 2)], "nparams": 2, "E": 1, "seed": rng.below(2**31), "loss": "fourier", "rl": False,
                "bounds": [[0.0, 0.1], [1.0, 1.1]], "model": "nan_model"}
        n = 5
        twin = rl.run_segments(spec, [n], [], folder=None)
        if b"\x00\x00\x00\x00\x00\x00\xf8\x7f" not in twin["losses"] and b"\x00\x00\x00\x00\x00\x00\xf8\xff" not in twin["losses"]:
            stats["nan_runs:no-nan"] += 1
        folder = rl.scratch(f"c05_nan_{li}")
        for cut in range(1, n):
            shutil.rmtree(folder, ignore_errors=True)
            folder.mkdir(parents=True)
            h = rl.run_segments(spec, [cut, n - cut], ["restore"], folder=str(folder))
            count += 1
            stats["nan_runs"] += 1
            d = rl.diff(twin, h)
            if d:
                chk.violation({"kind": "oracle", "clause": "real-resume-differs", "boundary": "restore", "with": "nan-losses"},
                              {"failed": "oracle:resume", "detail": f"model producing NaN series for part of the space, restore after batch {cut} of {n}: "
                               f"differs in {d} (shapes {h['shape']} vs {twin['shape']})",
                               "case": {"spec": spec, "segments": [cut, n - cut], "boundaries": ["restore"]}})
        shutil.rmtree(folder, ignore_errors=True)
    return count


# ---------------------------------------------------------------------------------------------- round 4: generator sweep
def restore_transparency(chk, stats):
    """Token components, ANY operation sequence (calibrate n incl. 0, set_samplers, set_scheduler, create_checkpoint; with and
    without a convergence precision, with and without a saving folder): inserting create_checkpoint + restore at any position
    - before the first batch included - changes nothing: every later call raises / returns the same and leaves the same
    history (theorem C05_resume_any_ops / _outcomes)."""
    rng = chk.rng
    quick = chk.tier == "quick"
    count = tries = done = 0
    want = 12 if quick else 80
    while done < want and tries < 10 * want:
        tries += 1
        base = cc.gen_case(rng, 0, max_ops=5, max_samplers=3, bs_max=2, e_max=2,
                           allow=("calibrate", "set_samplers", "set_scheduler", "checkpoint", "calibrate"), prec_prob=2, nmax=3)
        if base["cfg"]["prec"] is not None:
            base["cfg"]["prec"] = rng.choice([0, 0, 1, 2, base["cfg"]["prec"]])
            base["palette"] = cc.gen_palette(rng, base["cfg"]["prec"]) + [5.0, 3.0]
        if tries % 2:
            # every other base: batches, then a reconfiguration with >= 2 samplers in the middle of the run (a new scheduler's
            # cursor starts at 0 whatever the batch index is; set_samplers keeps the cursor), then more calls, calibrate(0) included
            # (three of four: a new scheduler, after a number of batches that is not a multiple of its number of samplers, so that
            # a cursor derived from the batch index would point at another sampler)
            a = rng.randint(1, 3)
            nsmp = {1: rng.randint(2, 3), 2: 3, 3: 2}[a]
            rec = ["set_scheduler" if rng.below(4) else "set_samplers", cc.gen_samplers(rng, nsmp, 10, 2)]
            base["ops"] = [["calibrate", a], rec, ["calibrate", rng.randint(1, 3)]] + \
                          ([["calibrate", 0]] if rng.below(2) else []) + [["calibrate", rng.randint(1, 2)]]
        tv = cc.run_case(base)["views"]
        if any(v["exn"] for v in tv) or tv[-1]["batchidx"] < 2:
            continue
        done += 1
        ops = base["ops"]
        stats["transparency:bases"] += 1
        if any(o[0] in ("set_samplers", "set_scheduler") for o in ops):
            stats["transparency:bases-with-reconfiguration"] += 1
        if base["cfg"]["prec"] is not None and any(o[0] == "calibrate" and v["batchidx"] - (tv[i - 1]["batchidx"] if i else 0) < o[1]
                                                   for i, (o, v) in enumerate(zip(ops, tv))):
            stats["transparency:bases-with-early-stop"] += 1
        for pos in range(len(ops) + 1):
            c = dict(base, ops=ops[:pos] + [["checkpoint"], ["restore"]] + ops[pos:])
            v = cc.run_case(c)["views"]
            count += 1
            stats["transparency:insertions"] += 1
            rest = v[:pos] + v[pos + 2:]
            bad = [k for k, (a, b) in enumerate(zip(rest, tv))
                   if not (cf.same_history(a, b) and a["exn"] == b["exn"] and a["returned"] == b["returned"])]
            if v[pos]["exn"] or v[pos + 1]["exn"] or bad:
                k = bad[0] if bad else pos
                chk.violation({"kind": "oracle", "clause": "token-resume-differs", "with": "any-operation-sequence"},
                              {"failed": "oracle:resume", "detail": f"operations {ops} (precision {base['cfg']['prec']}, saving {base['cfg']['saving']}): "
                               f"create_checkpoint + restore inserted before operation {pos}: checkpoint -> {v[pos]['exc']}, restore -> "
                               f"{v[pos + 1]['exc']}; first differing operation {k}: "
                               f"{cf.diff_history(rest[k], tv[k]) if bad else ''} exn {rest[k]['exc'] if bad else ''}", "case": c})
    return count


def _hook_args_repr(args, spec):
    """the same configuration in another representation (arrays for the bounds and precisions, a read-only Fortran-ordered
    array for the real data; numpy integers are left out: the json writer of the checkpoint only takes Python numbers, which
    is what the signature of Calibrator declares)"""
    import numpy as np

    a = dict(args)
    a["parameters_bounds"] = np.asfortranarray(np.array(args["parameters_bounds"], dtype=float))
    a["parameters_precision"] = np.array(args["parameters_precision"], dtype=float)
    # a Fortran-ordered read-only array - what DataFrame.to_numpy() returns - except for LikelihoodLoss, whose value depends
    # on the memory layout of the real data in the last bits: that input is the known finding `likelihood-real-data-layout`,
    # generated on its own below (scenario real-data-memory-layout) so that it cannot mask anything else
    rd = np.array(args["real_data"]) if spec["loss"] == "likelihood" and not spec.get("force_f_order") else np.asfortranarray(np.array(args["real_data"]))
    rd.setflags(write=False)
    a["real_data"] = rd
    return a


def _hook_cal_assign(cal, spec):
    """public attributes assigned after construction: the convergence precision of the calibrator and, on the sampler objects,
    batch size, de-duplication passes and the best-batch options - the values in force are the assigned ones, also after a
    restore"""
    if "assign_prec" in spec:
        cal.convergence_precision = spec["assign_prec"]
    if spec.get("assign_samplers"):
        for smp in cal.scheduler.samplers:
            smp.batch_size = smp.batch_size + 1
            if type(smp).__name__ not in ("ParticleSwarmSampler", "CORSSampler"):
                smp.max_deduplication_passes = 1
            if type(smp).__name__ == "BestBatchSampler":
                smp.a, smp.b, smp.perturbation_range = 1.25, 2.5, 3


rl.HOOKS.update({"c05:repr": _hook_args_repr, "c05:assign": _hook_cal_assign})


def resume_case(chk, stats, scen, spec, segments, boundaries, kw=None, twin_kw=None, lead=False, twin=None):
    """One stop/resume run against its uninterrupted twin; an exception in the resumed run is a difference as well."""
    kw, twin_kw = dict(kw or {}), dict(twin_kw if twin_kw is not None else (kw or {}))
    twin_kw.pop("n_jobs", None), twin_kw.pop("verbose", None)
    if twin is None:
        twin = rl.run_segments(spec, [sum(segments)], [], folder=None, **twin_kw)
    folder = rl.scratch(f"c05_sweep_{scen.replace(':', '_')}")
    try:
        h = rl.run_segments(spec, segments, list(boundaries), folder=str(folder), lead_restore=lead, **kw)
        d = rl.diff(twin, h)
        what = f"differs in {d} (shapes {h['shape']} vs {twin['shape']})"
    except Exception as e:  # noqa: BLE001
        d = ["raises"]
        what = f"raises {type(e).__name__}: {e}"
    finally:
        shutil.rmtree(folder, ignore_errors=True)
    stats[f"sweep:{scen}"] += 1
    if d:
        chk.violation({"kind": "oracle", "clause": "real-resume-differs", "boundary": "restore" if (any(x != "plain" for x in boundaries) or lead) else "plain",
                       "with": scen},
                      {"failed": "oracle:resume", "detail": f"[{scen}] line-up {spec['kinds']} loss {spec['loss']} segments {segments} boundaries "
                       f"{list(boundaries)}{' (restored before the first batch)' if lead else ''} {kw}: {what}",
                       "case": {"spec": spec, "segments": segments, "boundaries": list(boundaries), "kw": kw, "twin_kw": twin_kw, "lead": lead}})
    return twin


def rand_cut(rng, n):
    """a composition of n into >= 2 segments with at least one restore boundary"""
    comps = [c for c in rl.compositions(n) if len(c) >= 2]
    comp = rng.choice(comps)
    b = [rng.choice(["plain", "restore", "restore_auto"]) for _ in comp[:-1]]
    b[rng.below(len(b))] = rng.choice(["restore", "restore_auto"])
    return comp, b


def real_sweep(chk, stats):
    """Round 4: configurations, representations, reassigned attributes and cut patterns the earlier real runs did not reach."""
    rng = chk.rng
    quick = chk.tier == "quick"
    count = 0
    for rep in range(1 if quick else 4):
        def lineup(k=None, pool=None):
            pool = pool or (rl.CHEAP if quick else rl.ALL9)
            k = k or rng.randint(2, 3)
            kinds = [(rng.choice(pool), rng.randint(1, 3)) for _ in range(k)]
            kinds[0] = (rng.choice(["halton", "rseq", "uniform"]), max(3, max(b for _, b in kinds)))
            return kinds

        def mk(**kw):
            return dict({"kinds": lineup(), "nparams": rng.randint(1, 3), "E": rng.randint(1, 2), "seed": rng.below(2**31),
                         "loss": rng.choice(["minkowski", "msm", "fourier", "gsl", "likelihood"]), "rl": False}, **kw)

        # 1. simulation length other than the data length (the checkpoint stores N); the two losses the compositions never drew
        for loss in ("msm", "gsl", "likelihood"):
            comp, b = rand_cut(rng, 4)
            resume_case(chk, stats, "sim-length", mk(sim_length=rng.choice([17, 30]), loss=loss), comp, b)
            count += 1
        # 2. non-default options of every sampler class and of the loss: lost by anything that re-creates an object from its class
        for kind in rl.ALL9:
            spec = {"kinds": [("uniform", 3), (kind, 2)], "nparams": 2, "E": 1, "seed": rng.below(2**31),
                    "loss": rng.choice(["minkowski", "msm", "fourier", "gsl", "likelihood"]), "rl": False, "sampler_opts": "nondefault",
                    "loss_variant": "nondefault", "bounds": [[0.0, 0.1], [1.0, 1.1]]}
            twin = None
            for cut in ((1, 2, 3) if not quick or kind in ("pso", "cors", "bestbatch") else (2, 3)):
                twin = resume_case(chk, stats, f"non-default-options:{kind}", spec, [cut, 5 - cut], ["restore" if cut % 2 else "restore_auto"],
                                   twin=twin)
                count += 1
        # 3. the same configuration in another representation
        comp, b = rand_cut(rng, 4)
        resume_case(chk, stats, "representation", mk(loss=rng.choice(["minkowski", "msm", "fourier", "gsl"])), comp, b,
                    kw=dict(hooks={"args": "c05:repr"}))
        count += 1
        # 3b. KNOWN FINDING likelihood-real-data-layout: Fortran-ordered real data (DataFrame.to_numpy()), LikelihoodLoss, ensemble
        #     of two: the checkpoint gives the real data back C-ordered and the loss of the same series changes in its last bits
        spec = mk(loss="likelihood", E=2, force_f_order=True, kinds=[("halton", 3), ("uniform", 3), ("bestbatch", 3)])
        resume_case(chk, stats, "real-data-memory-layout", spec, [2, 4], ["restore"], kw=dict(hooks={"args": "c05:repr"}))
        count += 1
        # 4. attributes assigned after construction: sampler options ...
        spec = mk(kinds=[("halton", 3), ("bestbatch", 2), ("uniform", 1), ("rseq", 2)], assign_samplers=True)
        for comp, b in ([[2, 3], ["restore"]], [[1, 1, 3], ["restore", "restore"]], [[3, 2], ["restore"]]):
            resume_case(chk, stats, "assigned-after-construction:samplers", spec, comp, b, kw=dict(hooks={"cal": "c05:assign"}))
            count += 1
        # ... and the convergence precision (assigned, or given to the constructor): the uninterrupted calibrate(n) stops after
        # batch k < n; cut before k, restore, ask for the rest
        for how in ("assigned", "constructed"):
            for _try in range(40):
                p = rng.choice([0, 1, 1, 2])
                spec = mk(model="small_model", loss="minkowski", nparams=2, **({"assign_prec": p} if how == "assigned" else {"conv_prec": p}))
                kw = dict(hooks={"cal": "c05:assign"}) if how == "assigned" else {}
                twin = rl.run_segments(spec, [6], [], folder=None, **kw)
                k = twin["shape"][3]
                if 2 <= k < 6:
                    break
            else:
                stats[f"sweep:early-stop:{how}:not-found"] += 1
                continue
            for a in range(1, k):
                resume_case(chk, stats, f"early-stop:{how}", spec, [a, 6 - a], ["restore"], kw=kw, twin=twin)
                count += 1
        # 5. values: losses from O(1) to 1e300 (beyond float32, which the XGBoost sampler clips), parameters far from the origin
        #    relative to their spread (1e6 with steps of 0.01; +-1e8 with steps of 1e6; 1e-9 steps)
        spec = {"kinds": [("uniform", 3), ("xgb", 2), ("bestbatch", 2), ("pso", 2)], "nparams": 2, "E": 1, "seed": rng.below(2**31),
                "loss": "minkowski", "rl": False, "model": "wide_model", "bounds": [[0.0, 0.1], [1.0, 1.1]]}
        for comp, b in ([[2, 4], ["restore"]], [[3, 1, 2], ["restore", "restore"]]):
            resume_case(chk, stats, "huge-losses", spec, comp, b)
            count += 1
        for bounds, prec in (([[1e6, -1e-3], [1e6 + 1, 1e-3]], [0.01, 1e-5]), ([[-1e8, 1e-9], [1e8, 1e-7]], [1e6, 1e-9])):
            comp, b = rand_cut(rng, 5)
            resume_case(chk, stats, "far-from-origin", mk(nparams=2, bounds=bounds, precision=prec,
                                                          kinds=[("halton", 3), ("bestbatch", 2), ("pso", 2), ("rseq", 2)]), comp, b)
            count += 1
        # 6. cut patterns: a restore after every batch of a longer run; a restore before the first batch
        spec = mk(kinds=lineup(3, rl.CHEAP))
        resume_case(chk, stats, "restore-after-every-batch", spec, [1] * 8, ["restore", "restore_auto"] * 3 + ["restore"])
        resume_case(chk, stats, "restore-after-every-batch", spec, [1] * 8, ["restore_auto"] * 7)
        count += 1
        comp, b = rand_cut(rng, 4)
        resume_case(chk, stats, "restore-before-first-batch", mk(), comp, b, lead=True)
        resume_case(chk, stats, "restore-before-first-batch", mk(), [4], [], lead=True)
        count += 3
        # 7. an explicitly constructed scheduler (with its own seed); the resumed runs with several workers and verbose
        comp, b = rand_cut(rng, 4)
        resume_case(chk, stats, "explicit-scheduler", mk(sched_seed=rng.below(1000)), comp, b)
        comp, b = rand_cut(rng, 4)
        resume_case(chk, stats, "resumed-with-workers-and-verbose", mk(), comp, b, kw=dict(n_jobs=2, verbose=True))
        count += 2
    return count


def unseeded_and_long_resume(chk, stats):
    """(a) A calibrator built WITHOUT a seed cannot be re-run, but it can be forked: after a checkpoint the live object and
    the object restored from the folder hold the same generator state, so continuing either gives bitwise the same history.
    (b) A history of more than 64 rows in batches of several rows at the stop (sorting / grouping routines change algorithm
    with the table size; rows of one batch are ties for any key but the row number)."""
    import contextlib
    import io

    import numpy as np
    from black_it.calibrator import Calibrator

    rng = chk.rng
    count = 0
    for j in range(3 if chk.tier == "quick" else 20):
        kinds = [("halton", 3), (rng.choice(["uniform", "rseq", "bestbatch"]), 2), (rng.choice(["uniform", "pso", "cors"]), 2)]
        spec = {"kinds": kinds, "nparams": rng.randint(1, 3), "E": rng.randint(1, 2), "seed": None,
                "loss": rng.choice(["minkowski", "msm", "fourier"]), "rl": False}
        folder = rl.scratch(f"c05_unseeded_{j}")
        a, b = rng.randint(1, 3), rng.randint(1, 3)
        with contextlib.redirect_stdout(io.StringIO()), np.errstate(all="ignore"):
            live = rl.build(spec, folder=None, ctor_seed_shift=None)
            live.calibrate(a)
            live.create_checkpoint(str(folder))
            restored = Calibrator.restore_from_checkpoint(str(folder), model=rl.MODELS["ar1_model"])
            restored.saving_folder = None
            live.calibrate(b)
            restored.calibrate(b)
        d = rl.diff(rl.history(live), rl.history(restored))
        shutil.rmtree(folder, ignore_errors=True)
        count += 1
        stats["unseeded fork: live vs restored"] += 1
        if d:
            chk.violation({"kind": "oracle", "clause": "real-resume-differs", "boundary": "restore", "with": "no-seed"},
                          {"failed": "oracle:resume", "detail": f"calibrator without a seed, line-up {kinds}: after calibrate({a}) + "
                           f"checkpoint, the restored object and the live one continue differently over calibrate({b}): {d}",
                           "case": {"unseeded": {"spec": spec, "a": a, "b": b}}})
    for j in range(2 if chk.tier == "quick" else 10):
        bs = rng.randint(2, 5)
        kinds = [("halton", bs), ("uniform", bs), ("rseq", bs)]
        spec = {"kinds": kinds, "nparams": 2, "E": 1, "seed": rng.below(2**31), "loss": "minkowski", "rl": False}
        first = -(-(65 + rng.randint(0, 40)) // bs)          # batches before the stop: more than 64 rows
        more = rng.randint(1, 3)
        folder = rl.scratch(f"c05_long_{j}")
        twin = rl.run_segments(spec, [first + more], [])
        h = rl.run_segments(spec, [first, more], ["restore"], folder=str(folder))
        shutil.rmtree(folder, ignore_errors=True)
        count += 1
        stats["long history (>64 rows) resumes"] += 1
        d = rl.diff(twin, h)
        if d:
            chk.violation({"kind": "oracle", "clause": "real-resume-differs", "boundary": "restore", "with": "long-history"},
                          {"failed": "oracle:resume", "detail": f"{first} batches of {bs} rows ({first * bs} rows), restore, {more} more: differs in {d}",
                           "case": {"spec": spec, "segments": [first, more], "boundaries": ["restore"]}})
    return count


def run(chk, replay=None):
    from collections import Counter

    chk.proof_gate()
    if replay:
        case = json.loads(open(replay).read())["case"]
        if "spec" in case:
            folder = rl.scratch("c05_replay")
            if "twin_kw" in case:          # round-4 cases
                twin = rl.run_segments(case["spec"], [sum(case["segments"])], [], **case["twin_kw"])
                try:
                    d = rl.diff(twin, rl.run_segments(case["spec"], case["segments"], case["boundaries"], folder=str(folder),
                                                      lead_restore=case.get("lead", False), **case["kw"]))
                except Exception as e:  # noqa: BLE001
                    d = [f"raises {type(e).__name__}: {e}"]
                print("differs in", d)
                return 1 if d else 0
            twin = rl.run_segments(case["spec"], [sum(case["segments"])], [])
            if case.get("prefilled_folder"):
                other = {"kinds": [("uniform", 2), ("halton", 1)], "nparams": case["spec"]["nparams"], "E": 1, "seed": 99,
                         "loss": next(x for x in ("fourier", "minkowski", "msm") if x != case["spec"]["loss"]), "rl": False}
                rl.run_segments(other, [2], [], folder=str(folder))
            h = rl.run_segments(case["spec"], case["segments"], case["boundaries"], folder=str(folder))
            print("differs in", rl.diff(twin, h))
            return 1 if rl.diff(twin, h) else 0
        cases = [case]
    else:
        cases = gen_cases(chk)
    obs, bad, stats, keys, nontriv = cf.run_traces(
        chk, cases, lambda c, o: [], lambda c, o: any(op[0] == "restore" and v["exn"] == 0 for op, v in zip(c["ops"], o["views"])), label="C05")
    extra = Counter()
    n_tok = token_compositions(chk, extra) if not replay else 0
    n_real = real_compositions(chk, extra) if not replay else 0
    n_real += class_cut_sweep(chk, extra) if not replay else 0
    n_real += nan_runs(chk, extra) if not replay else 0
    n_tok += crash_resume(chk, extra) if not replay else 0
    n_tok += early_stop_resume(chk, extra) if not replay else 0
    n_tok += restore_transparency(chk, extra) if not replay else 0
    n_real += real_sweep(chk, extra) if not replay else 0
    n_real += unseeded_and_long_resume(chk, extra) if not replay else 0
    stats.update(extra)
    cov = {
        "evaluations": len(cases) + n_tok + n_real, "distinct": len(keys) + n_tok + n_real,
        "distinct_nontrivial": len(nontriv) + n_tok + n_real,
        "rule": "(a) token traces with checkpoint/restore operations replayed by the Coq model (exact); (b) token components: every "
                "composition of n (2..4 quick, 2..6 thorough) with every boundary kind in {second calibrate call, checkpoint+restore} "
                "against the uninterrupted twin; (c) real built-in samplers (Halton, R-sequence, uniform, best-batch, PSO, CORS, and one "
                "of RF/XGBoost/GP), real model and losses: sampled compositions x boundary kinds, plus for each of the nine classes X the "
                "line-up [uniform, X] cut by checkpoint+restore after every batch; histories compared bitwise with the uninterrupted twin; half of the real runs in a folder that already holds the checkpoint of another calibration; (d) token configurations with a convergence precision (0 included) cut before the stopping batch; (e, round 4) token operation sequences with reconfiguration, calibrate(0) and early stops: create_checkpoint + restore inserted at every position (before the first batch included) changes no later outcome; real runs with a simulation length other than the data length, all five losses, non-default options of every sampler class and loss, arguments in another representation, sampler options and the convergence precision assigned after construction, losses up to 1e300 and parameters at 1e6 / 1e8 with small steps, a restore after every batch of an 8-batch run, a restore before the first batch, an explicit scheduler object, resumed runs with two workers and verbose; non-trivial = a restore succeeded / a cut was made",
        "samples": cf.sample_cases(cases, obs),
        "traces_validated_against_impl": len(cases) - len(bad), "model_impl_disagreements": len(bad),
        "composition_runs_token": n_tok, "composition_runs_real": n_real,
        "distribution": dict(sorted(stats.items())),
    }
    return chk.finish(cov, assumptions=cf.ASSUME + ["round-robin line-ups (RL is single-session by the property's quantifier)"], trusted=cf.TRUSTED)
