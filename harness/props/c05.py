"""C05 - resuming from a checkpoint equals never having stopped."""
from __future__ import annotations

import itertools
import json
import shutil

from props import calib_common as cc
from props import calib_family as cf
from props import real_lineups as rl


def gen_cases(chk):
    rng = chk.rng
    quick = chk.tier == "quick"
    cases = []
    for i in range(200 if quick else 2000):
        c = cc.gen_case(rng, len(cases), max_ops=9 if quick else 14, max_samplers=4,
                        allow=("calibrate", "checkpoint", "restore", "restore"), prec_prob=10**9, nmax=3)
        c["cfg"]["prec"] = None
        c["cfg"]["saving"] = bool(rng.below(3))
        cases.append(c)
    return cases


def token_compositions(chk, stats):
    """Every composition of n with every choice of boundary kind, token components, compared with the uninterrupted twin."""
    rng = chk.rng
    nmax = 4 if chk.tier == "quick" else 5
    count = 0
    for lineup in range(3 if chk.tier == "quick" else 6):
        base = cc.gen_case(rng, 0, max_ops=1, max_samplers=4, prec_prob=10**9)
        base["cfg"].update(prec=None, saving=False)
        for n in range(2, nmax + 1):
            twin = dict(base, ops=[["calibrate", n]])
            tv = cc.run_case(twin)["views"][-1]
            for comp in rl.compositions(n):
                for kinds in itertools.product(("plain", "restore"), repeat=len(comp) - 1):
                    ops = []
                    for i, seg in enumerate(comp):
                        ops.append(["calibrate", seg])
                        if i < len(kinds) and kinds[i] == "restore":
                            ops += [["checkpoint"], ["restore"]]
                    c = dict(base, ops=ops)
                    v = cc.run_case(c)["views"][-1]
                    count += 1
                    stats[f"segments={len(comp)}"] += 1
                    if not cf.same_history(v, tv):
                        chk.violation({"kind": "oracle", "clause": "token-resume-differs"},
                                      {"failed": "oracle:resume", "detail": f"segments {comp} boundaries {kinds}: differs in {cf.diff_history(v, tv)}",
                                       "case": c})
    return count


def real_compositions(chk, stats):
    rng = chk.rng
    quick = chk.tier == "quick"
    kinds_pool = rl.CHEAP if quick else rl.ALL9
    count = 0
    nlineups = 3 if quick else 8
    for li in range(nlineups):
        k = rng.randint(2, 4)
        kinds = [(rng.choice(kinds_pool), rng.randint(1, 3)) for _ in range(k)]
        if not quick or li == 0:
            kinds[rng.below(k)] = (rng.choice(rl.ALL9[6:]), 2)      # one surrogate sampler
        # history-free first sampler, producing at least as many points as any later sampler needs (best-batch requires
        # batch_size existing points)
        kinds[0] = (rng.choice(["halton", "rseq", "uniform"]), max(3, max(b for _, b in kinds)))
        spec = {"kinds": kinds, "nparams": rng.randint(1, 3), "E": rng.randint(1, 2), "seed": rng.below(2**31),
                "loss": rng.choice(["minkowski", "msm", "fourier"]), "rl": False}
        n = 4 if quick else rng.randint(4, 6)
        folder = rl.scratch(f"c05_{li}")
        twin = rl.run_segments(spec, [n], [], folder=None)
        comps = list(rl.compositions(n))
        if quick:
            rng.shuffle(comps)
            comps = comps[:4]
        for comp in comps:
            opts = list(itertools.product(("plain", "restore"), repeat=len(comp) - 1))
            if quick and len(opts) > 2:
                rng.shuffle(opts)
                opts = opts[:2]
            for b in opts:
                shutil.rmtree(folder, ignore_errors=True)
                folder.mkdir(parents=True)
                prefilled = count % 2 == 1
                if prefilled:
                    # the folder already holds the checkpoint of ANOTHER calibration (other loss, other line-up, other seed):
                    # the run that is stopped and resumed in it must not pick up anything from it
                    other = {"kinds": [("uniform", 2), ("halton", 1)], "nparams": spec["nparams"], "E": 1, "seed": 99,
                             "loss": next(x for x in ("fourier", "minkowski", "msm") if x != spec["loss"]), "rl": False}
                    rl.run_segments(other, [2], [], folder=str(folder))
                    stats["real_runs_in_a_used_folder"] += 1
                h = rl.run_segments(spec, comp, list(b), folder=str(folder), ctor_seed_shift=0)
                count += 1
                stats["real_runs"] += 1
                d = rl.diff(twin, h)
                if d:
                    chk.violation({"kind": "oracle", "clause": "real-resume-differs", "boundary": "restore" if "restore" in b else "plain"},
                                  {"failed": "oracle:resume", "detail": f"line-up {kinds} segments {comp} boundaries {b}: differs in {d}",
                                   "case": {"spec": spec, "segments": comp, "boundaries": list(b), "prefilled_folder": prefilled}})
        shutil.rmtree(folder, ignore_errors=True)
    return count


def early_stop_resume(chk, stats):
    """Configurations WITH a convergence precision (0 included): the uninterrupted calibrate(n) stops after batch k < n; cutting
    it after any batch a < k (plain second call, or checkpoint + restore) and asking for the remaining n - a batches must stop
    after the same batch k with the same history."""
    rng = chk.rng
    n = 6
    count = found = tries = 0
    want = 6 if chk.tier == "quick" else 40
    while found < want and tries < 40 * want:
        tries += 1
        base = cc.gen_case(rng, 0, max_ops=1, max_samplers=3, bs_max=2, e_max=2, prec_prob=1)
        base["cfg"].update(prec=rng.choice([0, 0, 1, 2, base["cfg"]["prec"]]), saving=False)
        base["palette"] = cc.gen_palette(rng, base["cfg"]["prec"]) + [5.0, 3.0]
        twin = dict(base, ops=[["calibrate", n]])
        tv = cc.run_case(twin)["views"][-1]
        k = tv["batchidx"]
        if not 2 <= k < n:
            continue
        found += 1
        stats[f"early-stop:prec={base['cfg']['prec']}"] += 1
        for a in range(1, k):
            for kind in ("plain", "restore"):
                ops = [["calibrate", a]] + ([["checkpoint"], ["restore"]] if kind == "restore" else []) + [["calibrate", n - a]]
                c = dict(base, ops=ops)
                v = cc.run_case(c)["views"][-1]
                count += 1
                stats["early-stop:cuts"] += 1
                if not cf.same_history(v, tv):
                    chk.violation({"kind": "oracle", "clause": "token-resume-differs", "with": "convergence-precision"},
                                  {"failed": "oracle:resume", "detail": f"precision {base['cfg']['prec']}: uninterrupted calibrate({n}) stops "
                                   f"after batch {k}; cut after {a} ({kind}) then calibrate({n - a}) ends after batch {v['batchidx']}: "
                                   f"differs in {cf.diff_history(v, tv)}", "case": c})
    return count


def class_cut_sweep(chk, stats):
    """Which sampler is active at the cut matters (cursors, swarm state, surrogate seeds): for every built-in class X, the
    line-up [uniform, X] is cut by checkpoint+restore after every batch and compared with the uninterrupted twin."""
    rng = chk.rng
    count = 0
    n = 6 if chk.tier == "quick" else 8
    reps = {"pso": 4, "cors": 2, "bestbatch": 2}       # samplers that carry state between calls get several seeds
    for kind in [k for k in rl.ALL9 for _ in range(reps.get(k, 1) * (1 if chk.tier == "quick" else 2))]:
        # bounds close to the unit cube, so that unit-cube state kept by a sampler (swarm positions, sequence points) is
        # not masked by clipping
        spec = {"kinds": [("uniform", 3), (kind, 3)], "nparams": 2, "E": 1, "seed": rng.below(2**31), "loss": "minkowski", "rl": False,
                "bounds": [[0.0, 0.1], [1.0, 1.1]]}
        twin = rl.run_segments(spec, [n], [], folder=None)
        folder = rl.scratch(f"c05_cut_{kind}")
        for cut in range(1, n):
            shutil.rmtree(folder, ignore_errors=True)
            folder.mkdir(parents=True)
            h = rl.run_segments(spec, [cut, n - cut], ["restore"], folder=str(folder))
            count += 1
            stats[f"cut_sweep:{kind}"] += 1
            d = rl.diff(twin, h)
            if d:
                chk.violation({"kind": "oracle", "clause": "real-resume-differs", "boundary": "restore", "active": kind},
                              {"failed": "oracle:resume", "detail": f"line-up [uniform, {kind}], restore after batch {cut} of {n}: differs in {d}",
                               "case": {"spec": spec, "segments": [cut, n - cut], "boundaries": ["restore"]}})
        shutil.rmtree(folder, ignore_errors=True)
    return count


def crash_resume(chk, stats):
    """A calibration that dies in the middle of a batch (exception or Ctrl-C in model / loss / sampler) is resumed from its
    folder: the folder holds the last COMPLETED batch, so restore + continue must reproduce the uninterrupted run."""
    rng = chk.rng
    count = 0
    for li in range(3 if chk.tier == "quick" else 8):
        base = cc.gen_case(rng, 0, max_ops=1, max_samplers=3, bs_max=2, e_max=2, prec_prob=10**9)
        base["cfg"].update(prec=None, saving=True)
        n = rng.randint(3, 4)
        tv = cc.run_case(dict(base, ops=[["calibrate", n]]))["views"][-1]
        n_model = tv["nsampled"] * base["cfg"]["E"]
        # (sampler faults are keyed by the sampler's own call counter, which a restore rewinds: they would fire again)
        plans = [["model", rng.below(n_model)] for _ in range(3)] + [["loss", rng.below(tv["nsampled"])] for _ in range(2)]
        for j, f in enumerate(plans):
            flavour = "interrupt" if j % 2 else None
            c1 = dict(base, ops=[["calibrate", n]], fault=f, fault_flavour=flavour)
            v1 = cc.run_case(c1)["views"][-1]
            if v1["batchidx"] == 0 or v1["batchidx"] >= n:
                continue                      # nothing had been completed (no checkpoint to resume from) / the fault came too late
            rem = n - v1["batchidx"]
            c2 = dict(c1, ops=[["calibrate", n], ["restore"], ["calibrate", rem]])
            v2 = cc.run_case(c2)["views"]
            count += 1
            stats[f"crash_resume:{f[0]}:{flavour or 'exception'}"] += 1
            if v2[1]["exn"] != 0 or v2[2]["exn"] != 0 or not cf.same_history(v2[2], tv):
                chk.violation({"kind": "oracle", "clause": "crash-resume-differs", "fault": f[0], "flavour": flavour or "exception"},
                              {"failed": "oracle:resume", "detail": f"fault {f} ({flavour or 'exception'}) after {v1['batchidx']} completed batches; "
                               f"restore -> {v2[1]['exc']}, continue -> {v2[2]['exc']}, differs in "
                               f"{cf.diff_history(v2[2], tv) if v2[2]['exn'] == 0 else 'n/a'}", "case": c2})
    return count


def nan_runs(chk, stats):
    """NaN losses are legitimate values (a model may produce NaN series): a row holding one must survive a restore."""
    import numpy as np

    rng = chk.rng
    count = 0
    for li in range(2 if chk.tier == "quick" else 6):
        spec = {"kinds": [("uniform", 3), ("halton", 2)], "nparams": 2, "E": 1, "seed": rng.below(2**31), "loss": "fourier", "rl": False,
                "bounds": [[0.0, 0.1], [1.0, 1.1]], "model": "nan_model"}
        n = 5
        twin = rl.run_segments(spec, [n], [], folder=None)
        if b"\x00\x00\x00\x00\x00\x00\xf8\x7f" not in twin["losses"] and b"\x00\x00\x00\x00\x00\x00\xf8\xff" not in twin["losses"]:
            stats["nan_runs:no-nan"] += 1
        folder = rl.scratch(f"c05_nan_{li}")
        for cut in range(1, n):
            shutil.rmtree(folder, ignore_errors=True)
            folder.mkdir(parents=True)
            h = rl.run_segments(spec, [cut, n - cut], ["restore"], folder=str(folder))
            count += 1
            stats["nan_runs"] += 1
            d = rl.diff(twin, h)
            if d:
                chk.violation({"kind": "oracle", "clause": "real-resume-differs", "boundary": "restore", "with": "nan-losses"},
                              {"failed": "oracle:resume", "detail": f"model producing NaN series for part of the space, restore after batch {cut} of {n}: "
                               f"differs in {d} (shapes {h['shape']} vs {twin['shape']})",
                               "case": {"spec": spec, "segments": [cut, n - cut], "boundaries": ["restore"]}})
        shutil.rmtree(folder, ignore_errors=True)
    return count


def run(chk, replay=None):
    from collections import Counter

    chk.proof_gate()
    if replay:
        case = json.loads(open(replay).read())["case"]
        if "spec" in case:
            folder = rl.scratch("c05_replay")
            twin = rl.run_segments(case["spec"], [sum(case["segments"])], [])
            if case.get("prefilled_folder"):
                other = {"kinds": [("uniform", 2), ("halton", 1)], "nparams": case["spec"]["nparams"], "E": 1, "seed": 99,
                         "loss": next(x for x in ("fourier", "minkowski", "msm") if x != case["spec"]["loss"]), "rl": False}
                rl.run_segments(other, [2], [], folder=str(folder))
            h = rl.run_segments(case["spec"], case["segments"], case["boundaries"], folder=str(folder))
            print("differs in", rl.diff(twin, h))
            return 1 if rl.diff(twin, h) else 0
        cases = [case]
    else:
        cases = gen_cases(chk)
    obs, bad, stats, keys, nontriv = cf.run_traces(
        chk, cases, lambda c, o: [], lambda c, o: any(op[0] == "restore" and v["exn"] == 0 for op, v in zip(c["ops"], o["views"])), label="C05")
    extra = Counter()
    n_tok = token_compositions(chk, extra) if not replay else 0
    n_real = real_compositions(chk, extra) if not replay else 0
    n_real += class_cut_sweep(chk, extra) if not replay else 0
    n_real += nan_runs(chk, extra) if not replay else 0
    n_tok += crash_resume(chk, extra) if not replay else 0
    n_tok += early_stop_resume(chk, extra) if not replay else 0
    stats.update(extra)
    cov = {
        "evaluations": len(cases) + n_tok + n_real, "distinct": len(keys) + n_tok + n_real,
        "distinct_nontrivial": len(nontriv) + n_tok + n_real,
        "rule": "(a) token traces with checkpoint/restore operations replayed by the Coq model (exact); (b) token components: every "
                "composition of n (2..4 quick, 2..6 thorough) with every boundary kind in {second calibrate call, checkpoint+restore} "
                "against the uninterrupted twin; (c) real built-in samplers (Halton, R-sequence, uniform, best-batch, PSO, CORS, and one "
                "of RF/XGBoost/GP), real model and losses: sampled compositions x boundary kinds, plus for each of the nine classes X the "
                "line-up [uniform, X] cut by checkpoint+restore after every batch; histories compared bitwise with the uninterrupted twin; half of the real runs in a folder that already holds the checkpoint of another calibration; (d) token configurations with a convergence precision (0 included) cut before the stopping batch; non-trivial = a restore succeeded / a cut was made",
        "samples": cf.sample_cases(cases, obs),
        "traces_validated_against_impl": len(cases) - len(bad), "model_impl_disagreements": len(bad),
        "composition_runs_token": n_tok, "composition_runs_real": n_real,
        "distribution": dict(sorted(stats.items())),
    }
    return chk.finish(cov, assumptions=cf.ASSUME + ["round-robin line-ups (RL is single-session by the property's quantifier)"], trusted=cf.TRUSTED)
