"""C16 - history-driven samplers use the history faithfully and never modify it.

Models: coq/Model/Surrogate.v, coq/Model/BestBatch.v   Theorems: coq/Properties/C16.v

What is run on the real code (every sample() of every case twice: once with writable arrays, once with the history arrays
set read-only so that ANY in-place write raises):
  (i)   all nine built-in samplers: byte / dtype / shape / writeable-flag snapshots of existing_points and existing_losses
        around every sample(), on histories with ties, +-inf (where tolerated), +-1e40, float32-overflowing losses; 1-3
        successive calls with the history extended the way the calibrator does (np.concatenate -> new arrays);
  (ii)  a stub MLSurrogateSampler with adversarial fit / predict (constant, ties, monotone, random, integer classes) and
        real or off-grid pools, and the three built-in surrogates with the library `.fit` wrapped: what fit / the library
        is handed, the pool handed to predict, the predictions, the answer of np.argsort, the argument and result of
        digitize_data are recorded for every sample_batch call and evaluated by the Coq model as a MONITOR
        (`check_case (SB ...)`: the recorded order must be an admissible argsort answer, the recorded selection must be
        pool[order][:k], the return value its snap); XGBoostSampler._clip_losses is compared with `clip_losses`;
  (iii) BestBatchSampler: the generator's integers / choice and betabinom.rvs outputs are recorded through a recording
        np.random.Generator subclass, fed to the Coq model as inputs (`check_bcase (BB ...)`), displacement checked
        exactly in Q on dyadic spaces and within 2^-40 relative on decimal spaces.
Direct oracle (Python Fractions, independent of the Coq model): the property statement on the observations.

Round 4 (generator sweep, see design.d/C16.md): the same three parts on float32 / int64 / strided-view / Fortran histories
(`materialise`), on ONE sampler object reused by its caller (other history of the same / another length, the same arrays
overwritten in place, the returned batch fed back as history, another search space, a rejected call in the middle, direct
sample_batch(k) calls), with public attributes assigned after construction and between calls (`ctor`, `attrs`), in
non-default configurations (`build_configured`), at the 500-point threshold of the GP sampler, with almost-tied / signed-zero /
far-level losses and predictions, and with memoising / view-returning / read-only user predictions and pools.
"""
from __future__ import annotations

import os

os.environ.setdefault("OMP_NUM_THREADS", "1")  # xgboost with 16 OpenMP threads needs seconds per 12-point fit

import contextlib
import io
import json
import signal
import warnings
from collections import Counter
from fractions import Fraction

import numpy as np

from common import cbool, clist, cnat

IMPORTS_S = "From Coq Require Import List ZArith QArith Floats.\nFrom BlackIt Require Import Model.Surrogate."
IMPORTS_B = "From Coq Require Import List ZArith QArith Floats.\nFrom BlackIt Require Import Model.BestBatch."
PREAMBLE = "Open Scope float_scope."
ALL9 = ["halton", "rseq", "uniform", "bestbatch", "pso", "cors", "rf", "xgb", "gp"]
SURROGATES = ("rf", "xgb", "gp", "stub")
F32MAX = 3.4028234663852886e38
TOL = Fraction(1, 1 << 40)
SNAP_NUM, SNAP_DEN = (1 << 50) + 1, 1 << 50
MARGIN = {"bb_tolerant_max_error_over_tolerance": 0.0, "bb_tolerant_min_step_over_tolerance": float("inf")}


def H(x):
    return float(x).hex()


def F(s):
    return float.fromhex(s)


class CallTimeout(Exception):
    pass


@contextlib.contextmanager
def alarm(seconds):
    def handler(signum, frame):  # noqa: ARG001
        raise CallTimeout

    old = signal.signal(signal.SIGALRM, handler)
    signal.alarm(seconds)
    try:
        yield
    finally:
        signal.alarm(0)
        signal.signal(signal.SIGALRM, old)


def snapshot(a):
    # contents (C-order bytes of the elements the array addresses), dtype, shape, writeable flag, strides
    return (a.tobytes(), a.dtype.str, tuple(a.shape), bool(a.flags.writeable), tuple(a.strides))


def snap_values(sn):
    """(shape, float64 values as bytes) of a snapshot: the history as VALUES, whatever its dtype (round 4)"""
    try:
        a = np.frombuffer(sn[0], dtype=sn[1]).reshape(sn[2])
        return (tuple(sn[2]), np.asarray(a, dtype=np.float64).tobytes())
    except (TypeError, ValueError):
        return (tuple(sn[2]), sn[0], sn[1])


def same_float(a, b):
    return float(a).hex() == float(b).hex()


# ------------------------------------------------------------------ instrumentation
class NpProxy:
    """Stands for the module-level name `np` of a sampler module; records np.argsort, forwards everything else."""

    def __init__(self, real, events):
        object.__setattr__(self, "_real", real)
        object.__setattr__(self, "_events", events)

    def __getattr__(self, name):
        return getattr(self._real, name)

    def argsort(self, a, *args, **kw):
        r = self._real.argsort(a, *args, **kw)
        self._events.append(("argsort", np.array(a, copy=True), [int(i) for i in np.array(r).ravel()]))
        return r


class NsProxy:
    def __init__(self, real, **over):
        self._real, self._over = real, over

    def __getattr__(self, name):
        if name in self._over:
            return self._over[name]
        return getattr(self._real, name)


def make_recgen(gen, events):
    class RecGen(np.random.Generator):
        def integers(self, *a, **k):
            r = super().integers(*a, **k)
            events.append(("integers", [int(x) if x is not None else None for x in a], np.array(r).tolist()))
            return r

        def choice(self, *a, **k):
            r = super().choice(*a, **k)
            events.append(("choice", None, np.array(r).tolist()))
            return r

    return RecGen(gen.bit_generator)


@contextlib.contextmanager
def patched(pairs):
    saved = [(m, n, getattr(m, n)) for m, n, _ in pairs]
    for m, n, v in pairs:
        setattr(m, n, v)
    try:
        yield
    finally:
        for m, n, v in saved:
            setattr(m, n, v)


NP_SCALAR = {"int": np.int64, "float": np.float64}


def build_sampler(case):
    """The sampler of the case.  Round 4: `case["ctor"]` holds constructor-time values that DIFFER from the values in
    force (`case["bs"]`, `opts["range"]`, `opts["a"]`, `opts["b"]`, `opts["passes"]`): the object is built with the
    former and the public attributes are then assigned the latter - the value in force is the assigned one."""
    kind, bs, seed, o = case["kind"], case["bs"], case["seed"], case.get("opts", {})
    ct = case.get("ctor") or {}
    bs0 = ct.get("bs", bs)
    if kind == "stub":
        from black_it.samplers.surrogate import MLSurrogateSampler

        class Stub(MLSurrogateSampler):
            def __init__(self):
                # the constructor rejects candidate_pool_size < batch_size (b8551a2); an overriding sample_candidates may
                # still return a smaller pool, which sample_batch must handle as the model says (min k |pool| rows)
                super().__init__(bs0, random_state=seed, candidate_pool_size=max(o["pool_size"], bs0),
                                 max_deduplication_passes=ct.get("passes", o.get("passes", 5)))
                self.ncall = 0
                self.nfit = 0
                self.memo = {}
                self.pools = {}

            def sample_candidates(self, n, ss, pts, los):
                if o["pool"] == "real":
                    return super().sample_candidates(n, ss, pts, los)
                i = self.ncall % len(o["pool_rows"])
                rows = [r[: ss.dims] + r[:1] * (ss.dims - len(r)) for r in o["pool_rows"][i]]
                if o.get("pool_memo"):  # a memoising user pool: the SAME read-only array object every time (round 4)
                    key = (i, ss.dims)
                    if key not in self.pools:
                        a = np.array([[F(x) for x in r] for r in rows], dtype=float).reshape(len(rows), ss.dims)
                        a.flags.writeable = False
                        self.pools[key] = a
                    return self.pools[key]
                return np.array([[F(x) for x in r] for r in rows], dtype=float).reshape(len(rows), ss.dims)

            def fit(self, X, y):  # noqa: N803
                self.nfit += 1
                if self.nfit in o.get("fit_raises", ()):
                    raise RuntimeError("stub fit failure (scripted)")
                self.seen = (X.shape, y.shape)

            def predict(self, X):  # noqa: N803
                self.ncall += 1
                g = np.random.default_rng(seed + 1000 * self.ncall)
                n, mode = len(X), o["mode"]
                if mode == "constant":
                    return np.full(n, 2.5)
                if mode == "ties":
                    return g.integers(0, 3, n).astype(float) * 0.5
                if mode == "classes":
                    return g.integers(0, 3, n)  # int64, like RandomForestClassifier.predict
                if mode == "monotone":
                    return X[:, 0] * -3.0 + 1.0
                if mode == "rowfun":
                    return np.round(np.sin(X.sum(axis=1) * 7.0), 1)
                if mode == "huge":
                    return g.choice([1e300, -1e300, 5e-324, 0.0, -0.0, 1.0], n)
                # ---- round 4: representations of the returned predictions
                if mode == "view":  # a (strided) VIEW of the pool handed to predict: writing into it changes the pool
                    return X[:, 0]
                if mode == "memo":  # a memoising surrogate: the same read-only array object for the same pool size
                    if n not in self.memo:
                        a = np.random.default_rng(seed + n).standard_normal(n).round(1)
                        a.flags.writeable = False
                        self.memo[n] = a
                    return self.memo[n]
                if mode == "bcast":  # a constant surrogate returning a read-only broadcast view (all ties)
                    return np.broadcast_to(np.float64(-1.5), (n,))
                if mode == "f32":  # float32 predictions, like XGBRegressor.predict
                    return g.standard_normal(n).astype(np.float32)
                if mode == "close":  # predictions that differ in the last bits only (equal under isclose / float32)
                    return 1.0 + g.integers(0, 4, n) * 2.0 ** -52
                if mode == "far":  # large level, O(1) differences (equal in float32)
                    return 1e8 + g.integers(0, 5, n).astype(float)
                if mode == "tiny":  # subnormal / signed-zero predictions
                    return g.choice([5e-324, 1e-323, 0.0, -0.0, -5e-324, 2.5e-320], n)
                return g.standard_normal(n)

        sm_ = Stub()
        if "bs" in ct:
            sm_.batch_size = bs
        if "passes" in ct:
            sm_.max_deduplication_passes = o.get("passes", 5)
        return sm_
    if kind == "bestbatch":
        from black_it.samplers.best_batch import BestBatchSampler

        a0, b0, r0 = ct.get("a", o["a"]), ct.get("b", o["b"]), ct.get("range", o["range"])
        k0 = bs0
        if o.get("np_scalars"):  # numpy scalars as option values
            a0, b0, r0, k0 = np.float64(a0), np.float32(b0), np.int64(r0), np.int64(bs0)
        if o.get("int_ab"):  # integer-typed a / b
            a0, b0 = int(a0), int(b0)
        extra = {"max_deduplication_passes": ct.get("passes", o["passes"])} if "passes" in o else {}
        s_ = BestBatchSampler(k0, random_state=seed, a=a0, b=b0, perturbation_range=r0, **extra)
        if "bs" in ct:
            s_.batch_size = bs
        if "range" in ct:
            s_.perturbation_range = o["range"]
        if "a" in ct:
            s_.a = o["a"]
        if "b" in ct:
            s_.b = o["b"]
        if "passes" in ct:
            s_.max_deduplication_passes = o["passes"]
        return s_
    if o.get("cfg"):
        s_ = build_configured(kind, bs0, seed, o, ct)
    else:
        from props.real_lineups import make_sampler

        s_ = make_sampler(kind, bs0, seed)
    if "bs" in ct:
        s_.batch_size = bs
    if "passes" in ct:
        s_.max_deduplication_passes = o.get("passes", 5)
    return s_


def build_configured(kind, bs, seed, o, ct):
    """Round 4: the built-in samplers in non-default configurations (real_lineups.make_sampler gives the default ones)."""
    passes = ct.get("passes", o.get("passes", 5))
    if kind == "halton":
        from black_it.samplers.halton import HaltonSampler

        return HaltonSampler(batch_size=bs, random_state=seed, max_deduplication_passes=passes)
    if kind == "rseq":
        from black_it.samplers.r_sequence import RSequenceSampler

        return RSequenceSampler(batch_size=bs, random_state=seed, max_deduplication_passes=passes)
    if kind == "uniform":
        from black_it.samplers.random_uniform import RandomUniformSampler

        return RandomUniformSampler(batch_size=bs, random_state=seed, max_deduplication_passes=passes)
    if kind == "pso":
        from black_it.samplers.particle_swarm import ParticleSwarmSampler

        return ParticleSwarmSampler(batch_size=bs, random_state=seed, inertia=o.get("inertia", 0.9), c1=o.get("c1", 0.1),
                                    c2=o.get("c2", 0.1), global_minimum_across_samplers=bool(o.get("pso_global", False)))
    if kind == "cors":
        from black_it.samplers.cors import CORSSampler

        return CORSSampler(batch_size=bs, max_samples=o.get("max_samples", 40), rho0=o.get("rho0", 0.5), p=o.get("p", 1.0),
                           random_state=seed, verbose=bool(o.get("verbose", False)))
    if kind == "rf":
        from black_it.samplers.random_forest import RandomForestSampler

        return RandomForestSampler(batch_size=bs, random_state=seed, candidate_pool_size=o.get("pool", 40), n_estimators=8,
                                   n_classes=o.get("n_classes", 3), criterion=o.get("criterion", "gini"),
                                   max_deduplication_passes=passes)
    if kind == "xgb":
        from black_it.samplers.xgboost import XGBoostSampler

        return XGBoostSampler(batch_size=bs, random_state=seed, candidate_pool_size=o.get("pool", 40),
                              n_estimators=o.get("n_estimators", 4), max_depth=o.get("max_depth", 2),
                              max_deduplication_passes=passes)
    if kind == "gp":
        from black_it.samplers.gaussian_process import GaussianProcessSampler

        return GaussianProcessSampler(batch_size=bs, random_state=seed, candidate_pool_size=o.get("pool", 40),
                                      optimize_restarts=o.get("restarts", 1), acquisition=o.get("acq", "expected_improvement"),
                                      jitter=o.get("jitter", 0.1), max_deduplication_passes=passes)
    raise ValueError(kind)


def apply_attrs(sampler, attrs, kind, events):
    """Round 4: public attributes assigned after construction (the value in force is the assigned one)."""
    for name, val in (attrs or {}).items():
        setattr(sampler, name, val)
        if name == "random_state" and kind == "bestbatch":  # the setter makes a new generator: record that one
            sampler._BaseSeedable__random_generator = make_recgen(sampler.random_generator, events)  # noqa: SLF001


def instrument(case, sampler, events):
    """Returns the list of (module, name, replacement) patches for this kind; wraps instance methods in place."""
    kind = case["kind"]
    pairs = []

    def digitize_rec(real):
        def w(data, grid):
            r = real(data, grid)
            events.append(("digitize", np.array(data, copy=True), np.array(r, copy=True)))
            return r

        return w

    if kind in SURROGATES:
        import black_it.samplers.surrogate as sm

        pairs += [(sm, "np", NpProxy(np, events)), (sm, "digitize_data", digitize_rec(sm.digitize_data))]
        ofit, opred = sampler.fit, sampler.predict

        def fit(X, y):  # noqa: N803
            events.append(("fit", snapshot(X), snapshot(y)))
            return ofit(X, y)

        def predict(X):  # noqa: N803
            r = opred(X)
            events.append(("predict", np.array(X, copy=True), np.array(r, copy=True)))
            return r

        sampler.fit, sampler.predict = fit, predict
    if kind == "rf":
        import black_it.samplers.random_forest as rfm

        class RecRF(rfm.RandomForestClassifier):
            def fit(self, X, y, *a, **k):  # noqa: N803
                events.append(("libfit", snapshot(np.asarray(X)), np.array(y, copy=True)))
                return super().fit(X, y, *a, **k)

        pairs.append((rfm, "RandomForestClassifier", RecRF))
    if kind == "xgb":
        import black_it.samplers.xgboost as xm

        class RecXGB(xm.xgb.XGBRegressor):
            def fit(self, X, y, *a, **k):  # noqa: N803
                events.append(("libfit", snapshot(np.asarray(X)), np.array(y, copy=True)))
                return super().fit(X, y, *a, **k)

        pairs.append((xm, "xgb", NsProxy(xm.xgb, XGBRegressor=RecXGB)))
    if kind == "gp":
        import black_it.samplers.gaussian_process as gm

        class RecGP(gm.GaussianProcessRegressor):
            def fit(self, X, y, *a, **k):  # noqa: N803
                events.append(("libfit", snapshot(np.asarray(X)), np.array(y, copy=True)))
                return super().fit(X, y, *a, **k)

        pairs.append((gm, "GaussianProcessRegressor", RecGP))
    if kind == "bestbatch":
        import black_it.samplers.best_batch as bm

        real_bb = bm.betabinom

        def betabinom_rec(*a, **k):
            rv = real_bb(*a, **k)
            orvs = rv.rvs

            def rvs(*aa, **kk):
                r = orvs(*aa, **kk)
                events.append(("rvs", int(k.get("n", -1)), [int(x) for x in np.array(r).ravel()]))
                return r

            rv.rvs = rvs
            return rv

        pairs += [(bm, "np", NpProxy(np, events)), (bm, "digitize_data", digitize_rec(bm.digitize_data)),
                  (bm, "betabinom", betabinom_rec)]
        sampler._BaseSeedable__random_generator = make_recgen(sampler.random_generator, events)  # noqa: SLF001
    # delimit sample_batch calls
    osb = sampler.sample_batch

    def sample_batch(batch_size, search_space, existing_points, existing_losses):
        events.append(("sb_begin", int(batch_size), snapshot(existing_points), snapshot(existing_losses)))
        try:
            r = osb(batch_size, search_space, existing_points, existing_losses)
        except Exception as e:  # noqa: BLE001
            events.append(("sb_raise", type(e).__name__, str(e)[:200], snapshot(existing_points), snapshot(existing_losses)))
            raise
        events.append(("sb_end", np.array(r, copy=True), snapshot(existing_points), snapshot(existing_losses)))
        return r

    sampler.sample_batch = sample_batch
    return pairs


# ------------------------------------------------------------------ implementation driver
def space_dict(case):
    return {k: case[k] for k in ("lower", "upper", "prec", "exact")}


def make_space(sp):
    from black_it.search_space import SearchSpace

    lo, up, pr = ([F(x) for x in sp[k]] for k in ("lower", "upper", "prec"))
    return SearchSpace([lo, up], pr, False)


DTYPES = {"f4": np.float32, "i8": np.int64, "f2": np.float16, "i4": np.int32}
SENTINEL = 777.25


def materialise(rows, losses, dims, rp):
    """The history arrays in the representation rp = {"pts": ..., "los": ...} (round 4).  Returns (pts, los, bases):
    `bases` are the arrays the views are taken from (their other elements must stay intact too)."""
    n = len(rows)
    P = np.array([[F(x) for x in r] for r in rows], dtype=float).reshape(n, dims)  # noqa: N806
    Lv = np.array([F(x) for x in losses], dtype=float)  # noqa: N806
    bases = []
    pr, lr = (rp or {}).get("pts", "f8"), (rp or {}).get("los", "f8")
    if pr in DTYPES:
        pts = P.astype(DTYPES[pr])
    elif pr == "fortran":
        pts = np.asfortranarray(P)
    elif pr == "rows2":  # every second row of a longer table
        base = np.full((2 * n + 1, dims), SENTINEL)
        pts = base[1:2 * n:2]
        pts[...] = P
        bases.append(base)
    elif pr == "cols":  # the parameter columns of a wider table
        base = np.full((n, dims + 2), SENTINEL)
        pts = base[:, 1:dims + 1]
        pts[...] = P
        bases.append(base)
    elif pr == "rev":  # negative strides
        base = P[::-1].copy()
        pts = base[::-1]
        bases.append(base)
    else:
        pts = P
    if lr in DTYPES:
        with np.errstate(all="ignore"):
            los = Lv.astype(DTYPES[lr])
    elif lr == "step2":
        base = np.full(2 * len(Lv) + 1, SENTINEL)
        los = base[1:2 * len(Lv):2]
        los[...] = Lv
        bases.append(base)
    elif lr == "col":  # one column of a 2-D table of results
        base = np.full((len(Lv), 3), SENTINEL)
        los = base[:, 1]
        los[...] = Lv
        bases.append(base)
    elif lr == "rev":
        base = Lv[::-1].copy()
        los = base[::-1]
        bases.append(base)
    else:
        los = Lv
    return pts, los, bases


def set_writeable(arrs, bases, flag):
    for a in (list(bases) + list(arrs)) if flag else (list(arrs) + list(bases)):
        with contextlib.suppress(ValueError):
            a.flags.writeable = flag


def full_snapshot(pts, los, bases):
    return (snapshot(pts), snapshot(los), tuple(b.tobytes() for b in bases))


def run_case(case, readonly):
    """One case on the real code.  Returns the observations (numpy arrays inside; see `jsonable`).

    Round 4: `case["repr"]` = representation of the first history; `case["steps"][c-1]` = what the caller does before
    call c >= 1: {"op": "grow" (default: the calibrator's np.concatenate) | "feed_output" (the returned array ITSELF is the
    next history) | "inplace" (the caller overwrites the SAME array objects) | "same" (the same arrays again) | "other"
    (new arrays: another length / content, optionally another search space: "space"), "pts", "losses", "repr",
    "attrs": attributes assigned before the call, "direct_k": call sample_batch(k, ...) directly instead of sample()}."""
    sp = space_dict(case)
    ss = make_space(sp)
    sampler = build_sampler(case)
    events = []
    calls = []
    kept = []
    steps = case.get("steps") or []
    o = case.get("opts", {})
    in_force = {"range": o.get("range"), "bs": case["bs"]}
    pts = los = out = None
    bases = []
    with patched(instrument(case, sampler, events)):
        for c in range(case["calls"]):
            step = (case.get("first") or {}) if c == 0 else (steps[c - 1] if c - 1 < len(steps) else {"op": "grow"})
            op = "init" if c == 0 else step.get("op", "grow")
            if op == "init":
                pts, los, bases = materialise(case["pts"], case["losses"], ss.dims, case.get("repr"))
            elif op == "grow":
                if out is None:
                    break
                nl = np.array([F(x) for x in case["next_losses"][c - 1]][: len(out)], dtype=float)
                pts = np.concatenate((pts, out))
                los = np.concatenate((los, nl))
                bases = []
            elif op == "feed_output":
                if out is None:
                    break
                pts = out  # the very array the sampler returned
                los = np.array([F(x) for x in case["next_losses"][c - 1]][: len(out)], dtype=float)
                bases = []
            elif op == "inplace":
                set_writeable((pts, los), bases, True)
                with np.errstate(all="ignore"):
                    if step.get("pts") is None:  # the same rows in another order
                        pts[...] = np.roll(np.array(pts, dtype=float), 1, axis=0)
                    else:
                        pts[...] = np.array([[F(x) for x in r] for r in step["pts"]], dtype=float).reshape(pts.shape)
                    los[...] = np.array([F(x) for x in step["losses"]], dtype=float)
            elif op == "other":
                if "space" in step:
                    sp = step["space"]
                    ss = make_space(sp)
                pts, los, bases = materialise(step["pts"], step["losses"], ss.dims, step.get("repr"))
            # "same": nothing changes
            attrs = step.get("attrs") or {}
            apply_attrs(sampler, attrs, case["kind"], events)
            if "perturbation_range" in attrs:
                in_force["range"] = int(attrs["perturbation_range"])
            if "batch_size" in attrs:
                in_force["bs"] = int(attrs["batch_size"])
            if readonly:
                set_writeable((pts, los), bases, False)
            if op == "inplace":
                # the caller's own change is not the sampler's: refresh the snapshots kept of these objects
                kept = [(p, l, b, full_snapshot(p, l, b) if (p is pts or l is los) else s0_) for p, l, b, s0_ in kept]
            s0 = full_snapshot(pts, los, bases)
            kept.append((pts, los, bases, s0))
            e0 = len(events)
            out, err = None, None
            try:
                with alarm(case.get("alarm", 60)), contextlib.redirect_stdout(io.StringIO()), np.errstate(all="ignore"), \
                        warnings.catch_warnings():
                    warnings.simplefilter("ignore")
                    if step.get("direct_k") is not None:
                        out = sampler.sample_batch(step["direct_k"], ss, pts, los)
                    else:
                        out = sampler.sample(ss, pts, los)
            except CallTimeout:
                err = "Timeout"
            except Exception as e:  # noqa: BLE001
                err = f"{type(e).__name__}: {str(e)[:160]}"
            s1 = full_snapshot(pts, los, bases)
            cfg = dict(sp)
            cfg.update(range=in_force["range"], bs=in_force["bs"], op=op, direct_k=step.get("direct_k"))
            calls.append({"err": err, "out": None if out is None else np.array(out, copy=True),
                          "untouched": s0 == s1, "diff": describe_diff(s0, s1, pts, los, case, c),
                          "events": events[e0:], "pts": pts, "los": los, "grid": [np.array(g) for g in ss.param_grid],
                          "cfg": cfg})
    later = [i for i, (p, l, b, s0) in enumerate(kept) if full_snapshot(p, l, b) != s0]
    return {"calls": calls, "later_touched": later, "readonly": readonly}


def describe_diff(s0, s1, pts, los, case, c):
    if s0 == s1:
        return None
    d = []
    for name, a0, a1, arr in (("existing_points", s0[0], s1[0], pts), ("existing_losses", s0[1], s1[1], los)):
        if a0[1:] != a1[1:]:
            d.append(f"{name}: dtype/shape/writeable/strides {a0[1:]} -> {a1[1:]}")
        if a0[0] != a1[0]:
            before = np.frombuffer(a0[0], dtype=a0[1]).reshape(a0[2])
            idx = np.argwhere(~((before == arr) | ((before != before) & (arr != arr))))
            i = tuple(int(x) for x in idx[0]) if len(idx) else ()
            d.append(f"{name}{list(i)}: {before[i]!r} -> {arr[i]!r} ({len(idx)} element(s) changed) during sample() #{c}")
    if len(s0) > 2 and s0[2] != s1[2]:
        d.append(f"the array the history is a view of was changed outside / inside the view during sample() #{c}")
    return "; ".join(d)


# ------------------------------------------------------------------ splitting the event log into sample_batch calls
def sb_calls(events):
    cur, res = None, []
    for e in events:
        if e[0] == "sb_begin":
            cur = {"k": e[1], "pts0": e[2], "los0": e[3], "ev": [], "raised": None, "out": None}
        elif e[0] == "sb_end" and cur is not None:
            cur["out"], cur["pts1"], cur["los1"] = e[1], e[2], e[3]
            res.append(cur)
            cur = None
        elif e[0] == "sb_raise" and cur is not None:
            cur["raised"], cur["pts1"], cur["los1"] = (e[1], e[2]), e[3], e[4]
            res.append(cur)
            cur = None
        elif cur is not None:
            cur["ev"].append(e)
    return res


def parse_surrogate_call(sb):
    """fit -> predict -> argsort -> digitize, each once; [libfit] inside fit."""
    names = [e[0] for e in sb["ev"] if e[0] != "libfit"]
    if names != ["fit", "predict", "argsort", "digitize"]:
        return None, f"sample_batch made the calls {names}, the model expects fit, predict, np.argsort, digitize_data"
    ev = {e[0]: e for e in sb["ev"]}
    return {"k": sb["k"], "pts0": sb["pts0"], "los0": sb["los0"], "pts1": sb["pts1"], "los1": sb["los1"], "fit": ev["fit"], "pool": ev["predict"][1], "preds": ev["predict"][2],
            "sorted_arg": ev["argsort"][1], "order": ev["argsort"][2], "selected": ev["digitize"][1],
            "dig_out": ev["digitize"][2], "out": sb["out"], "libfit": ev.get("libfit")}, None


def parse_bb_call(sb, dims):
    """argsort, integers(0,k,size=k), then per row: rvs, choice, (integers, integers) per chosen index; digitize."""
    ev = [e for e in sb["ev"] if e[0] in ("argsort", "integers", "choice", "rvs", "digitize")]
    if sb["raised"]:
        return {"k": sb["k"], "raised": sb["raised"], "order": [], "choices": [], "rvs": [], "raw": None, "out": None,
                "pts0": sb["pts0"], "los0": sb["los0"], "pts1": sb["pts1"], "los1": sb["los1"]}, None
    try:
        assert ev[0][0] == "argsort" and ev[1][0] == "integers" and isinstance(ev[1][2], list), "prefix"
        order, parents = ev[0][2], ev[1][2]
        i, choices, rvs = 2, [], []
        for p in parents:
            assert ev[i][0] == "rvs", "rvs"
            rvs.append((ev[i][1], ev[i][2]))
            assert ev[i + 1][0] == "choice", "choice"
            J = ev[i + 1][2]
            J = J if isinstance(J, list) else [J]
            i += 2
            shocks = []
            for j in J:
                assert ev[i][0] == "integers" and ev[i + 1][0] == "integers", "shock draws"
                shocks.append((int(j), int(ev[i][2]), int(ev[i + 1][2])))
                i += 2
            choices.append((int(p), shocks))
        assert ev[i][0] == "digitize" and i + 1 == len(ev), "suffix"
        return {"k": sb["k"], "raised": None, "order": order, "sorted_arg": ev[0][1], "choices": choices, "rvs": rvs,
                "raw": ev[i][1], "dig_out": ev[i][2], "out": sb["out"],
                "pts0": sb["pts0"], "los0": sb["los0"], "pts1": sb["pts1"], "los1": sb["los1"]}, None
    except (AssertionError, IndexError, TypeError) as e:
        return None, f"draw sequence of sample_batch does not have the modelled structure ({e}): {[x[0] for x in ev]}"


# ------------------------------------------------------------------ exact helpers (oracle side)
def fr(x):
    x = float(x)
    if x == float("inf"):
        return Fraction(1 << 1100)
    if x == float("-inf"):
        return Fraction(-(1 << 1100))
    return Fraction(x)


def nearest_ok(grid, v, o):
    """o is an element of grid and no element is closer to v (up to the float-rounding slack 1+2^-50)."""
    G = [Fraction(float(g)) for g in grid]
    fo, fv = Fraction(float(o)), Fraction(float(v))
    if fo not in G:
        return False
    best = min(abs(fv - g) for g in G)
    return abs(fv - fo) * SNAP_DEN <= best * SNAP_NUM


def oracle_snapshots(case, obs):
    fails = []
    for c, call in enumerate(obs["calls"]):
        if not call["untouched"]:
            fails.append(f"modified: {case['kind']}: {call['diff']}")
        if call["err"] and "read-only" in call["err"]:
            fails.append(f"modified: {case['kind']}: sample() #{c} wrote into a read-only history array ({call['err']})")
    if obs["later_touched"]:
        fails.append(f"modified: {case['kind']}: arrays handed to sample() #{obs['later_touched'][0]} were changed by a later call")
    return fails


def oracle_surrogate_call(case, call, rec):
    """One sample_batch of a surrogate sampler: trained on exactly the given arrays; returns the k lowest predictions."""
    fails = []
    k = rec["k"]
    p0, l0 = rec["pts0"][:3], rec["los0"][:3]  # the arrays as they were when sample_batch was entered
    fx, fy = rec["fit"][1], rec["fit"][2]
    # round 4: compared as VALUES (shape + float64 values): the history may be float32 / int64 / a strided view
    if snap_values(fx) != snap_values(p0):
        fails.append(f"fit: X handed to fit is not existing_points (shape {fx[2]} vs {p0[2]})")
    if snap_values(fy) != snap_values(l0):
        fails.append(f"fit: y handed to fit is not existing_losses (shape {fy[2]} vs {l0[2]})")
    pool, preds = rec["pool"], np.asarray(rec["preds"])
    if preds.shape != (len(pool),):
        return fails + [f"predict: {preds.shape} predictions for a pool of {len(pool)}"]
    if np.isnan(preds.astype(float)).any():
        return fails  # argsort of NaN predictions is outside the property's domain (counted by the caller)
    P = [Fraction(float(x)) for x in preds]
    sel = rec["selected"]
    want = min(k, len(pool))
    if len(sel) != want:
        fails.append(f"selection: {len(sel)} rows selected, expected min(batch_size, pool) = {want}")
    # group criterion (exact for pools with repeated rows): t = k-th smallest prediction; from each group of identical
    # pool rows at least all predictions < t and at most all predictions <= t are selected
    if want:
        t = sorted(P)[want - 1]
        groups = {}
        for row, p in zip(pool, P):
            groups.setdefault(row.tobytes(), []).append(p)
        cnt = Counter(np.asarray(r).tobytes() for r in sel)
        for key in cnt:
            if key not in groups:
                fails.append("selection: a selected row is not a row of the pool handed to predict")
        for key, ps in groups.items():
            c = cnt.get(key, 0)
            lo_, hi_ = sum(1 for p in ps if p < t), sum(1 for p in ps if p <= t)
            if not lo_ <= c <= hi_:
                row = np.frombuffer(key).tolist()
                fails.append(f"selection: pool row {row} (predictions {sorted(map(float, ps))}) selected {c} times; "
                             f"the {want} lowest predictions (threshold {float(t)!r}) require between {lo_} and {hi_}")
                break
    out = rec["out"]
    if out.shape != sel.shape:
        fails.append(f"snap: returned shape {out.shape}, selected shape {sel.shape}")
    else:
        for r in range(sel.shape[0]):
            for c in range(sel.shape[1]):
                if not nearest_ok(call["grid"][c], sel[r, c], out[r, c]):
                    fails.append(f"snap: returned[{r},{c}]={out[r, c]!r} is not the grid element nearest to the selected "
                                 f"candidate's {sel[r, c]!r}")
    return fails


def snapshot_plain(a):
    return (a.tobytes(), a.dtype.str, tuple(a.shape))


def oracle_libfit(case, call, rec):
    """What the underlying library was trained on (RF / XGB / GP)."""
    fails = []
    lf = rec["libfit"]
    if lf is None:
        return ["libfit: the library fit was not called"]
    if snap_values(lf[1]) != snap_values(rec["pts0"]):
        fails.append(f"libfit: X handed to the {case['kind']} library is not existing_points (shape {lf[1][2]})")
    y = np.asarray(lf[2])
    los = np.frombuffer(rec["los0"][0], dtype=rec["los0"][1]).reshape(rec["los0"][2])
    pts0 = np.frombuffer(rec["pts0"][0], dtype=rec["pts0"][1]).reshape(rec["pts0"][2])
    if case["kind"] == "gp":
        if np.asarray(y, dtype=float).ravel().tobytes() != np.asarray(los, dtype=float).tobytes():
            fails.append("libfit: y handed to GaussianProcessRegressor is not existing_losses")
    elif case["kind"] == "rf":
        from black_it.samplers.random_forest import RandomForestSampler

        try:
            with np.errstate(all="ignore"):
                want = RandomForestSampler.prepare_data_for_classifier(
                    pts0.copy(), los.copy(), case.get("opts", {}).get("n_classes", 3))[1]
        except ValueError:
            want = None  # the given history has no quantile classes (negative losses): the library cannot have been reached
        if want is None or y.shape != want.shape or (y != want).any():
            fails.append("libfit: labels handed to RandomForestClassifier are not the quantile classes of existing_losses")
    elif case["kind"] == "xgb":
        import black_it.samplers.xgboost as xm

        hi, lo = float(xm.MAX_FLOAT32 - xm.EPS_FLOAT32), float(xm.MIN_FLOAT32 + xm.EPS_FLOAT32)
        want = np.array([lo if v <= -F32MAX else hi if v >= F32MAX else v for v in los.tolist()], dtype=float)
        if y.shape != want.shape or y.astype(float).tobytes() != want.tobytes():
            bad = [i for i in range(min(len(y), len(want))) if float(y[i]) != want[i]]
            fails.append(f"libfit: y handed to XGBRegressor differs from existing_losses with float32-overflowing entries "
                         f"clipped (first at {bad[:1]}, lengths {len(y)} / {len(want)})")
    return fails


def admissible_parents(los, k):
    L = [fr(x) for x in los]
    return [i for i in range(len(L)) if sum(1 for x in L if x < L[i]) < k]


def oracle_bb_call(case, call, rec):
    """One BestBatchSampler.sample_batch: ValueError iff too few points; every row = one of the k lowest-loss points
    displaced by 1..range-1 steps of its own precision on 1..dims distinct coordinates, clipped, snapped."""
    fails = []
    cfg = call["cfg"]  # round 4: the space / options IN FORCE for this call
    k, rng_ = rec["k"], cfg["range"]
    pts, los = unsnap(rec["pts0"]), unsnap(rec["los0"])  # the history as it was when sample_batch was entered
    n = len(pts)
    lo, up, pr = ([Fraction(F(x)) for x in cfg[key]] for key in ("lower", "upper", "prec"))
    dims = len(pr)
    if n < k:
        if not rec["raised"] or rec["raised"][0] != "ValueError":
            fails.append(f"needs-k-points: history of {n} < batch size {k} but no ValueError (got {rec['raised']})")
        return fails
    if rec["raised"]:
        return [f"needs-k-points: history of {n} >= batch size {k} but sample_batch raised {rec['raised']}"]
    adm = set(admissible_parents(los, k))
    raw, out = rec["raw"], rec["out"]
    if raw.shape != (k, dims) or out.shape != (k, dims):
        return [f"shape: pre-snap {raw.shape}, returned {out.shape}, expected {(k, dims)}"]
    if len(rec["choices"]) != k:
        return [f"draws: {len(rec['choices'])} parents drawn for a batch of {k}"]
    exact = cfg["exact"]
    for r, (p, shocks) in enumerate(rec["choices"]):
        if not 0 <= p < k:
            fails.append(f"top-k: row {r}: candidate position {p} not below batch size {k}")
            continue
        if p >= len(rec["order"]):
            fails.append(f"top-k: row {r}: no candidate at position {p}")
            continue
        i = rec["order"][p]
        if i not in adm:
            fails.append(f"top-k: row {r}: parent is history point #{i} (loss {los[i]!r}) but "
                         f"{sum(1 for x in los if fr(x) < fr(los[i]))} points have a strictly lower loss (batch size {k})")
        J = [s[0] for s in shocks]
        if not 1 <= len(J) <= dims or len(set(J)) != len(J) or any(not 0 <= j < dims for j in J):
            fails.append(f"displacement: row {r}: shocked coordinates {J} (need 1..{dims} distinct)")
            continue
        nrv = rec["rvs"][r]
        if nrv[1] != [len(J) - 1] or nrv[0] != dims - 1:
            fails.append(f"displacement: row {r}: betabinom(n={nrv[0]}).rvs gave {nrv[1]} but {len(J)} coordinates were shocked")
        for j in range(dims):
            pj, rj = Fraction(float(pts[i, j])), Fraction(float(raw[r, j]))
            sh = [s for s in shocks if s[0] == j]
            if not sh:
                if not same_float(raw[r, j], pts[i, j]):
                    fails.append(f"displacement: row {r} coordinate {j} was not drawn but changed {pts[i, j]!r} -> {raw[r, j]!r}")
                continue
            _, size, bit = sh[0]
            if not 1 <= size <= rng_ - 1 or bit not in (0, 1):
                fails.append(f"displacement: row {r} coordinate {j}: shock of {size} steps (sign draw {bit}); "
                             f"allowed 1..{rng_ - 1} with perturbation_range {rng_}")
                continue
            s = size if bit == 1 else -size
            want = min(max(pj + s * pr[j], lo[j]), up[j])
            ok = rj == want if exact else abs(rj - want) <= TOL * max(1, abs(want))
            if not exact and ok:  # measured margin of the 2^-40 tolerance (reported in the coverage)
                MARGIN["bb_tolerant_max_error_over_tolerance"] = max(
                    MARGIN["bb_tolerant_max_error_over_tolerance"], float(abs(rj - want) / (TOL * max(1, abs(want)))))
                MARGIN["bb_tolerant_min_step_over_tolerance"] = min(
                    MARGIN["bb_tolerant_min_step_over_tolerance"], float(pr[j] / (TOL * max(1, abs(want)))))
            if not ok:
                fails.append(f"displacement: row {r} coordinate {j}: parent {pts[i, j]!r} {s:+d} step(s) of {float(pr[j])!r} clipped "
                             f"to [{float(lo[j])!r}, {float(up[j])!r}] is {float(want)!r}, the code produced {raw[r, j]!r}")
        for j in range(dims):
            if not nearest_ok(call["grid"][j], raw[r, j], out[r, j]):
                fails.append(f"snap: row {r} coordinate {j}: {out[r, j]!r} is not the grid element nearest to {raw[r, j]!r}")
    fails += oracle_bb_outputs_only(case, call, rec, adm)
    return fails


def oracle_bb_outputs_only(case, call, rec, adm):
    """Uses nothing recorded inside the call: every returned row must be explainable by SOME admissible parent and SOME
    steps 1 <= |s| <= range-1 (or no step) per coordinate, clipped and snapped."""
    fails = []
    cfg = call["cfg"]
    rng_ = cfg["range"]
    pts, out = unsnap(rec["pts0"]), rec["out"]
    lo, up, pr = ([Fraction(F(x)) for x in cfg[key]] for key in ("lower", "upper", "prec"))
    dims = len(pr)
    grids = [[Fraction(float(g)) for g in col] for col in call["grid"]]

    def snaps(j, v):
        # on decimal spaces the code's value is v up to two roundings: near a mid-point either neighbour can come out
        best = min(abs(v - g) for g in grids[j])
        slack = 0 if cfg["exact"] else 2 * TOL * max(1, abs(v))
        return {g for g in grids[j] if abs(v - g) * SNAP_DEN <= best * SNAP_NUM + slack * SNAP_DEN}

    reach = {}
    for i in adm:
        per = []
        for j in range(dims):
            pj = Fraction(float(pts[i, j]))
            stay = snaps(j, pj)
            move = set()
            for s in list(range(-(rng_ - 1), 0)) + list(range(1, rng_)):
                v = min(max(pj + s * pr[j], lo[j]), up[j])
                if not cfg["exact"]:
                    v = Fraction(float(v))  # the code rounds; the snap of the rounded value is what can be returned
                move |= snaps(j, v)
            per.append((stay, move))
        reach[i] = per
    for r in range(out.shape[0]):
        row = [Fraction(float(x)) for x in out[r]]
        ok = False
        for i, per in reach.items():
            if all(row[j] in per[j][0] or row[j] in per[j][1] for j in range(dims)) and any(
                    row[j] in per[j][1] for j in range(dims)):
                ok = True
                break
        if not ok:
            fails.append(f"descent: returned row {r} {out[r].tolist()} is not reachable from any of the {len(adm)} admissible "
                         f"lowest-loss points by 1..{rng_ - 1} steps on >= 1 coordinate, clipping and snapping")
    return fails


# ------------------------------------------------------------------ Coq literals
def fl(x):
    x = float(x)
    if x != x:
        return "nan"
    if x in (float("inf"), float("-inf")):
        return "infinity" if x > 0 else "neg_infinity"
    h = x.hex()
    return f"({h})" if h.startswith("-") else h


def fll(xs):
    return clist([fl(x) for x in xs])


def fmat(m):
    return clist([fll(r) for r in m])


def nats(xs):
    return clist([cnat(x) for x in xs])


def unsnap(sn):
    """snapshot -> float64 array (a non-float64 snapshot gives an empty array: the Coq comparison then fails)."""
    if sn[1] == "<f8":
        return np.frombuffer(sn[0], dtype=sn[1]).reshape(sn[2])
    if sn[1] in ("<f4", "<f2", "<i8", "<i4"):  # round 4: exact conversions (int64 histories are generated below 2^53)
        return np.frombuffer(sn[0], dtype=sn[1]).reshape(sn[2]).astype(np.float64)
    return np.zeros((0,) * len(sn[2]))


def emit_sb(call, rec, tol):
    fx, fy = unsnap(rec["fit"][1]), unsnap(rec["fit"][2])
    return (f"SB {cbool(tol)} {cnat(rec['k'])} {fmat(call['grid'])} {fmat(rec['pool'])} "
            f"{fll(np.asarray(rec['preds']).astype(float))} {nats(rec['order'])} {fmat(rec['selected'])} {fmat(rec['out'])} "
            f"{fmat(unsnap(rec['pts0']))} {fll(unsnap(rec['los0']))} {fmat(fx) if fx.ndim == 2 else '[]'} "
            f"{fll(fy) if fy.ndim == 1 else '[]'} {fmat(unsnap(rec['pts1']))} {fll(unsnap(rec['los1']))}")


def emit_bb(case, call, rec):
    cfg = call["cfg"]
    lo, up, pr = ([F(x) for x in cfg[key]] for key in ("lower", "upper", "prec"))
    ch = clist([f"({cnat(p)}, {clist([f'({cnat(j)}, {cnat(max(s, 0))}, {cbool(b == 1)})' for j, s, b in sh])})"
                for p, sh in rec["choices"]])
    raised = rec["raised"] is not None and rec["raised"][0] == "ValueError"
    raw = rec["raw"] if rec["raw"] is not None else []
    out = rec["out"] if rec["out"] is not None else []
    return (f"BB {cbool(cfg['exact'])} {cnat(rec['k'])} {cnat(cfg['range'])} {fll(lo)} {fll(up)} {fll(pr)} "
            f"{fmat(call['grid'])} {fmat(unsnap(rec['pts0']))} {fll(unsnap(rec['los0']))} {nats(rec['order'])} {ch} "
            f"{cbool(raised)} {fmat(raw)} {fmat(out)} {fmat(unsnap(rec['pts1']))} {fll(unsnap(rec['los1']))}")


def is_dyadic_small(x, bits=30):
    n, d = float(x).as_integer_ratio()
    return d <= (1 << bits) and abs(n) < (1 << 50)


def pool_tolerant(call, rec):
    """exact comparison of the snap is possible when every subtraction is exact (dyadic) or the pool is on the grid."""
    grid = call["grid"]
    sel = rec["selected"]
    for r in range(sel.shape[0]):
        for c in range(sel.shape[1]):
            if sel[r, c] in grid[c]:
                continue
            if is_dyadic_small(sel[r, c]) and all(is_dyadic_small(g) for g in grid[c]):
                continue
            return True
    return False


# ------------------------------------------------------------------ generators
DYADIC_PREC = [(1, 0), (1, 1), (1, 2), (1, 3), (3, 3), (5, 4), (1, 5), (3, 1)]
DECIMAL_PREC = [0.01, 0.05, 0.1, 0.3, 0.001, 0.25, 0.7, 1e-3]
FLAVOURS = ["plain", "ties", "big", "f32", "inf", "ninf", "both", "mixed", "below", "below1", "above1"]
SPECIALS = {
    "plain": [], "ties": [], "big": [1e40, -1e40], "f32": [3.4028235e38, F32MAX, -3.4028235e38, 3.5e38, -F32MAX],
    "inf": [float("inf"), 1e40], "ninf": [float("-inf"), 3.5e38], "both": [float("inf"), float("-inf")],
    "below": [-1e40, float("-inf")], "below1": [-3.5e38], "above1": [3.5e38],  # float32 overflow on one side only
    "mixed": [1e40, float("inf"), -1e40, F32MAX, 1e308, -1e308],
}


def gen_space(rng, exact, maxdims=3):
    dims = rng.randint(1, maxdims)
    lower, upper, prec = [], [], []
    for _ in range(dims):
        if exact:
            m, a = rng.choice(DYADIC_PREC)
            d = m / float(1 << a)
            lo = d * rng.randint(-40, 40)
            n = rng.randint(2, 24)
            up = lo + d * n + (d / 2 if rng.below(4) == 0 else 0.0)
        else:
            d = rng.choice(DECIMAL_PREC)
            lo = rng.choice([0.0, -0.9, 1.5, -3.0, 0.1, 10.0, -0.05])
            n = rng.randint(2, 24)
            up = round(lo + d * n + (d * 0.37 if rng.below(4) == 0 else 0.0), 10)
        lower.append(lo)
        upper.append(up)
        prec.append(d)
    return lower, upper, prec


def gen_losses(rng, n, flavour):
    if flavour == "ties":
        base = [rng.choice([0.5, 0.5, 1.25, 2.0, -1.0]) for _ in range(n)]
    else:
        base = [round(rng.uniform(-2, 5), rng.choice([1, 3, 12])) for _ in range(n)]
    sp = list(SPECIALS[flavour])
    rng.shuffle(sp)
    pos = list(range(n))
    rng.shuffle(pos)
    for v, p in zip(sp, pos):
        base[p] = v
    if n >= 2 and rng.below(2) == 0:  # a tie exactly at some rank
        base[pos[-1]] = base[pos[-2]] if n >= 2 else base[pos[-1]]
    return base


def gen_case(rng, kind, idx):
    exact = kind in ("bestbatch", "stub") and rng.below(3) != 0
    maxdims = 4 if kind in ("bestbatch", "stub") else 3
    lower, upper, prec = gen_space(rng, exact, maxdims)
    dims = len(prec)
    from black_it.search_space import SearchSpace

    ss = SearchSpace([lower, upper], prec, False)
    bs = rng.randint(1, 4)
    tolerated = {"gp": ["plain", "ties", "big", "f32", "plain", "ties", "inf"],
                 "cors": ["plain", "ties", "big", "f32", "plain", "mixed"]}.get(kind, FLAVOURS)
    flavour = tolerated[idx % len(tolerated)] if rng.below(4) else rng.choice(tolerated)
    n = bs + rng.randint(0, 10)
    opts = {}
    if kind == "bestbatch":
        if rng.below(8) == 0:
            n = max(0, bs - rng.randint(1, 2))  # too short a history
        opts = {"a": rng.choice([3.0, 1.0, 0.5, 8.0]), "b": rng.choice([1.0, 3.0, 0.5]), "range": rng.randint(2, 8)}
    if kind in ("cors", "gp", "rf", "xgb"):
        n = max(n, 3)
    if kind == "cors":
        n = max(n, dims + 2)
    pts = []
    offgrid = kind == "bestbatch" and rng.below(5) == 0
    for _ in range(n):
        row = [float(rng.choice(list(g))) for g in ss.param_grid]
        if offgrid:
            row = [v + prec[j] / 4 * rng.randint(-2, 2) for j, v in enumerate(row)]
        pts.append(row)
    if kind == "bestbatch" and n >= 2 and rng.below(3) == 0:
        pts[rng.below(n)] = [float(g[rng.choice([0, -1])]) for g in ss.param_grid]  # a point on the boundary
    if kind in ("cors", "gp"):  # singular kernels on repeated points are not the subject
        seen, uniq = set(), []
        for r in pts:
            if tuple(r) not in seen:
                seen.add(tuple(r))
                uniq.append(r)
        pts = uniq
        n = len(pts)
    losses = gen_losses(rng, n, flavour)
    if kind == "rf" and rng.below(4):
        losses = [abs(x) if abs(x) < 1e30 else x for x in losses]
    calls = {"pso": rng.randint(2, 3), "bestbatch": rng.randint(1, 2), "cors": rng.randint(1, 2)}.get(kind, rng.randint(1, 2))
    if kind == "stub":
        mode = ["constant", "ties", "classes", "monotone", "rowfun", "huge", "random"][idx % 7]
        pool_kind = rng.choice(["real", "real", "offgrid", "offgrid", "small"])
        psize = rng.randint(5, 40)
        opts = {"mode": mode, "pool": pool_kind, "pool_size": psize, "passes": rng.choice([0, 2, 5])}
        if pool_kind != "real":
            if pool_kind == "small":
                psize = rng.randint(0, bs)
                opts["passes"] = 0  # BaseSampler.sample cannot substitute with fewer rows than requested
            rows_sets = []
            for _ in range(6):
                rows = []
                for _ in range(psize):
                    if exact:
                        row = [lower[j] + prec[j] / 4 * rng.randint(-6, 4 * 26) for j in range(dims)]
                    else:
                        row = [rng.uniform(lower[j] - prec[j], upper[j] + prec[j]) for j in range(dims)]
                    rows.append([H(v) for v in row])
                if rows and rng.below(2) == 0 and len(rows) > 2:
                    rows[-1] = rows[0]  # a repeated pool row
                rows_sets.append(rows)
            opts["pool_rows"] = rows_sets
            opts["pool_size"] = psize
    nxt = [[H(x) for x in gen_losses(rng, bs, rng.choice(["plain", "ties"]))] for _ in range(calls)]
    return {"kind": kind, "lower": [H(x) for x in lower], "upper": [H(x) for x in upper], "prec": [H(x) for x in prec],
            "bs": bs, "seed": rng.randint(0, 10 ** 6), "pts": [[H(v) for v in r] for r in pts],
            "losses": [H(x) for x in losses], "calls": calls, "next_losses": nxt, "opts": opts, "exact": exact,
            "flavour": flavour}


# ------------------------------------------------------------------ round 4: generator sweep
# (representation of the history, object reuse, attributes assigned after construction, sizes at thresholds, non-default
#  configurations, sequences with a rejected call, almost-tied / far-from-origin values)
NEW_FLAVOURS = ["zeros", "close", "farlvl", "intlike", "smallscale"]
STYLES = ["std", "far", "tiny", "huge", "int", "wide"]


def gen_losses4(rng, n, flavour):
    if flavour in FLAVOURS:
        return gen_losses(rng, n, flavour)
    if flavour == "zeros":  # signed zeros and subnormals (ties between 0.0 and -0.0; 5e-324 is NOT a tie with 0.0)
        return [rng.choice([0.0, -0.0, 5e-324, -5e-324, 1e-310, 0.5, -0.5, 0.0]) for _ in range(n)]
    if flavour == "close":  # differ in the last bits only: ties under isclose / rounding / float32
        return [1.0 + rng.randint(0, 3) * 2.0 ** -52 for _ in range(n)]
    if flavour == "farlvl":  # 1e8 level, O(1) spread: ties in float32
        return [1e8 + rng.randint(0, 4) + rng.choice([0.0, 0.5]) for _ in range(n)]
    if flavour == "intlike":
        return [float(rng.randint(-3, 6)) for _ in range(n)]
    return [round(rng.uniform(-2, 5), 3) * 1e-9 for _ in range(n)]  # smallscale: differences far below any absolute eps


def gen_space4(rng, exact, style, maxdims):
    if style in ("std", "wide"):
        if style == "wide":
            lower, upper, prec = [], [], []
            for _ in range(rng.randint(5, 12)):  # more than 10 coordinates
                lo_, up_, pr_ = gen_space(rng, exact, 1)
                lower, upper, prec = lower + lo_, upper + up_, prec + pr_
            return lower, upper, prec
        return gen_space(rng, exact, maxdims)
    dims = rng.randint(1, maxdims)
    lower, upper, prec = [], [], []
    for _ in range(dims):
        n = rng.randint(2, 24)
        if style == "int":  # integer grid (history given as int64)
            d = float(rng.choice([1, 1, 2, 5]))
            lo = float(rng.randint(-40, 40))
            up = lo + d * n
        elif exact:
            m, a = rng.choice(DYADIC_PREC)
            d = m / float(1 << a)
            if style == "tiny":
                d /= 1024.0
            if style == "huge":
                d *= float(1 << 24)
            lo = d * rng.randint(-40, 40)
            if style == "far":  # far from the origin relative to the spread
                lo += float(1 << 20) * rng.choice([1, -1, 3])
            up = lo + d * n + (d / 2 if rng.below(4) == 0 else 0.0)
        else:
            if style == "tiny":
                d = rng.choice([1e-4, 3e-4, 5e-5 * 4])
                lo = rng.choice([0.0, -2e-3, 1e-3])
            elif style == "huge":
                d = rng.choice([1e3, 2.5e4, 7e2])
                lo = rng.choice([0.0, -3e5, 1e6])
            else:  # far
                d = rng.choice(DECIMAL_PREC)
                lo = rng.choice([1e5, -1e6, 1e7, 123456.7])
            up = lo + d * n + (d * 0.37 if rng.below(4) == 0 else 0.0)
            if style != "tiny":
                up = round(up, 7)
        lower.append(lo)
        upper.append(up)
        prec.append(d)
    return lower, upper, prec


def gen_hist4(rng, kind, sp, n, flavour, offgrid=False):
    """n history rows on the grid of the space sp (hex dict) and n losses"""
    ss = make_space(sp)
    prec = [F(x) for x in sp["prec"]]
    rows = []
    for _ in range(n):
        row = [float(rng.choice(list(g))) for g in ss.param_grid]
        if offgrid:
            row = [v + prec[j] / 4 * rng.randint(-2, 2) for j, v in enumerate(row)]
        rows.append(row)
    if n >= 2 and rng.below(3) == 0:
        rows[rng.below(n)] = [float(g[rng.choice([0, -1])]) for g in ss.param_grid]  # a point on the boundary
    if kind in ("cors", "gp"):
        seen, uniq = set(), []
        for r in rows:
            if tuple(r) not in seen:
                seen.add(tuple(r))
                uniq.append(r)
        rows = uniq
    losses = gen_losses4(rng, len(rows), flavour)
    if kind == "rf" and rng.below(4):  # negative first quantiles make prepare_data_for_classifier raise (outside C16)
        losses = [abs(x) if abs(x) < 1e30 else x for x in losses]
    return [[H(v) for v in r] for r in rows], [H(x) for x in losses]


def hexsp(lower, upper, prec, exact):
    return {"lower": [H(x) for x in lower], "upper": [H(x) for x in upper], "prec": [H(x) for x in prec], "exact": exact}


def pick_repr(rng, kind, style, exact, flavour):
    pr = ["f8", "fortran", "rows2", "cols", "rev"]
    if style in ("std", "wide", "int") and (exact or kind != "bestbatch"):
        pr.append("f4")  # exactly representable (dyadic grid) or not a best-batch parent
    if style == "int":
        pr += ["i8", "i8"]
    lr = ["f8", "f4", "step2", "col", "rev"]
    if flavour == "intlike":
        lr += ["i8", "i8"]
    return {"pts": rng.choice(pr), "los": rng.choice(lr)}


def min_hist(kind, bs, dims):
    n = bs
    if kind in ("cors", "gp", "rf", "xgb"):
        n = max(n, 3)
    if kind == "cors":
        n = max(n, dims + 2)
    return n


def flavours_for(kind):
    if kind == "gp":
        return ["plain", "ties", "big", "f32", "zeros", "close", "farlvl", "intlike", "smallscale"]
    if kind == "cors":
        return ["plain", "ties", "big", "f32", "mixed", "zeros", "close", "farlvl", "intlike", "smallscale"]
    return FLAVOURS + NEW_FLAVOURS * 2


def gen_sweep_case(rng, kind, idx):
    cheap = kind in ("bestbatch", "stub", "halton", "rseq", "uniform", "pso")
    style = STYLES[idx % len(STYLES)] if rng.below(3) else rng.choice(STYLES)
    if style == "wide" and kind in ("gp", "cors"):
        style = "std"
    exact = style == "int" or (kind in ("bestbatch", "stub") and rng.below(3) != 0)
    lower, upper, prec = gen_space4(rng, exact, style, 4 if cheap else 3)
    sp = hexsp(lower, upper, prec, exact)
    dims = len(prec)
    bs = rng.randint(1, 4) if rng.below(4) else rng.randint(5, 12)  # also batches larger than 4
    if kind in ("gp", "cors", "rf", "xgb"):
        bs = min(bs, 5)
    flavour = rng.choice(flavours_for(kind))
    opts, ctor, first = {}, {}, {}
    n = min_hist(kind, bs, dims) + rng.choice([0, 0, 1, 2, 5, 9])  # often exactly the smallest admissible history
    if kind == "bestbatch":
        opts = {"a": rng.choice([3.0, 1.0, 0.5, 8.0, 0.1]), "b": rng.choice([1.0, 3.0, 0.5, 10.0]),
                "range": rng.choice([2, 2, 3, 5, 8, 30]), "passes": rng.choice([0, 1, 5])}
        if rng.below(4) == 0:
            opts["np_scalars"] = True
        elif rng.below(4) == 0:
            opts["int_ab"] = True
            opts["a"], opts["b"] = float(rng.randint(1, 4)), float(rng.randint(1, 3))
        if rng.below(2) == 0:  # constructed with other values, then reassigned (the assigned ones are in force)
            ctor["range"] = rng.choice([opts["range"] + rng.randint(1, 6), max(2, opts["range"] - 1)])
            if rng.below(2) == 0:
                ctor["a"], ctor["b"] = 2.0, 2.0
        if rng.below(6) == 0:
            n = max(0, bs - rng.randint(1, 2))  # a rejected first call (too short a history)
    if kind == "stub":
        modes = ["view", "memo", "bcast", "f32", "close", "far", "tiny", "classes", "ties", "random", "huge"]
        pool_kind = rng.choice(["real", "offgrid", "offgrid", "small"])
        psize = rng.randint(14, 40)
        opts = {"mode": modes[idx % len(modes)], "pool": pool_kind, "pool_size": psize, "passes": rng.choice([0, 1, 2, 5])}
        if pool_kind != "real":
            if pool_kind == "small":
                psize = rng.randint(0, bs)  # includes a pool of exactly batch_size rows
                opts["passes"] = 0
            rows_sets = []
            for _ in range(6):
                rows = []
                for _ in range(psize):
                    if exact:
                        row = [lower[j] + prec[j] / 4 * rng.randint(-6, 4 * 26) for j in range(dims)]
                    else:
                        row = [rng.uniform(lower[j] - prec[j], upper[j] + prec[j]) for j in range(dims)]
                    rows.append([H(v) for v in row])
                if len(rows) > 2 and rng.below(2) == 0:
                    rows[-1] = rows[0]
                rows_sets.append(rows)
            opts["pool_rows"], opts["pool_size"] = rows_sets, psize
            opts["pool_memo"] = rng.below(2) == 0
        if pool_kind != "small" and rng.below(5) == 0:
            opts["fit_raises"] = [rng.choice([1, 2])]  # a failing fit, then normal calls
    if kind in ("halton", "rseq", "uniform", "pso", "cors", "rf", "xgb", "gp"):
        opts = {"cfg": True, "passes": rng.choice([0, 1, 5])}
        if kind == "pso":
            opts.update(pso_global=rng.below(3) != 0, inertia=rng.choice([0.9, 0.5]), c1=rng.choice([0.1, 1.5]),
                        c2=rng.choice([0.1, 1.5]))
        if kind == "cors":
            opts.update(verbose=rng.below(2) == 0, rho0=rng.choice([0.5, 0.1]), p=rng.choice([1.0, 2.0]),
                        max_samples=rng.choice([40, 12]))
        if kind == "rf":
            opts.update(n_classes=rng.choice([3, 4, 10]), criterion=rng.choice(["gini", "entropy"]))
        if kind == "xgb":
            opts.update(n_estimators=rng.choice([4, 10]), max_depth=rng.choice([2, 5]))
        if kind == "gp":
            opts.update(acq=rng.choice(["mean", "mean", "expected_improvement"]), jitter=rng.choice([0.1, 0.0, 1.0]),
                        restarts=rng.choice([0, 1]))
    if kind != "pso" and rng.below(4) == 0:
        ctor["bs"] = rng.choice([bs + 1, max(1, bs - 1), 1, bs + 3])  # batch_size reassigned after construction
        if ctor["bs"] == bs:
            ctor.pop("bs")
    if kind not in ("pso", "cors") and rng.below(4) == 0 and "passes" in opts:
        ctor["passes"] = rng.choice([0, 3])  # max_deduplication_passes reassigned after construction
    offgrid = kind == "bestbatch" and style != "int" and rng.below(5) == 0
    pts, losses = gen_hist4(rng, kind, sp, n, flavour, offgrid)
    rp = pick_repr(rng, kind, style, exact, flavour) if rng.below(4) else {}
    # ---- the sequence of calls
    calls = rng.randint(2, 4) if cheap or kind == "xgb" else rng.randint(1, 3)
    steps, cur_n, cur_sp, cur_bs, grown = [], len(pts), sp, bs, False
    cur_style, cur_exact = style, exact
    for _ in range(calls - 1):
        ops = ["grow", "other", "other", "inplace", "same"]
        if kind not in ("cors", "gp"):
            ops.append("feed_output")
        if kind != "pso":
            ops.append("space")
        if grown:
            ops = [x for x in ops if x != "inplace"]  # the in-place script is written for the last explicit history
        op = rng.choice(ops)
        step = {"op": op}
        fl2 = rng.choice(flavours_for(kind))
        if op in ("grow", "feed_output"):
            grown = True
        elif op == "inplace":
            step["pts"], step["losses"] = gen_hist4(rng, "plain-rows", cur_sp, cur_n, fl2)
            if kind in ("cors", "gp"):  # keep the rows distinct: rotate the existing ones, new losses
                step["pts"] = None
        elif op in ("other", "space"):
            if op == "space":
                cur_style = rng.choice(["std", "far", "int", "wide"] if kind not in ("gp", "cors") else ["std", "far", "int"])
                cur_exact = cur_style == "int" or (kind in ("bestbatch", "stub") and rng.below(3) != 0)
                lo2, up2, pr2 = gen_space4(rng, cur_exact, cur_style, 4 if cheap else 3)
                cur_sp = hexsp(lo2, up2, pr2, cur_exact)
                step["space"] = cur_sp
                step["op"] = "other"
            d2 = len(cur_sp["prec"])
            base = min_hist(kind, cur_bs, d2)
            n2 = rng.choice([base, base + 1, cur_n, max(base, cur_n - 1), base + rng.randint(0, 9)])  # same / other length
            if kind == "bestbatch" and rng.below(6) == 0:
                n2 = max(0, cur_bs - 1)  # a rejected call in the middle of the sequence
            step["pts"], step["losses"] = gen_hist4(rng, kind, cur_sp, n2, fl2,
                                                    kind == "bestbatch" and cur_style != "int" and rng.below(6) == 0)
            if rng.below(3) == 0:
                step["repr"] = pick_repr(rng, kind, cur_style, cur_exact, fl2)
            cur_n, grown = len(step["pts"]), False
        # attributes assigned before this call
        attrs = {}
        if kind == "bestbatch" and rng.below(3) == 0:
            attrs["perturbation_range"] = rng.choice([2, 3, 4, 9])
        if kind == "bestbatch" and rng.below(6) == 0:
            attrs["a"], attrs["b"] = rng.choice([0.3, 5.0]), rng.choice([0.3, 5.0])
        if kind != "pso" and rng.below(5) == 0:
            nb = rng.choice([1, cur_bs + 1, max(1, cur_bs - 1), cur_bs + 2])
            if kind in ("gp", "cors", "rf", "xgb"):
                nb = min(nb, 5)
            if nb <= 12 and (kind != "stub" or opts.get("pool") != "small"):
                attrs["batch_size"] = nb
                cur_bs = nb
        if rng.below(6) == 0:
            attrs["random_state"] = rng.randint(0, 10 ** 6)
        if kind == "gp" and rng.below(4) == 0:
            attrs["acquisition"] = rng.choice(["mean", "expected_improvement"])
        if kind not in ("pso", "cors") and opts.get("pool") != "small" and rng.below(8) == 0:
            attrs["max_deduplication_passes"] = rng.choice([0, 1, 4])
        if attrs:
            step["attrs"] = attrs
        if kind in ("bestbatch", "stub", "xgb", "rf") and rng.below(3 if kind == "bestbatch" else 5) == 0:
            # a direct sample_batch(k): below / above self.batch_size, at and just above the history length
            step["direct_k"] = rng.choice([1, cur_bs + 1, cur_bs + 3, max(1, cur_bs - 1), max(cur_n, 1), cur_n + 1, cur_n + 1])
            if kind != "bestbatch":
                step["direct_k"] = min(step["direct_k"], 12)
        steps.append(step)
    if kind in ("bestbatch", "stub") and rng.below(8) == 0:
        first["direct_k"] = rng.choice([1, bs + 2, max(len(pts), 1), len(pts) + 1])
    nxt = [[H(x) for x in gen_losses4(rng, 40, rng.choice(["plain", "ties", "zeros", "close"]))] for _ in range(calls)]
    case = {"kind": kind, **{k: sp[k] for k in ("lower", "upper", "prec")}, "bs": bs, "seed": rng.randint(0, 10 ** 6),
            "pts": pts, "losses": losses, "calls": calls, "next_losses": nxt, "opts": opts, "exact": exact,
            "flavour": flavour, "style": style, "sweep": 4, "steps": steps}
    if rp:
        case["repr"] = rp
    if ctor:
        case["ctor"] = ctor
    if first:
        case["first"] = first
    return case


def gen_gp_big(rng):
    """Threshold of gaussian_process.py (_BIG_DATASET_SIZE_WARNING_THRESHOLD = 500): a history of 501 distinct points"""
    lower, upper, prec = [0.0, -1.0], [2.0, 1.0], [0.05, 0.05]
    sp = hexsp(lower, upper, prec, False)
    ss = make_space(sp)
    cells = [(float(a), float(b)) for a in ss.param_grid[0] for b in ss.param_grid[1]]
    rng.shuffle(cells)
    n = rng.choice([501, 501, 502, 500])
    rows = [[H(a), H(b)] for a, b in cells[:n]]
    losses = [H(round((F(r[0]) - 1.0) ** 2 + F(r[1]) ** 2 + rng.uniform(0, 0.05), 6)) for r in rows]
    return {"kind": "gp", **{k: sp[k] for k in ("lower", "upper", "prec")}, "bs": 2, "seed": rng.randint(0, 10 ** 6),
            "pts": rows, "losses": losses, "calls": 1, "next_losses": [[]], "exact": False, "flavour": "plain",
            "style": "gp-501", "sweep": 4, "alarm": 240,
            "opts": {"cfg": True, "passes": 1, "restarts": 0, "acq": rng.choice(["mean", "expected_improvement"])}}


def int_points_probe():
    """FINDING (round 4): integer-typed existing_points in a space with a fractional precision - the shifted coordinate is
    written back into the int64 copy of the parent and truncated towards zero (best_batch.py:145 `sampled_point[index] +=
    shift`).  A fixed case, so that the finding is reported by every run."""
    sp = hexsp([0.0, 0.0], [5.0, 5.0], [0.5, 0.25], True)
    rows = [[1.0, 2.0], [3.0, 4.0], [2.0, 2.0], [4.0, 1.0], [1.0, 4.0]]
    return {"kind": "bestbatch", **{k: sp[k] for k in ("lower", "upper", "prec")}, "bs": 2, "seed": 3,
            "pts": [[H(v) for v in r] for r in rows], "losses": [H(x) for x in [1.0, 2.0, 3.0, 4.0, 0.5]], "calls": 2,
            "steps": [{"op": "same"}], "next_losses": [[], []], "opts": {"a": 3.0, "b": 1.0, "range": 2, "passes": 0},
            "exact": True, "flavour": "plain", "style": "int-points-fractional-precision", "sweep": 4,
            "repr": {"pts": "i8", "los": "f8"}, "finding_probe": "int-points-fractional-precision"}


def gen_clip_case(rng):
    n = rng.randint(0, 8)
    fl_ = rng.choice(FLAVOURS)
    return {"kind": "clip", "losses": [H(x) for x in gen_losses(rng, n, fl_)], "flavour": fl_}


def gen_clip_case4(rng):
    """round 4: float32 / int64 / strided loss arrays, signed zeros, almost-tied and far-level values"""
    n = rng.randint(0, 9)
    fl_ = rng.choice(FLAVOURS + NEW_FLAVOURS)
    lr = rng.choice(["f4", "f4", "step2", "col", "rev", "f8"] + (["i8", "i8"] if fl_ == "intlike" else []))
    return {"kind": "clip", "losses": [H(x) for x in gen_losses4(rng, n, fl_)], "flavour": fl_, "repr": {"los": lr},
            "sweep": 4}


def run_clip(case):
    import black_it.samplers.xgboost as xm

    clip = xm.XGBoostSampler._clip_losses  # noqa: SLF001
    _, y, bases = materialise([], case["losses"], 1, case.get("repr"))
    y0 = np.array(y, copy=True)
    b0 = [b.tobytes() for b in bases]
    with warnings.catch_warnings():
        warnings.simplefilter("ignore")
        ret = clip(y)
        ret_then = np.array(ret, copy=True)
        # round 4: the function is pure - a later call on other arrays must not change an earlier result (shared buffers)
        clip(np.full(len(y0), 1e39))
        clip(np.full(len(y0), -7.0))
        clip(np.array([-np.inf, 2.0] * len(y0)))
    hi, lo = float(xm.MAX_FLOAT32 - xm.EPS_FLOAT32), float(xm.MIN_FLOAT32 + xm.EPS_FLOAT32)
    _, ro, ro_bases = materialise([], case["losses"], 1, case.get("repr"))
    set_writeable((ro,), ro_bases, False)
    err = None
    try:
        with warnings.catch_warnings():
            warnings.simplefilter("ignore")
            clip(ro)
    except Exception as e:  # noqa: BLE001
        err = f"{type(e).__name__}: {e}"
    return {"y0": y0, "after": np.array(y, copy=True), "ret": ret_then, "ret_later": np.array(ret, copy=True), "hi": hi,
            "lo": lo, "ro_err": err, "maxf": float(xm.MAX_FLOAT32), "minf": float(xm.MIN_FLOAT32),
            "bases_ok": b0 == [b.tobytes() for b in bases]}


def oracle_clip(case, o):
    fails = []
    if o["after"].tobytes() != o["y0"].tobytes() or o["after"].dtype != o["y0"].dtype:
        idx = np.argwhere(o["after"] != o["y0"])
        i = int(idx[0][0]) if len(idx) else 0
        fails.append(f"modified: xgb: _clip_losses changed its argument: y[{i}] {o['y0'][i]!r} -> {o['after'][i]!r}")
    if not o["bases_ok"]:
        fails.append("modified: xgb: _clip_losses changed the array its argument is a view of")
    if o["ro_err"]:
        fails.append(f"modified: xgb: _clip_losses wrote into a read-only array ({o['ro_err']})")
    want = [o["lo"] if v <= o["minf"] else o["hi"] if v >= o["maxf"] else v for v in o["y0"].tolist()]
    if [float(v).hex() for v in o["ret"].tolist()] != [float(v).hex() for v in want]:
        fails.append("clip: returned losses are not the argument with float32-overflowing entries replaced")
    if o["ret_later"].tobytes() != o["ret"].tobytes():
        fails.append("clip: the array returned by _clip_losses was changed by later calls on other arrays")
    return fails


def clip_threads():
    """round 4: _clip_losses is a pure static function - calls from several threads give the single-thread results"""
    import threading

    import black_it.samplers.xgboost as xm

    clip = xm.XGBoostSampler._clip_losses  # noqa: SLF001
    arrays = [np.array([1e40, -1e40, float(i), np.inf, -np.inf, 3.5e38][: 1 + i % 6] * (1 + i % 3), dtype=float) for i in range(24)]
    with warnings.catch_warnings():
        warnings.simplefilter("ignore")
        ref = [np.array(clip(a.copy()), copy=True) for a in arrays]
        got = [None] * len(arrays)
        keep = [a.copy() for a in arrays]

        def work(t):
            for _ in range(20):
                for i in range(t, len(arrays), 4):
                    got[i] = np.array(clip(arrays[i]), copy=True)

        with warnings.catch_warnings():
            warnings.simplefilter("ignore")
            ths = [threading.Thread(target=work, args=(t,)) for t in range(4)]
            for t in ths:
                t.start()
            for t in ths:
                t.join()
    bad = [i for i in range(len(arrays)) if got[i] is None or got[i].tobytes() != ref[i].tobytes()
           or arrays[i].tobytes() != keep[i].tobytes()]
    return bad


# ------------------------------------------------------------------ one case end to end
def jsonable(x):
    if isinstance(x, np.ndarray):
        return [jsonable(v) for v in x.tolist()]
    if isinstance(x, float):
        return x if x == x and abs(x) != float("inf") else repr(x)
    if isinstance(x, (list, tuple)):
        return [jsonable(v) for v in x]
    if isinstance(x, dict):
        return {k: jsonable(v) for k, v in x.items()}
    if isinstance(x, bytes):
        return f"<{len(x)} bytes>"
    return x


def summarise(obs):
    return [{"err": c["err"], "out": jsonable(c["out"]), "untouched": c["untouched"], "diff": c["diff"],
             "history_size": len(c["pts"])} for c in obs["calls"]]


def evaluate(case, stats):
    """Runs one case (writable + read-only), returns (oracle failures, [(coq type, literal, context)], structure problems)."""
    fails, lits, structure = [], [], []
    if case["kind"] == "clip":
        o = run_clip(case)
        fails += oracle_clip(case, o)
        lits.append(("S", f"CLIP {fll(o['y0'])} {fl(o['hi'])} {fl(o['lo'])} {fll(o['ret'])} {fll(o['after'])}", "clip"))
        stats["clip:" + ("in-range" if o["ret"].tobytes() == o["y0"].tobytes() else "clipped")] += 1
        return fails, lits, structure, {"ret": jsonable(o["ret"]), "after": jsonable(o["after"])}
    obs_w = run_case(case, readonly=False)
    obs_r = run_case(case, readonly=True)
    kind = case["kind"]
    for obs in (obs_w, obs_r):
        fails += [f + (" [read-only run]" if obs["readonly"] else "") for f in oracle_snapshots(case, obs)]
    # the read-only run must behave like the writable one (same errors, same outputs)
    for c, (a, b) in enumerate(zip(obs_w["calls"], obs_r["calls"])):
        if (a["err"] is None) != (b["err"] is None) and "Timeout" not in (a["err"], b["err"]):
            fails.append(f"modified: {kind}: sample() #{c} behaves differently on read-only history arrays: "
                         f"{a['err']} vs {b['err']}")
    for obs in (obs_w, obs_r):
        for c, call in enumerate(obs["calls"]):
            stats[f"{kind}:{'error:' + call['err'].split(':')[0] if call['err'] else 'ok'}"] += 1
            if obs is obs_w and case.get("sweep"):
                stats[f"op:{call['cfg']['op']}{':direct_k' if call['cfg']['direct_k'] is not None else ''}"] += 1
            if call["err"] == "Timeout":
                continue
            if kind == "stub" and call["err"] and "stub fit failure" not in call["err"]:
                # round 4: the stub's callbacks never raise (but for the scripted fit failure): sample() must RETURN the
                # batch_size candidates (e.g. read-only / memoised predictions must not be written into)
                fails.append(f"returns: stub: sample() #{c} raised {call['err']} although pool, fit and predict succeeded"
                             + (" [read-only run]" if obs["readonly"] else ""))
            sbs = sb_calls(call["events"])
            if kind in SURROGATES:
                for sb in sbs:
                    if sb["raised"]:
                        continue
                    rec, problem = parse_surrogate_call(sb)
                    if rec is None:
                        if not any(e[0] == "fit" for e in sb["ev"]) and any(e[0] == "predict" for e in sb["ev"]):
                            # the property itself: "a surrogate sampler trains on exactly the given history"
                            fails.append(f"fit: {kind}: sample_batch ranked the pool without training the surrogate on the given history "
                                         f"(fit not called in sample() #{c})")
                        else:
                            structure.append(problem)
                        continue
                    nanp = bool(np.isnan(np.asarray(rec["preds"]).astype(float)).any())
                    f = oracle_surrogate_call(case, call, rec)
                    if kind != "stub":
                        f += oracle_libfit(case, call, rec)
                    fails += f
                    if nanp:
                        stats[f"{kind}:nan-predictions-skipped"] += 1
                        continue
                    tol = pool_tolerant(call, rec)
                    stats[f"sb:{kind}:{'tolerant' if tol else 'exact'}"] += 1
                    P = np.asarray(rec["preds"]).astype(float)
                    ties = len(set(P.tolist())) < len(P)
                    stats[f"sb:{'ties' if ties else 'distinct'}"] += 1
                    if obs is obs_w:
                        lits.append(("S", emit_sb(call, rec, tol),
                                     {"nontrivial": len(rec["pool"]) > rec["k"] >= 1 and len(set(P.tolist())) > 1}))
            if kind == "bestbatch":
                for sb in sbs:
                    rec, problem = parse_bb_call(sb, len(call["cfg"]["prec"]))
                    if rec is None:
                        structure.append(problem)
                        # round 4: the draws could not be followed, but the outputs-only clause needs nothing recorded inside
                        # the call: it still gives a failing input when the returned rows are not reachable
                        los_ = unsnap(sb["los0"])
                        if sb["out"] is not None and not sb["raised"] and sb["out"].ndim == 2 and len(los_) >= sb["k"] \
                                and sb["out"].shape[1] == len(call["cfg"]["prec"]):
                            fails += oracle_bb_outputs_only(case, call, {"pts0": sb["pts0"], "out": sb["out"]},
                                                            set(admissible_parents(los_, sb["k"])))
                        continue
                    fails += oracle_bb_call(case, call, rec)
                    stats[f"bb:{'raised' if rec['raised'] else 'exact' if call['cfg']['exact'] else 'tolerant'}"] += 1
                    if obs is obs_w:
                        lits.append(("B", emit_bb(case, call, rec), {"nontrivial": rec["raised"] is None}))
    seen, uniq = set(), []
    for f in fails:
        if f not in seen:
            seen.add(f)
            uniq.append(f)
    return uniq, lits, structure, {"writable": summarise(obs_w), "read_only": summarise(obs_r)}


def clause(f):
    return f.split(":")[0]


def run(chk, replay=None):
    chk.proof_gate()
    cases = []
    if replay:
        cases = [json.loads(open(replay).read())["case"]]
    else:
        for f in sorted((chk.case_dir.parents[2] / "corpus" / "C16").glob("*.json")):
            cases.append(json.loads(f.read_text())["case"])  # past false alarms of the harness + the 893b4f5 witness
        n = 30 if chk.tier == "quick" else 400
        for kind in ALL9 + ["stub"]:
            for i in range(n):
                cases.append(gen_case(chk.rng, kind, i))
        for _ in range(n * 2):
            cases.append(gen_clip_case(chk.rng))
        # round 4 (generator sweep): drawn AFTER the cases above, which therefore stay what they were for a given seed
        n4 = 14 if chk.tier == "quick" else 170
        for kind in ALL9 + ["stub"]:
            for i in range(n4 * (2 if kind in ("bestbatch", "stub") else 1)):
                cases.append(gen_sweep_case(chk.rng, kind, i))
        for _ in range(n4 * 3):
            cases.append(gen_clip_case4(chk.rng))
        for _ in range(1 if chk.tier == "quick" else 4):
            cases.append(gen_gp_big(chk.rng))
        cases.append(int_points_probe())
    stats = Counter()
    all_lits = {"S": [], "B": []}
    origin = {"S": [], "B": []}
    nontrivial = 0
    results = []
    snapshot_calls = 0
    for ci, case in enumerate(cases):
        fails, lits, structure, summary = evaluate(case, stats)
        results.append((fails, structure, summary))
        stats[f"flavour:{case.get('flavour')}"] += 1
        if case["kind"] != "clip":
            snapshot_calls += sum(1 for c in summary["writable"] + summary["read_only"])
            if not fails and any(c["err"] is None for c in summary["writable"]):
                nontrivial += 1
        for t, lit, ctx in lits:
            all_lits[t].append(lit)
            origin[t].append(ci)
        if case.get("sweep"):
            stats[f"style:{case.get('style')}"] += 1
            stats["repr:pts=%s,los=%s" % ((case.get("repr") or {}).get("pts", "f8"), (case.get("repr") or {}).get("los", "f8"))] += 1
            for k_ in case.get("ctor") or {}:
                stats[f"reassigned-after-construction:{k_}"] += 1
            for st in case.get("steps") or []:
                for k_ in st.get("attrs") or {}:
                    stats[f"reassigned-between-calls:{k_}"] += 1
        for f in fails:
            desc = {"kind": "oracle", "clause": clause(f), "sampler": case["kind"]}
            if case.get("finding_probe") and clause(f) in ("displacement", "descent"):
                desc["input"] = case["finding_probe"]  # the designated input class of a recorded finding (findings.d)
            chk.violation(desc, {"failed": "oracle:" + f, "all": fails, "case": case, "observed": summary})
        for s in structure:
            chk.violation({"kind": "correspondence", "name": "call-structure", "sampler": case["kind"]},
                          {"failed": "correspondence:" + s, "case": case, "observed": summary}, no_input=True)
    bad_s, err_s = chk.coq_mismatches("C16s", IMPORTS_S, "check_case", "case", all_lits["S"], shard=60, preamble=PREAMBLE)
    bad_b, err_b = chk.coq_mismatches("C16b", IMPORTS_B, "check_bcase", "bcase", all_lits["B"], shard=60, preamble=PREAMBLE)
    for t, bad, name in (("S", bad_s, "Surrogate.check_case"), ("B", bad_b, "BestBatch.check_bcase")):
        for i in bad:
            ci = origin[t][i]
            if results[ci][0]:
                continue  # already reported with its failing input by the oracle
            chk.violation({"kind": "correspondence", "name": name, "sampler": cases[ci]["kind"]},
                          {"failed": f"correspondence:{name} (model and implementation disagree; the property oracle found "
                                     "no failing input)", "case": cases[ci], "observed": results[ci][2],
                           "coq_case": all_lits[t][i][:4000]}, no_input=True)
    if not replay:
        bad_threads = clip_threads()
        stats["clip:threaded-calls"] += 24 * 20
        if bad_threads:
            chk.violation({"kind": "oracle", "clause": "clip", "sampler": "xgb", "input": "threads"},
                          {"failed": "oracle:clip: _clip_losses called from 4 threads returned other arrays than single-threaded "
                                     f"(or changed its arguments) for the test arrays {bad_threads[:5]}", "case": {"kind": "clip-threads"}})
    for e in err_s + err_b:
        chk.violation({"kind": "correspondence", "name": "coqc"}, {"failed": "correspondence:coqc", "detail": e}, no_input=True)
    ncoq = len(all_lits["S"]) + len(all_lits["B"])
    cov = {
        "evaluations": ncoq + snapshot_calls,
        "coq_cases": {"surrogate_sample_batch_and_clip": len(all_lits["S"]), "best_batch_sample_batch": len(all_lits["B"])},
        "snapshot_checked_sample_calls": snapshot_calls,
        "distinct_nontrivial": nontrivial,
        "rule": "one case = (sampler kind, search space, history, seed, options) run twice (writable / read-only history); "
                "non-trivial = at least one sample() returned a batch and every oracle clause held; each sample_batch call of "
                "a surrogate / best-batch case is one Coq-evaluated monitor case",
        "samples": [{"case": cases[i], "observed": results[i][2]} for i in range(0, len(cases), max(1, len(cases) // 3))][:3],
        "traces_validated_against_impl": ncoq - len(bad_s) - len(bad_b),
        "model_impl_disagreements": len(bad_s) + len(bad_b),
        "distribution": dict(sorted(stats.items())),
        "measured_margins": dict(MARGIN),
    }
    return chk.finish(
        cov,
        assumptions=[
            "library calls handed a history array (sklearn / xgboost .fit, np.argsort, np.quantile, np.argmin, scipy minimize) do "
            "not write into it: modelled as pure Section variables, observed on every run by byte snapshots and read-only arrays",
            "np.argsort returns a sorting permutation (checked on every recorded answer by is_argsort inside Coq); NaN "
            "predictions / NaN losses are outside the domain",
            "fancy indexing copies (candidates[idx], existing_points[order]) - so the += of best_batch.py works on a copy",
            "+-inf losses are injected into Q as +-2^1100 (order-preserving); float64 values exactly as m*2^e",
        ],
        trusted=["modelled, not verified: numpy fancy indexing / argsort / clip, scipy betabinom, the generator; the "
                 "instrumentation (module-level `np` proxy, recording Generator subclass, wrapped digitize_data / fit / predict)"],
    )
