"""C16 - history-driven samplers use the history faithfully and never modify it.

Models: coq/Model/Surrogate.v, coq/Model/BestBatch.v   Theorems: coq/Properties/C16.v

What is run on the real code (every sample() of every case twice: once with writable arrays, once with the history arrays
set read-only so that ANY in-place write raises):
  (i)   all nine built-in samplers: byte / dtype / shape / writeable-flag snapshots of existing_points and existing_losses
        around every sample(), on histories with ties, +-inf (where tolerated), +-1e40, float32-overflowing losses; 1-3
        successive calls with the history extended the way the calibrator does (np.concatenate -> new arrays);
  (ii)  a stub MLSurrogateSampler with adversarial fit / predict (constant, ties, monotone, random, integer classes) and
        real or off-grid pools, and the three built-in surrogates with the library `.fit` wrapped: what fit / the library
        is handed, the pool handed to predict, the predictions, the answer of np.argsort, the argument and result of
        digitize_data are recorded for every sample_batch call and evaluated by the Coq model as a MONITOR
        (`check_case (SB ...)`: the recorded order must be an admissible argsort answer, the recorded selection must be
        pool[order][:k], the return value its snap); XGBoostSampler._clip_losses is compared with `clip_losses`;
  (iii) BestBatchSampler: the generator's integers / choice and betabinom.rvs outputs are recorded through a recording
        np.random.Generator subclass, fed to the Coq model as inputs (`check_bcase (BB ...)`), displacement checked
        exactly in Q on dyadic spaces and within 2^-40 relative on decimal spaces.
Direct oracle (Python Fractions, independent of the Coq model): the property statement on the observations.
"""
from __future__ import annotations

import os

os.environ.setdefault("OMP_NUM_THREADS", "1")  # xgboost with 16 OpenMP threads needs seconds per 12-point fit

import contextlib
import io
import json
import signal
import warnings
from collections import Counter
from fractions import Fraction

import numpy as np

from common import cbool, clist, cnat

IMPORTS_S = "From Coq Require Import List ZArith QArith Floats.\nFrom BlackIt Require Import Model.Surrogate."
IMPORTS_B = "From Coq Require Import List ZArith QArith Floats.\nFrom BlackIt Require Import Model.BestBatch."
PREAMBLE = "Open Scope float_scope."
ALL9 = ["halton", "rseq", "uniform", "bestbatch", "pso", "cors", "rf", "xgb", "gp"]
SURROGATES = ("rf", "xgb", "gp", "stub")
F32MAX = 3.4028234663852886e38
TOL = Fraction(1, 1 << 40)
SNAP_NUM, SNAP_DEN = (1 << 50) + 1, 1 << 50


def H(x):
    return float(x).hex()


def F(s):
    return float.fromhex(s)


class CallTimeout(Exception):
    pass


@contextlib.contextmanager
def alarm(seconds):
    def handler(signum, frame):  # noqa: ARG001
        raise CallTimeout

    old = signal.signal(signal.SIGALRM, handler)
    signal.alarm(seconds)
    try:
        yield
    finally:
        signal.alarm(0)
        signal.signal(signal.SIGALRM, old)


def snapshot(a):
    return (a.tobytes(), a.dtype.str, tuple(a.shape), bool(a.flags.writeable))


# ------------------------------------------------------------------ instrumentation
class NpProxy:
    """Stands for the module-level name `np` of a sampler module; records np.argsort, forwards everything else."""

    def __init__(self, real, events):
        object.__setattr__(self, "_real", real)
        object.__setattr__(self, "_events", events)

    def __getattr__(self, name):
        return getattr(self._real, name)

    def argsort(self, a, *args, **kw):
        r = self._real.argsort(a, *args, **kw)
        self._events.append(("argsort", np.array(a, copy=True), [int(i) for i in np.array(r).ravel()]))
        return r


class NsProxy:
    def __init__(self, real, **over):
        self._real, self._over = real, over

    def __getattr__(self, name):
        if name in self._over:
            return self._over[name]
        return getattr(self._real, name)


def make_recgen(gen, events):
    class RecGen(np.random.Generator):
        def integers(self, *a, **k):
            r = super().integers(*a, **k)
            events.append(("integers", [int(x) if x is not None else None for x in a], np.array(r).tolist()))
            return r

        def choice(self, *a, **k):
            r = super().choice(*a, **k)
            events.append(("choice", None, np.array(r).tolist()))
            return r

    return RecGen(gen.bit_generator)


@contextlib.contextmanager
def patched(pairs):
    saved = [(m, n, getattr(m, n)) for m, n, _ in pairs]
    for m, n, v in pairs:
        setattr(m, n, v)
    try:
        yield
    finally:
        for m, n, v in saved:
            setattr(m, n, v)


def build_sampler(case):
    kind, bs, seed, o = case["kind"], case["bs"], case["seed"], case.get("opts", {})
    if kind == "stub":
        from black_it.samplers.surrogate import MLSurrogateSampler

        class Stub(MLSurrogateSampler):
            def __init__(self):
                # the constructor rejects candidate_pool_size < batch_size (b8551a2); an overriding sample_candidates may
                # still return a smaller pool, which sample_batch must handle as the model says (min k |pool| rows)
                super().__init__(bs, random_state=seed, candidate_pool_size=max(o["pool_size"], bs),
                                 max_deduplication_passes=o.get("passes", 5))
                self.ncall = 0

            def sample_candidates(self, n, ss, pts, los):
                if o["pool"] == "real":
                    return super().sample_candidates(n, ss, pts, los)
                rows = o["pool_rows"][self.ncall % len(o["pool_rows"])]
                return np.array([[F(x) for x in r] for r in rows], dtype=float).reshape(len(rows), ss.dims)

            def fit(self, X, y):  # noqa: N803
                self.seen = (X.shape, y.shape)

            def predict(self, X):  # noqa: N803
                self.ncall += 1
                g = np.random.default_rng(seed + 1000 * self.ncall)
                n, mode = len(X), o["mode"]
                if mode == "constant":
                    return np.full(n, 2.5)
                if mode == "ties":
                    return g.integers(0, 3, n).astype(float) * 0.5
                if mode == "classes":
                    return g.integers(0, 3, n)  # int64, like RandomForestClassifier.predict
                if mode == "monotone":
                    return X[:, 0] * -3.0 + 1.0
                if mode == "rowfun":
                    return np.round(np.sin(X.sum(axis=1) * 7.0), 1)
                if mode == "huge":
                    return g.choice([1e300, -1e300, 5e-324, 0.0, -0.0, 1.0], n)
                return g.standard_normal(n)

        return Stub()
    if kind == "bestbatch":
        from black_it.samplers.best_batch import BestBatchSampler

        return BestBatchSampler(bs, random_state=seed, a=o["a"], b=o["b"], perturbation_range=o["range"])
    from props.real_lineups import make_sampler

    return make_sampler(kind, bs, seed)


def instrument(case, sampler, events):
    """Returns the list of (module, name, replacement) patches for this kind; wraps instance methods in place."""
    kind = case["kind"]
    pairs = []

    def digitize_rec(real):
        def w(data, grid):
            r = real(data, grid)
            events.append(("digitize", np.array(data, copy=True), np.array(r, copy=True)))
            return r

        return w

    if kind in SURROGATES:
        import black_it.samplers.surrogate as sm

        pairs += [(sm, "np", NpProxy(np, events)), (sm, "digitize_data", digitize_rec(sm.digitize_data))]
        ofit, opred = sampler.fit, sampler.predict

        def fit(X, y):  # noqa: N803
            events.append(("fit", snapshot(X), snapshot(y)))
            return ofit(X, y)

        def predict(X):  # noqa: N803
            r = opred(X)
            events.append(("predict", np.array(X, copy=True), np.array(r, copy=True)))
            return r

        sampler.fit, sampler.predict = fit, predict
    if kind == "rf":
        import black_it.samplers.random_forest as rfm

        class RecRF(rfm.RandomForestClassifier):
            def fit(self, X, y, *a, **k):  # noqa: N803
                events.append(("libfit", snapshot(np.asarray(X)), np.array(y, copy=True)))
                return super().fit(X, y, *a, **k)

        pairs.append((rfm, "RandomForestClassifier", RecRF))
    if kind == "xgb":
        import black_it.samplers.xgboost as xm

        class RecXGB(xm.xgb.XGBRegressor):
            def fit(self, X, y, *a, **k):  # noqa: N803
                events.append(("libfit", snapshot(np.asarray(X)), np.array(y, copy=True)))
                return super().fit(X, y, *a, **k)

        pairs.append((xm, "xgb", NsProxy(xm.xgb, XGBRegressor=RecXGB)))
    if kind == "gp":
        import black_it.samplers.gaussian_process as gm

        class RecGP(gm.GaussianProcessRegressor):
            def fit(self, X, y, *a, **k):  # noqa: N803
                events.append(("libfit", snapshot(np.asarray(X)), np.array(y, copy=True)))
                return super().fit(X, y, *a, **k)

        pairs.append((gm, "GaussianProcessRegressor", RecGP))
    if kind == "bestbatch":
        import black_it.samplers.best_batch as bm

        real_bb = bm.betabinom

        def betabinom_rec(*a, **k):
            rv = real_bb(*a, **k)
            orvs = rv.rvs

            def rvs(*aa, **kk):
                r = orvs(*aa, **kk)
                events.append(("rvs", int(k.get("n", -1)), [int(x) for x in np.array(r).ravel()]))
                return r

            rv.rvs = rvs
            return rv

        pairs += [(bm, "np", NpProxy(np, events)), (bm, "digitize_data", digitize_rec(bm.digitize_data)),
                  (bm, "betabinom", betabinom_rec)]
        sampler._BaseSeedable__random_generator = make_recgen(sampler.random_generator, events)  # noqa: SLF001
    # delimit sample_batch calls
    osb = sampler.sample_batch

    def sample_batch(batch_size, search_space, existing_points, existing_losses):
        events.append(("sb_begin", int(batch_size), snapshot(existing_points), snapshot(existing_losses)))
        try:
            r = osb(batch_size, search_space, existing_points, existing_losses)
        except Exception as e:  # noqa: BLE001
            events.append(("sb_raise", type(e).__name__, str(e)[:200], snapshot(existing_points), snapshot(existing_losses)))
            raise
        events.append(("sb_end", np.array(r, copy=True), snapshot(existing_points), snapshot(existing_losses)))
        return r

    sampler.sample_batch = sample_batch
    return pairs


# ------------------------------------------------------------------ implementation driver
def make_space(case):
    from black_it.search_space import SearchSpace

    lo, up, pr = ([F(x) for x in case[k]] for k in ("lower", "upper", "prec"))
    return SearchSpace([lo, up], pr, False)


def run_case(case, readonly):
    """One case on the real code.  Returns the observations (numpy arrays inside; see `jsonable`)."""
    ss = make_space(case)
    dims = ss.dims
    pts = np.array([[F(x) for x in r] for r in case["pts"]], dtype=float).reshape(len(case["pts"]), dims)
    los = np.array([F(x) for x in case["losses"]], dtype=float)
    sampler = build_sampler(case)
    events = []
    calls = []
    kept = []
    with patched(instrument(case, sampler, events)):
        for c in range(case["calls"]):
            if readonly:
                pts.flags.writeable = False
                los.flags.writeable = False
            s0 = (snapshot(pts), snapshot(los))
            kept.append((pts, los, s0))
            e0 = len(events)
            out, err = None, None
            try:
                with alarm(60), contextlib.redirect_stdout(io.StringIO()), np.errstate(all="ignore"), \
                        warnings.catch_warnings():
                    warnings.simplefilter("ignore")
                    out = sampler.sample(ss, pts, los)
            except CallTimeout:
                err = "Timeout"
            except Exception as e:  # noqa: BLE001
                err = f"{type(e).__name__}: {str(e)[:160]}"
            s1 = (snapshot(pts), snapshot(los))
            calls.append({"err": err, "out": None if out is None else np.array(out, copy=True),
                          "untouched": s0 == s1, "diff": describe_diff(s0, s1, pts, los, case, c),
                          "events": events[e0:], "pts": pts, "los": los, "grid": [np.array(g) for g in ss.param_grid]})
            if out is None or c + 1 == case["calls"]:
                break
            nl = np.array([F(x) for x in case["next_losses"][c]][: len(out)], dtype=float)
            pts = np.concatenate((pts, out))
            los = np.concatenate((los, nl))
    later = [i for i, (p, l, s0) in enumerate(kept) if (snapshot(p), snapshot(l)) != s0]
    return {"calls": calls, "later_touched": later, "readonly": readonly}


def describe_diff(s0, s1, pts, los, case, c):
    if s0 == s1:
        return None
    d = []
    for name, a0, a1, arr in (("existing_points", s0[0], s1[0], pts), ("existing_losses", s0[1], s1[1], los)):
        if a0[1:] != a1[1:]:
            d.append(f"{name}: dtype/shape/writeable {a0[1:]} -> {a1[1:]}")
        if a0[0] != a1[0]:
            before = np.frombuffer(a0[0], dtype=a0[1]).reshape(a0[2])
            idx = np.argwhere(~((before == arr) | ((before != before) & (arr != arr))))
            i = tuple(int(x) for x in idx[0]) if len(idx) else ()
            d.append(f"{name}{list(i)}: {before[i]!r} -> {arr[i]!r} ({len(idx)} element(s) changed) during sample() #{c}")
    return "; ".join(d)


# ------------------------------------------------------------------ splitting the event log into sample_batch calls
def sb_calls(events):
    cur, res = None, []
    for e in events:
        if e[0] == "sb_begin":
            cur = {"k": e[1], "pts0": e[2], "los0": e[3], "ev": [], "raised": None, "out": None}
        elif e[0] == "sb_end" and cur is not None:
            cur["out"], cur["pts1"], cur["los1"] = e[1], e[2], e[3]
            res.append(cur)
            cur = None
        elif e[0] == "sb_raise" and cur is not None:
            cur["raised"], cur["pts1"], cur["los1"] = (e[1], e[2]), e[3], e[4]
            res.append(cur)
            cur = None
        elif cur is not None:
            cur["ev"].append(e)
    return res


def parse_surrogate_call(sb):
    """fit -> predict -> argsort -> digitize, each once; [libfit] inside fit."""
    names = [e[0] for e in sb["ev"] if e[0] != "libfit"]
    if names != ["fit", "predict", "argsort", "digitize"]:
        return None, f"sample_batch made the calls {names}, the model expects fit, predict, np.argsort, digitize_data"
    ev = {e[0]: e for e in sb["ev"]}
    return {"k": sb["k"], "pts0": sb["pts0"], "los0": sb["los0"], "pts1": sb["pts1"], "los1": sb["los1"], "fit": ev["fit"], "pool": ev["predict"][1], "preds": ev["predict"][2],
            "sorted_arg": ev["argsort"][1], "order": ev["argsort"][2], "selected": ev["digitize"][1],
            "dig_out": ev["digitize"][2], "out": sb["out"], "libfit": ev.get("libfit")}, None


def parse_bb_call(sb, dims):
    """argsort, integers(0,k,size=k), then per row: rvs, choice, (integers, integers) per chosen index; digitize."""
    ev = [e for e in sb["ev"] if e[0] in ("argsort", "integers", "choice", "rvs", "digitize")]
    if sb["raised"]:
        return {"k": sb["k"], "raised": sb["raised"], "order": [], "choices": [], "rvs": [], "raw": None, "out": None,
                "pts0": sb["pts0"], "los0": sb["los0"], "pts1": sb["pts1"], "los1": sb["los1"]}, None
    try:
        assert ev[0][0] == "argsort" and ev[1][0] == "integers" and isinstance(ev[1][2], list), "prefix"
        order, parents = ev[0][2], ev[1][2]
        i, choices, rvs = 2, [], []
        for p in parents:
            assert ev[i][0] == "rvs", "rvs"
            rvs.append((ev[i][1], ev[i][2]))
            assert ev[i + 1][0] == "choice", "choice"
            J = ev[i + 1][2]
            J = J if isinstance(J, list) else [J]
            i += 2
            shocks = []
            for j in J:
                assert ev[i][0] == "integers" and ev[i + 1][0] == "integers", "shock draws"
                shocks.append((int(j), int(ev[i][2]), int(ev[i + 1][2])))
                i += 2
            choices.append((int(p), shocks))
        assert ev[i][0] == "digitize" and i + 1 == len(ev), "suffix"
        return {"k": sb["k"], "raised": None, "order": order, "sorted_arg": ev[0][1], "choices": choices, "rvs": rvs,
                "raw": ev[i][1], "dig_out": ev[i][2], "out": sb["out"],
                "pts0": sb["pts0"], "los0": sb["los0"], "pts1": sb["pts1"], "los1": sb["los1"]}, None
    except (AssertionError, IndexError, TypeError) as e:
        return None, f"draw sequence of sample_batch does not have the modelled structure ({e}): {[x[0] for x in ev]}"


# ------------------------------------------------------------------ exact helpers (oracle side)
def fr(x):
    x = float(x)
    if x == float("inf"):
        return Fraction(1 << 1100)
    if x == float("-inf"):
        return Fraction(-(1 << 1100))
    return Fraction(x)


def nearest_ok(grid, v, o):
    """o is an element of grid and no element is closer to v (up to the float-rounding slack 1+2^-50)."""
    G = [Fraction(float(g)) for g in grid]
    fo, fv = Fraction(float(o)), Fraction(float(v))
    if fo not in G:
        return False
    best = min(abs(fv - g) for g in G)
    return abs(fv - fo) * SNAP_DEN <= best * SNAP_NUM


def oracle_snapshots(case, obs):
    fails = []
    for c, call in enumerate(obs["calls"]):
        if not call["untouched"]:
            fails.append(f"modified: {case['kind']}: {call['diff']}")
        if call["err"] and "read-only" in call["err"]:
            fails.append(f"modified: {case['kind']}: sample() #{c} wrote into a read-only history array ({call['err']})")
    if obs["later_touched"]:
        fails.append(f"modified: {case['kind']}: arrays handed to sample() #{obs['later_touched'][0]} were changed by a later call")
    return fails


def oracle_surrogate_call(case, call, rec):
    """One sample_batch of a surrogate sampler: trained on exactly the given arrays; returns the k lowest predictions."""
    fails = []
    k = rec["k"]
    p0, l0 = rec["pts0"][:3], rec["los0"][:3]  # the arrays as they were when sample_batch was entered
    fx, fy = rec["fit"][1], rec["fit"][2]
    if (fx[0], fx[1], fx[2]) != p0:
        fails.append(f"fit: X handed to fit is not existing_points (shape {fx[2]} vs {p0[2]})")
    if (fy[0], fy[1], fy[2]) != l0:
        fails.append(f"fit: y handed to fit is not existing_losses (shape {fy[2]} vs {l0[2]})")
    pool, preds = rec["pool"], np.asarray(rec["preds"])
    if preds.shape != (len(pool),):
        return fails + [f"predict: {preds.shape} predictions for a pool of {len(pool)}"]
    if np.isnan(preds.astype(float)).any():
        return fails  # argsort of NaN predictions is outside the property's domain (counted by the caller)
    P = [Fraction(float(x)) for x in preds]
    sel = rec["selected"]
    want = min(k, len(pool))
    if len(sel) != want:
        fails.append(f"selection: {len(sel)} rows selected, expected min(batch_size, pool) = {want}")
    # group criterion (exact for pools with repeated rows): t = k-th smallest prediction; from each group of identical
    # pool rows at least all predictions < t and at most all predictions <= t are selected
    if want:
        t = sorted(P)[want - 1]
        groups = {}
        for row, p in zip(pool, P):
            groups.setdefault(row.tobytes(), []).append(p)
        cnt = Counter(np.asarray(r).tobytes() for r in sel)
        for key in cnt:
            if key not in groups:
                fails.append("selection: a selected row is not a row of the pool handed to predict")
        for key, ps in groups.items():
            c = cnt.get(key, 0)
            lo_, hi_ = sum(1 for p in ps if p < t), sum(1 for p in ps if p <= t)
            if not lo_ <= c <= hi_:
                row = np.frombuffer(key).tolist()
                fails.append(f"selection: pool row {row} (predictions {sorted(map(float, ps))}) selected {c} times; "
                             f"the {want} lowest predictions (threshold {float(t)!r}) require between {lo_} and {hi_}")
                break
    out = rec["out"]
    if out.shape != sel.shape:
        fails.append(f"snap: returned shape {out.shape}, selected shape {sel.shape}")
    else:
        for r in range(sel.shape[0]):
            for c in range(sel.shape[1]):
                if not nearest_ok(call["grid"][c], sel[r, c], out[r, c]):
                    fails.append(f"snap: returned[{r},{c}]={out[r, c]!r} is not the grid element nearest to the selected "
                                 f"candidate's {sel[r, c]!r}")
    return fails


def snapshot_plain(a):
    return (a.tobytes(), a.dtype.str, tuple(a.shape))


def oracle_libfit(case, call, rec):
    """What the underlying library was trained on (RF / XGB / GP)."""
    fails = []
    lf = rec["libfit"]
    if lf is None:
        return ["libfit: the library fit was not called"]
    if lf[1][:3] != rec["pts0"][:3]:
        fails.append(f"libfit: X handed to the {case['kind']} library is not existing_points (shape {lf[1][2]})")
    y = np.asarray(lf[2])
    los = np.frombuffer(rec["los0"][0], dtype=rec["los0"][1]).reshape(rec["los0"][2])
    pts0 = np.frombuffer(rec["pts0"][0], dtype=rec["pts0"][1]).reshape(rec["pts0"][2])
    if case["kind"] == "gp":
        if y.ravel().tobytes() != los.tobytes():
            fails.append("libfit: y handed to GaussianProcessRegressor is not existing_losses")
    elif case["kind"] == "rf":
        from black_it.samplers.random_forest import RandomForestSampler

        try:
            with np.errstate(all="ignore"):
                want = RandomForestSampler.prepare_data_for_classifier(pts0.copy(), los.copy(), 3)[1]
        except ValueError:
            want = None  # the given history has no quantile classes (negative losses): the library cannot have been reached
        if want is None or y.shape != want.shape or (y != want).any():
            fails.append("libfit: labels handed to RandomForestClassifier are not the quantile classes of existing_losses")
    elif case["kind"] == "xgb":
        import black_it.samplers.xgboost as xm

        hi, lo = float(xm.MAX_FLOAT32 - xm.EPS_FLOAT32), float(xm.MIN_FLOAT32 + xm.EPS_FLOAT32)
        want = np.array([lo if v <= -F32MAX else hi if v >= F32MAX else v for v in los.tolist()])
        if y.shape != want.shape or y.astype(float).tobytes() != want.tobytes():
            bad = [i for i in range(min(len(y), len(want))) if float(y[i]) != want[i]]
            fails.append(f"libfit: y handed to XGBRegressor differs from existing_losses with float32-overflowing entries "
                         f"clipped (first at {bad[:1]}, lengths {len(y)} / {len(want)})")
    return fails


def admissible_parents(los, k):
    L = [fr(x) for x in los]
    return [i for i in range(len(L)) if sum(1 for x in L if x < L[i]) < k]


def oracle_bb_call(case, call, rec):
    """One BestBatchSampler.sample_batch: ValueError iff too few points; every row = one of the k lowest-loss points
    displaced by 1..range-1 steps of its own precision on 1..dims distinct coordinates, clipped, snapped."""
    fails = []
    k, rng_ = rec["k"], case["opts"]["range"]
    pts, los = unsnap(rec["pts0"]), unsnap(rec["los0"])  # the history as it was when sample_batch was entered
    n = len(pts)
    lo, up, pr = ([Fraction(F(x)) for x in case[key]] for key in ("lower", "upper", "prec"))
    dims = len(pr)
    if n < k:
        if not rec["raised"] or rec["raised"][0] != "ValueError":
            fails.append(f"needs-k-points: history of {n} < batch size {k} but no ValueError (got {rec['raised']})")
        return fails
    if rec["raised"]:
        return [f"needs-k-points: history of {n} >= batch size {k} but sample_batch raised {rec['raised']}"]
    adm = set(admissible_parents(los, k))
    raw, out = rec["raw"], rec["out"]
    if raw.shape != (k, dims) or out.shape != (k, dims):
        return [f"shape: pre-snap {raw.shape}, returned {out.shape}, expected {(k, dims)}"]
    if len(rec["choices"]) != k:
        return [f"draws: {len(rec['choices'])} parents drawn for a batch of {k}"]
    exact = case["exact"]
    for r, (p, shocks) in enumerate(rec["choices"]):
        if not 0 <= p < k:
            fails.append(f"top-k: row {r}: candidate position {p} not below batch size {k}")
            continue
        if p >= len(rec["order"]):
            fails.append(f"top-k: row {r}: no candidate at position {p}")
            continue
        i = rec["order"][p]
        if i not in adm:
            fails.append(f"top-k: row {r}: parent is history point #{i} (loss {los[i]!r}) but "
                         f"{sum(1 for x in los if fr(x) < fr(los[i]))} points have a strictly lower loss (batch size {k})")
        J = [s[0] for s in shocks]
        if not 1 <= len(J) <= dims or len(set(J)) != len(J) or any(not 0 <= j < dims for j in J):
            fails.append(f"displacement: row {r}: shocked coordinates {J} (need 1..{dims} distinct)")
            continue
        nrv = rec["rvs"][r]
        if nrv[1] != [len(J) - 1] or nrv[0] != dims - 1:
            fails.append(f"displacement: row {r}: betabinom(n={nrv[0]}).rvs gave {nrv[1]} but {len(J)} coordinates were shocked")
        for j in range(dims):
            pj, rj = Fraction(float(pts[i, j])), Fraction(float(raw[r, j]))
            sh = [s for s in shocks if s[0] == j]
            if not sh:
                if raw[r, j].tobytes() != pts[i, j].tobytes():
                    fails.append(f"displacement: row {r} coordinate {j} was not drawn but changed {pts[i, j]!r} -> {raw[r, j]!r}")
                continue
            _, size, bit = sh[0]
            if not 1 <= size <= rng_ - 1 or bit not in (0, 1):
                fails.append(f"displacement: row {r} coordinate {j}: shock of {size} steps (sign draw {bit}); "
                             f"allowed 1..{rng_ - 1} with perturbation_range {rng_}")
                continue
            s = size if bit == 1 else -size
            want = min(max(pj + s * pr[j], lo[j]), up[j])
            ok = rj == want if exact else abs(rj - want) <= TOL * max(1, abs(want))
            if not ok:
                fails.append(f"displacement: row {r} coordinate {j}: parent {pts[i, j]!r} {s:+d} step(s) of {float(pr[j])!r} clipped "
                             f"to [{float(lo[j])!r}, {float(up[j])!r}] is {float(want)!r}, the code produced {raw[r, j]!r}")
        for j in range(dims):
            if not nearest_ok(call["grid"][j], raw[r, j], out[r, j]):
                fails.append(f"snap: row {r} coordinate {j}: {out[r, j]!r} is not the grid element nearest to {raw[r, j]!r}")
    fails += oracle_bb_outputs_only(case, call, rec, adm)
    return fails


def oracle_bb_outputs_only(case, call, rec, adm):
    """Uses nothing recorded inside the call: every returned row must be explainable by SOME admissible parent and SOME
    steps 1 <= |s| <= range-1 (or no step) per coordinate, clipped and snapped."""
    fails = []
    rng_ = case["opts"]["range"]
    pts, out = unsnap(rec["pts0"]), rec["out"]
    lo, up, pr = ([Fraction(F(x)) for x in case[key]] for key in ("lower", "upper", "prec"))
    dims = len(pr)
    grids = [[Fraction(float(g)) for g in col] for col in call["grid"]]

    def snaps(j, v):
        # on decimal spaces the code's value is v up to two roundings: near a mid-point either neighbour can come out
        best = min(abs(v - g) for g in grids[j])
        slack = 0 if case["exact"] else 2 * TOL * max(1, abs(v))
        return {g for g in grids[j] if abs(v - g) * SNAP_DEN <= best * SNAP_NUM + slack * SNAP_DEN}

    reach = {}
    for i in adm:
        per = []
        for j in range(dims):
            pj = Fraction(float(pts[i, j]))
            stay = snaps(j, pj)
            move = set()
            for s in list(range(-(rng_ - 1), 0)) + list(range(1, rng_)):
                v = min(max(pj + s * pr[j], lo[j]), up[j])
                if not case["exact"]:
                    v = Fraction(float(v))  # the code rounds; the snap of the rounded value is what can be returned
                move |= snaps(j, v)
            per.append((stay, move))
        reach[i] = per
    for r in range(out.shape[0]):
        row = [Fraction(float(x)) for x in out[r]]
        ok = False
        for i, per in reach.items():
            if all(row[j] in per[j][0] or row[j] in per[j][1] for j in range(dims)) and any(
                    row[j] in per[j][1] for j in range(dims)):
                ok = True
                break
        if not ok:
            fails.append(f"descent: returned row {r} {out[r].tolist()} is not reachable from any of the {len(adm)} admissible "
                         f"lowest-loss points by 1..{rng_ - 1} steps on >= 1 coordinate, clipping and snapping")
    return fails


# ------------------------------------------------------------------ Coq literals
def fl(x):
    x = float(x)
    if x != x:
        return "nan"
    if x in (float("inf"), float("-inf")):
        return "infinity" if x > 0 else "neg_infinity"
    h = x.hex()
    return f"({h})" if h.startswith("-") else h


def fll(xs):
    return clist([fl(x) for x in xs])


def fmat(m):
    return clist([fll(r) for r in m])


def nats(xs):
    return clist([cnat(x) for x in xs])


def unsnap(sn):
    """snapshot -> float64 array (a non-float64 snapshot gives an empty array: the Coq comparison then fails)."""
    if sn[1] != "<f8":
        return np.zeros((0,) * len(sn[2]))
    return np.frombuffer(sn[0], dtype=sn[1]).reshape(sn[2])


def emit_sb(call, rec, tol):
    fx, fy = unsnap(rec["fit"][1]), unsnap(rec["fit"][2])
    return (f"SB {cbool(tol)} {cnat(rec['k'])} {fmat(call['grid'])} {fmat(rec['pool'])} "
            f"{fll(np.asarray(rec['preds']).astype(float))} {nats(rec['order'])} {fmat(rec['selected'])} {fmat(rec['out'])} "
            f"{fmat(unsnap(rec['pts0']))} {fll(unsnap(rec['los0']))} {fmat(fx) if fx.ndim == 2 else '[]'} "
            f"{fll(fy) if fy.ndim == 1 else '[]'} {fmat(unsnap(rec['pts1']))} {fll(unsnap(rec['los1']))}")


def emit_bb(case, call, rec):
    lo, up, pr = ([F(x) for x in case[key]] for key in ("lower", "upper", "prec"))
    ch = clist([f"({cnat(p)}, {clist([f'({cnat(j)}, {cnat(max(s, 0))}, {cbool(b == 1)})' for j, s, b in sh])})"
                for p, sh in rec["choices"]])
    raised = rec["raised"] is not None and rec["raised"][0] == "ValueError"
    raw = rec["raw"] if rec["raw"] is not None else []
    out = rec["out"] if rec["out"] is not None else []
    return (f"BB {cbool(case['exact'])} {cnat(rec['k'])} {cnat(case['opts']['range'])} {fll(lo)} {fll(up)} {fll(pr)} "
            f"{fmat(call['grid'])} {fmat(unsnap(rec['pts0']))} {fll(unsnap(rec['los0']))} {nats(rec['order'])} {ch} "
            f"{cbool(raised)} {fmat(raw)} {fmat(out)} {fmat(unsnap(rec['pts1']))} {fll(unsnap(rec['los1']))}")


def is_dyadic_small(x, bits=30):
    n, d = float(x).as_integer_ratio()
    return d <= (1 << bits) and abs(n) < (1 << 50)


def pool_tolerant(call, rec):
    """exact comparison of the snap is possible when every subtraction is exact (dyadic) or the pool is on the grid."""
    grid = call["grid"]
    sel = rec["selected"]
    for r in range(sel.shape[0]):
        for c in range(sel.shape[1]):
            if sel[r, c] in grid[c]:
                continue
            if is_dyadic_small(sel[r, c]) and all(is_dyadic_small(g) for g in grid[c]):
                continue
            return True
    return False


# ------------------------------------------------------------------ generators
DYADIC_PREC = [(1, 0), (1, 1), (1, 2), (1, 3), (3, 3), (5, 4), (1, 5), (3, 1)]
DECIMAL_PREC = [0.01, 0.05, 0.1, 0.3, 0.001, 0.25, 0.7, 1e-3]
FLAVOURS = ["plain", "ties", "big", "f32", "inf", "ninf", "both", "mixed", "below", "below1", "above1"]
SPECIALS = {
    "plain": [], "ties": [], "big": [1e40, -1e40], "f32": [3.4028235e38, F32MAX, -3.4028235e38, 3.5e38, -F32MAX],
    "inf": [float("inf"), 1e40], "ninf": [float("-inf"), 3.5e38], "both": [float("inf"), float("-inf")],
    "below": [-1e40, float("-inf")], "below1": [-3.5e38], "above1": [3.5e38],  # float32 overflow on one side only
    "mixed": [1e40, float("inf"), -1e40, F32MAX, 1e308, -1e308],
}


def gen_space(rng, exact, maxdims=3):
    dims = rng.randint(1, maxdims)
    lower, upper, prec = [], [], []
    for _ in range(dims):
        if exact:
            m, a = rng.choice(DYADIC_PREC)
            d = m / float(1 << a)
            lo = d * rng.randint(-40, 40)
            n = rng.randint(2, 24)
            up = lo + d * n + (d / 2 if rng.below(4) == 0 else 0.0)
        else:
            d = rng.choice(DECIMAL_PREC)
            lo = rng.choice([0.0, -0.9, 1.5, -3.0, 0.1, 10.0, -0.05])
            n = rng.randint(2, 24)
            up = round(lo + d * n + (d * 0.37 if rng.below(4) == 0 else 0.0), 10)
        lower.append(lo)
        upper.append(up)
        prec.append(d)
    return lower, upper, prec


def gen_losses(rng, n, flavour):
    if flavour == "ties":
        base = [rng.choice([0.5, 0.5, 1.25, 2.0, -1.0]) for _ in range(n)]
    else:
        base = [round(rng.uniform(-2, 5), rng.choice([1, 3, 12])) for _ in range(n)]
    sp = list(SPECIALS[flavour])
    rng.shuffle(sp)
    pos = list(range(n))
    rng.shuffle(pos)
    for v, p in zip(sp, pos):
        base[p] = v
    if n >= 2 and rng.below(2) == 0:  # a tie exactly at some rank
        base[pos[-1]] = base[pos[-2]] if n >= 2 else base[pos[-1]]
    return base


def gen_case(rng, kind, idx):
    exact = kind in ("bestbatch", "stub") and rng.below(3) != 0
    maxdims = 4 if kind in ("bestbatch", "stub") else 3
    lower, upper, prec = gen_space(rng, exact, maxdims)
    dims = len(prec)
    from black_it.search_space import SearchSpace

    ss = SearchSpace([lower, upper], prec, False)
    bs = rng.randint(1, 4)
    tolerated = {"gp": ["plain", "ties", "big", "f32", "plain", "ties", "inf"],
                 "cors": ["plain", "ties", "big", "f32", "plain", "mixed"]}.get(kind, FLAVOURS)
    flavour = tolerated[idx % len(tolerated)] if rng.below(4) else rng.choice(tolerated)
    n = bs + rng.randint(0, 10)
    opts = {}
    if kind == "bestbatch":
        if rng.below(8) == 0:
            n = max(0, bs - rng.randint(1, 2))  # too short a history
        opts = {"a": rng.choice([3.0, 1.0, 0.5, 8.0]), "b": rng.choice([1.0, 3.0, 0.5]), "range": rng.randint(2, 8)}
    if kind in ("cors", "gp", "rf", "xgb"):
        n = max(n, 3)
    if kind == "cors":
        n = max(n, dims + 2)
    pts = []
    offgrid = kind == "bestbatch" and rng.below(5) == 0
    for _ in range(n):
        row = [float(rng.choice(list(g))) for g in ss.param_grid]
        if offgrid:
            row = [v + prec[j] / 4 * rng.randint(-2, 2) for j, v in enumerate(row)]
        pts.append(row)
    if kind == "bestbatch" and n >= 2 and rng.below(3) == 0:
        pts[rng.below(n)] = [float(g[rng.choice([0, -1])]) for g in ss.param_grid]  # a point on the boundary
    if kind in ("cors", "gp"):  # singular kernels on repeated points are not the subject
        seen, uniq = set(), []
        for r in pts:
            if tuple(r) not in seen:
                seen.add(tuple(r))
                uniq.append(r)
        pts = uniq
        n = len(pts)
    losses = gen_losses(rng, n, flavour)
    if kind == "rf" and rng.below(4):
        losses = [abs(x) if abs(x) < 1e30 else x for x in losses]
    calls = {"pso": rng.randint(2, 3), "bestbatch": rng.randint(1, 2), "cors": rng.randint(1, 2)}.get(kind, rng.randint(1, 2))
    if kind == "stub":
        mode = ["constant", "ties", "classes", "monotone", "rowfun", "huge", "random"][idx % 7]
        pool_kind = rng.choice(["real", "real", "offgrid", "offgrid", "small"])
        psize = rng.randint(5, 40)
        opts = {"mode": mode, "pool": pool_kind, "pool_size": psize, "passes": rng.choice([0, 2, 5])}
        if pool_kind != "real":
            if pool_kind == "small":
                psize = rng.randint(0, bs)
                opts["passes"] = 0  # BaseSampler.sample cannot substitute with fewer rows than requested
            rows_sets = []
            for _ in range(6):
                rows = []
                for _ in range(psize):
                    if exact:
                        row = [lower[j] + prec[j] / 4 * rng.randint(-6, 4 * 26) for j in range(dims)]
                    else:
                        row = [rng.uniform(lower[j] - prec[j], upper[j] + prec[j]) for j in range(dims)]
                    rows.append([H(v) for v in row])
                if rows and rng.below(2) == 0 and len(rows) > 2:
                    rows[-1] = rows[0]  # a repeated pool row
                rows_sets.append(rows)
            opts["pool_rows"] = rows_sets
            opts["pool_size"] = psize
    nxt = [[H(x) for x in gen_losses(rng, bs, rng.choice(["plain", "ties"]))] for _ in range(calls)]
    return {"kind": kind, "lower": [H(x) for x in lower], "upper": [H(x) for x in upper], "prec": [H(x) for x in prec],
            "bs": bs, "seed": rng.randint(0, 10 ** 6), "pts": [[H(v) for v in r] for r in pts],
            "losses": [H(x) for x in losses], "calls": calls, "next_losses": nxt, "opts": opts, "exact": exact,
            "flavour": flavour}


def gen_clip_case(rng):
    n = rng.randint(0, 8)
    fl_ = rng.choice(FLAVOURS)
    return {"kind": "clip", "losses": [H(x) for x in gen_losses(rng, n, fl_)], "flavour": fl_}


def run_clip(case):
    import black_it.samplers.xgboost as xm

    y = np.array([F(x) for x in case["losses"]], dtype=float)
    y0 = y.copy()
    with warnings.catch_warnings():
        warnings.simplefilter("ignore")
        ret = xm.XGBoostSampler._clip_losses(y)  # noqa: SLF001
    hi, lo = float(xm.MAX_FLOAT32 - xm.EPS_FLOAT32), float(xm.MIN_FLOAT32 + xm.EPS_FLOAT32)
    ro = y0.copy()
    ro.flags.writeable = False
    err = None
    try:
        with warnings.catch_warnings():
            warnings.simplefilter("ignore")
            xm.XGBoostSampler._clip_losses(ro)  # noqa: SLF001
    except Exception as e:  # noqa: BLE001
        err = f"{type(e).__name__}: {e}"
    return {"y0": y0, "after": y, "ret": np.array(ret, copy=True), "hi": hi, "lo": lo, "ro_err": err,
            "maxf": float(xm.MAX_FLOAT32), "minf": float(xm.MIN_FLOAT32)}


def oracle_clip(case, o):
    fails = []
    if o["after"].tobytes() != o["y0"].tobytes():
        i = int(np.argwhere(o["after"] != o["y0"])[0][0])
        fails.append(f"modified: xgb: _clip_losses changed its argument: y[{i}] {o['y0'][i]!r} -> {o['after'][i]!r}")
    if o["ro_err"]:
        fails.append(f"modified: xgb: _clip_losses wrote into a read-only array ({o['ro_err']})")
    want = [o["lo"] if v <= o["minf"] else o["hi"] if v >= o["maxf"] else v for v in o["y0"].tolist()]
    if o["ret"].tolist() != want:
        fails.append("clip: returned losses are not the argument with float32-overflowing entries replaced")
    return fails


# ------------------------------------------------------------------ one case end to end
def jsonable(x):
    if isinstance(x, np.ndarray):
        return [jsonable(v) for v in x.tolist()]
    if isinstance(x, float):
        return x if x == x and abs(x) != float("inf") else repr(x)
    if isinstance(x, (list, tuple)):
        return [jsonable(v) for v in x]
    if isinstance(x, dict):
        return {k: jsonable(v) for k, v in x.items()}
    if isinstance(x, bytes):
        return f"<{len(x)} bytes>"
    return x


def summarise(obs):
    return [{"err": c["err"], "out": jsonable(c["out"]), "untouched": c["untouched"], "diff": c["diff"],
             "history_size": len(c["pts"])} for c in obs["calls"]]


def evaluate(case, stats):
    """Runs one case (writable + read-only), returns (oracle failures, [(coq type, literal, context)], structure problems)."""
    fails, lits, structure = [], [], []
    if case["kind"] == "clip":
        o = run_clip(case)
        fails += oracle_clip(case, o)
        lits.append(("S", f"CLIP {fll(o['y0'])} {fl(o['hi'])} {fl(o['lo'])} {fll(o['ret'])} {fll(o['after'])}", "clip"))
        stats["clip:" + ("in-range" if o["ret"].tobytes() == o["y0"].tobytes() else "clipped")] += 1
        return fails, lits, structure, {"ret": jsonable(o["ret"]), "after": jsonable(o["after"])}
    obs_w = run_case(case, readonly=False)
    obs_r = run_case(case, readonly=True)
    kind = case["kind"]
    for obs in (obs_w, obs_r):
        fails += [f + (" [read-only run]" if obs["readonly"] else "") for f in oracle_snapshots(case, obs)]
    # the read-only run must behave like the writable one (same errors, same outputs)
    for c, (a, b) in enumerate(zip(obs_w["calls"], obs_r["calls"])):
        if (a["err"] is None) != (b["err"] is None) and "Timeout" not in (a["err"], b["err"]):
            fails.append(f"modified: {kind}: sample() #{c} behaves differently on read-only history arrays: "
                         f"{a['err']} vs {b['err']}")
    for obs in (obs_w, obs_r):
        for c, call in enumerate(obs["calls"]):
            stats[f"{kind}:{'error:' + call['err'].split(':')[0] if call['err'] else 'ok'}"] += 1
            if call["err"] == "Timeout":
                continue
            sbs = sb_calls(call["events"])
            if kind in SURROGATES:
                for sb in sbs:
                    if sb["raised"]:
                        continue
                    rec, problem = parse_surrogate_call(sb)
                    if rec is None:
                        if not any(e[0] == "fit" for e in sb["ev"]) and any(e[0] == "predict" for e in sb["ev"]):
                            # the property itself: "a surrogate sampler trains on exactly the given history"
                            fails.append(f"fit: {kind}: sample_batch ranked the pool without training the surrogate on the given history "
                                         f"(fit not called in sample() #{c})")
                        else:
                            structure.append(problem)
                        continue
                    nanp = bool(np.isnan(np.asarray(rec["preds"]).astype(float)).any())
                    f = oracle_surrogate_call(case, call, rec)
                    if kind != "stub":
                        f += oracle_libfit(case, call, rec)
                    fails += f
                    if nanp:
                        stats[f"{kind}:nan-predictions-skipped"] += 1
                        continue
                    tol = pool_tolerant(call, rec)
                    stats[f"sb:{kind}:{'tolerant' if tol else 'exact'}"] += 1
                    P = np.asarray(rec["preds"]).astype(float)
                    ties = len(set(P.tolist())) < len(P)
                    stats[f"sb:{'ties' if ties else 'distinct'}"] += 1
                    if obs is obs_w:
                        lits.append(("S", emit_sb(call, rec, tol),
                                     {"nontrivial": len(rec["pool"]) > rec["k"] >= 1 and len(set(P.tolist())) > 1}))
            if kind == "bestbatch":
                for sb in sbs:
                    rec, problem = parse_bb_call(sb, len(case["prec"]))
                    if rec is None:
                        structure.append(problem)
                        continue
                    fails += oracle_bb_call(case, call, rec)
                    stats[f"bb:{'raised' if rec['raised'] else 'exact' if case['exact'] else 'tolerant'}"] += 1
                    if obs is obs_w:
                        lits.append(("B", emit_bb(case, call, rec), {"nontrivial": rec["raised"] is None}))
    seen, uniq = set(), []
    for f in fails:
        if f not in seen:
            seen.add(f)
            uniq.append(f)
    return uniq, lits, structure, {"writable": summarise(obs_w), "read_only": summarise(obs_r)}


def clause(f):
    return f.split(":")[0]


def run(chk, replay=None):
    chk.proof_gate()
    cases = []
    if replay:
        cases = [json.loads(open(replay).read())["case"]]
    else:
        for f in sorted((chk.case_dir.parents[2] / "corpus" / "C16").glob("*.json")):
            cases.append(json.loads(f.read_text())["case"])  # past false alarms of the harness + the 893b4f5 witness
        n = 30 if chk.tier == "quick" else 400
        for kind in ALL9 + ["stub"]:
            for i in range(n):
                cases.append(gen_case(chk.rng, kind, i))
        for _ in range(n * 2):
            cases.append(gen_clip_case(chk.rng))
    stats = Counter()
    all_lits = {"S": [], "B": []}
    origin = {"S": [], "B": []}
    nontrivial = 0
    results = []
    snapshot_calls = 0
    for ci, case in enumerate(cases):
        fails, lits, structure, summary = evaluate(case, stats)
        results.append((fails, structure, summary))
        stats[f"flavour:{case.get('flavour')}"] += 1
        if case["kind"] != "clip":
            snapshot_calls += sum(1 for c in summary["writable"] + summary["read_only"])
            if not fails and any(c["err"] is None for c in summary["writable"]):
                nontrivial += 1
        for t, lit, ctx in lits:
            all_lits[t].append(lit)
            origin[t].append(ci)
        for f in fails:
            chk.violation({"kind": "oracle", "clause": clause(f), "sampler": case["kind"]},
                          {"failed": "oracle:" + f, "all": fails, "case": case, "observed": summary})
        for s in structure:
            chk.violation({"kind": "correspondence", "name": "call-structure", "sampler": case["kind"]},
                          {"failed": "correspondence:" + s, "case": case, "observed": summary}, no_input=True)
    bad_s, err_s = chk.coq_mismatches("C16s", IMPORTS_S, "check_case", "case", all_lits["S"], shard=60, preamble=PREAMBLE)
    bad_b, err_b = chk.coq_mismatches("C16b", IMPORTS_B, "check_bcase", "bcase", all_lits["B"], shard=60, preamble=PREAMBLE)
    for t, bad, name in (("S", bad_s, "Surrogate.check_case"), ("B", bad_b, "BestBatch.check_bcase")):
        for i in bad:
            ci = origin[t][i]
            if results[ci][0]:
                continue  # already reported with its failing input by the oracle
            chk.violation({"kind": "correspondence", "name": name, "sampler": cases[ci]["kind"]},
                          {"failed": f"correspondence:{name} (model and implementation disagree; the property oracle found "
                                     "no failing input)", "case": cases[ci], "observed": results[ci][2],
                           "coq_case": all_lits[t][i][:4000]}, no_input=True)
    for e in err_s + err_b:
        chk.violation({"kind": "correspondence", "name": "coqc"}, {"failed": "correspondence:coqc", "detail": e}, no_input=True)
    ncoq = len(all_lits["S"]) + len(all_lits["B"])
    cov = {
        "evaluations": ncoq + snapshot_calls,
        "coq_cases": {"surrogate_sample_batch_and_clip": len(all_lits["S"]), "best_batch_sample_batch": len(all_lits["B"])},
        "snapshot_checked_sample_calls": snapshot_calls,
        "distinct_nontrivial": nontrivial,
        "rule": "one case = (sampler kind, search space, history, seed, options) run twice (writable / read-only history); "
                "non-trivial = at least one sample() returned a batch and every oracle clause held; each sample_batch call of "
                "a surrogate / best-batch case is one Coq-evaluated monitor case",
        "samples": [{"case": cases[i], "observed": results[i][2]} for i in range(0, len(cases), max(1, len(cases) // 3))][:3],
        "traces_validated_against_impl": ncoq - len(bad_s) - len(bad_b),
        "model_impl_disagreements": len(bad_s) + len(bad_b),
        "distribution": dict(sorted(stats.items())),
    }
    return chk.finish(
        cov,
        assumptions=[
            "library calls handed a history array (sklearn / xgboost .fit, np.argsort, np.quantile, np.argmin, scipy minimize) do "
            "not write into it: modelled as pure Section variables, observed on every run by byte snapshots and read-only arrays",
            "np.argsort returns a sorting permutation (checked on every recorded answer by is_argsort inside Coq); NaN "
            "predictions / NaN losses are outside the domain",
            "fancy indexing copies (candidates[idx], existing_points[order]) - so the += of best_batch.py works on a copy",
            "+-inf losses are injected into Q as +-2^1100 (order-preserving); float64 values exactly as m*2^e",
        ],
        trusted=["modelled, not verified: numpy fancy indexing / argsort / clip, scipy betabinom, the generator; the "
                 "instrumentation (module-level `np` proxy, recording Generator subclass, wrapped digitize_data / fit / predict)"],
    )
