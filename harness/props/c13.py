"""C13 - quasi-random samplers emit the true Halton and R sequences, without gaps.

Model: coq/Model/Halton.v, coq/Model/RSeq.v   Theorems: coq/Properties/C13.v
Correspondence (gating, evaluated inside Coq with exact rationals):
  * HaltonSampler objects: the RAW unit-cube rows are captured before snapping (wrapper around `digitize_data` in the
    sampler module's namespace when going through sample_batch()/sample(), return value when calling _halton()),
    un-mapped exactly (lower bound 0, width a power of two); every coordinate must be within 2^-40 of the model's
    vectorised loop AND of radinv(prime_j, s + r); the cursor after every call must be the model's; the rows of
    successive calls must be bit-identical to ONE call on an equally seeded twin.
  * halton() called directly on (sample_size, bases, n_start) incl. n_start = 0, the top of the range and invalid
    arguments;  get_n_primes() call histories (exact);  compute_phi(d) certificate;  RSequenceSampler objects.
Direct oracle: the property statement re-computed in Python with Fractions, written without reference to the model.
"""
from __future__ import annotations

import contextlib
import io
import json
from collections import Counter
from fractions import Fraction

import numpy as np

from common import clist, cnat, cq, cz

IMPORTS = "From Coq Require Import List ZArith QArith.\nFrom BlackIt Require Import Model.Halton Model.RSeq."
T_HRUN = "Z * list (Z * Z) * list (Z * list (list Q)) * list (list Q)"
T_HDIRECT = "Z * list Z * Z * option (list (list Q))"
T_PRIMES = "list (Z * option (list Z))"
T_RRUN = "nat * Q * Z * Z * Q * list nat * list (Z * list (list Q)) * list (list Q)"
T_PHI = "nat * Q"

TOP = 2**16 + 2**12
TOL40 = Fraction(1, 2**40)
EPS45 = Fraction(1, 2**45)


# ------------------------------------------------------------------------------------------------ oracle helpers
def first_primes(n):
    out, c = [], 2
    while len(out) < n:
        if all(c % p for p in out if p * p <= c):
            out.append(c)
        c += 1
    return out


def mirrored(b, n):
    """Radical inverse by mirroring the digit string: (digits reversed as an integer) / b^(number of digits)."""
    num, den = 0, 1
    while n > 0:
        n, r = divmod(n, b)
        num, den = num * b + r, den * b
    return Fraction(num, den)


def frac1(x: Fraction) -> Fraction:
    return x - (x.numerator // x.denominator)


def circ(x: Fraction, y: Fraction) -> Fraction:
    d = abs(x - y)
    return min(d, abs(1 - d))


def rtol(n, k):
    return Fraction(n * (k + 4) + 64, 2**49)


def same_bits(a, b):
    a, b = np.asarray(a, dtype=np.float64), np.asarray(b, dtype=np.float64)
    return a.shape == b.shape and a.tobytes() == b.tobytes()


def make_space(dims, jexp, gridn=64):
    from black_it.search_space import SearchSpace

    widths = [2.0 ** jexp[i % len(jexp)] for i in range(dims)]
    ss = SearchSpace([[0.0] * dims, widths], [w / gridn for w in widths], verbose=False)
    return ss, np.array(widths)


# ------------------------------------------------------------------------------------------------ implementation drivers
def drive_sampler(module, cls_name, raw_name, case):
    """Run the ops of `case` on one sampler object; returns the observation dict."""
    cls = getattr(module, cls_name)
    captured = []
    holder = {}
    orig = module.digitize_data

    def wrapper(data, grid):
        captured.append((np.array(data, dtype=np.float64, copy=True), int(holder["s"]._sequence_index)))
        return orig(data, grid)

    obs = {"error": None, "segments": []}
    module.digitize_data = wrapper
    try:
        smp = cls(batch_size=1, random_state=case["seed"])
        holder["s"] = smp
        for seg in case["segments"]:
            if seg.get("reseed") is not None:
                smp.random_state = seg["reseed"]
            so = {"s0": int(smp._sequence_index), "s0_type": type(smp._sequence_index).__name__, "calls": []}
            if raw_name == "_r_sequence":
                so["offset"] = float(smp._sequence_start)
            for op in seg["ops"]:
                k, dims, via = op["k"], op["dims"], op["via"]
                before = int(smp._sequence_index)
                if via == "raw_bad":
                    # a request the generator rejects (size <= 0), between two good ones: the cursor must not move
                    rec = {"k": 0, "dims": dims, "before": before, "rows": np.zeros((0, dims)), "req": None, "rejected": True}
                    try:
                        getattr(smp, raw_name)(op["bad_k"], dims)
                        rec["accepted"] = True
                    except Exception as e:  # noqa: BLE001
                        rec["raised"] = type(e).__name__
                    rec["after"] = int(smp._sequence_index)
                    so["calls"].append(rec)
                    continue
                if via == "raw":
                    rows = getattr(smp, raw_name)(k, dims)
                    so["calls"].append({"k": k, "dims": dims, "before": before, "after": int(smp._sequence_index),
                                        "rows": np.array(rows, dtype=np.float64), "req": k})
                    continue
                ss, widths = make_space(dims, op["jexp"], op.get("gridn", 64))
                captured.clear()
                with contextlib.redirect_stdout(io.StringIO()):
                    if via == "sample_batch":
                        ret = smp.sample_batch(k, ss, np.zeros((0, dims)), np.zeros(0))
                    else:
                        smp.batch_size = k
                        ret = smp.sample(ss, np.zeros((0, dims)), np.zeros(0))
                for ci, (data, after) in enumerate(captured):
                    so["calls"].append({"k": k if ci == 0 else int(data.shape[0]), "dims": dims, "before": before,
                                        "after": after, "rows": data / widths, "req": k if ci == 0 else None,
                                        "ret_shape": list(ret.shape)})
                    before = after
                if not captured:
                    so["calls"].append({"k": k, "dims": dims, "before": before, "after": int(smp._sequence_index),
                                        "rows": np.zeros((0, dims)), "req": k, "nocapture": True})
            obs["segments"].append(so)
        # twin objects: one raw call per segment of constant dimension
        twin = cls(batch_size=1, random_state=case["seed"])
        for seg, so in zip(case["segments"], obs["segments"]):
            if seg.get("reseed") is not None:
                twin.random_state = seg["reseed"]
            dset = {c["dims"] for c in so["calls"]}
            total = sum(int(c["rows"].shape[0]) for c in so["calls"])
            so["twin_s0"] = int(twin._sequence_index)
            if raw_name == "_r_sequence":
                so["twin_offset"] = float(twin._sequence_start)
            if len(dset) == 1 and total > 0:
                so["twin"] = np.array(getattr(twin, raw_name)(total, dset.pop()), dtype=np.float64)
            else:
                so["twin"] = None
                if total > 0:  # keep the twin's cursor aligned for later segments
                    for c in so["calls"]:
                        if c["rows"].shape[0] > 0:
                            getattr(twin, raw_name)(int(c["rows"].shape[0]), c["dims"])
    except Exception as e:  # noqa: BLE001
        obs["error"] = f"{type(e).__name__}: {e}"
    finally:
        module.digitize_data = orig
    return obs


def impl_hrun(case):
    import black_it.samplers.halton as H

    return drive_sampler(H, "HaltonSampler", "_halton", case)


def impl_rrun(case):
    import black_it.samplers.r_sequence as R

    obs = drive_sampler(R, "RSequenceSampler", "_r_sequence", case)
    try:
        obs["phi"] = {d: float(R.RSequenceSampler.compute_phi(d)) for d in {op["dims"] for s in case["segments"] for op in s["ops"]}}
    except Exception as e:  # noqa: BLE001
        obs["error"] = obs["error"] or f"compute_phi: {type(e).__name__}: {e}"
        obs["phi"] = {}
    return obs


def impl_hdirect(case):
    from black_it.samplers.halton import halton

    try:
        out = halton(case["k"], np.array(case["bases"], dtype=np.int64), case["start"])
        return {"rows": np.array(out, dtype=np.float64), "raised": None}
    except ValueError as e:
        return {"rows": None, "raised": f"ValueError: {e}"}
    except Exception as e:  # noqa: BLE001
        return {"rows": None, "raised": None, "error": f"{type(e).__name__}: {e}"}


def impl_primes(case):
    from black_it.samplers.halton import _CachedPrimesCalculator

    calc = _CachedPrimesCalculator()
    out = []
    for n in case["calls"]:
        try:
            out.append([int(p) for p in calc.get_n_primes(n)])
        except ValueError:
            out.append(None)
        except Exception as e:  # noqa: BLE001
            out.append(f"{type(e).__name__}: {e}")
    return {"out": out}


def impl_phi(case):
    from black_it.samplers.r_sequence import RSequenceSampler

    try:
        return {"phi": float(RSequenceSampler.compute_phi(case["d"])), "raised": None}
    except ValueError as e:
        return {"phi": None, "raised": str(e)}


def impl_seeds(case):
    from black_it.samplers.halton import HaltonSampler
    from black_it.samplers.r_sequence import RSequenceSampler

    rows = []
    for seed, seed2 in case["pairs"]:
        h, r = HaltonSampler(3, random_state=seed), RSequenceSampler(3, random_state=seed)
        h2, r2 = HaltonSampler(3, random_state=seed), RSequenceSampler(3, random_state=seed)
        rec = {"seed": seed, "seed2": seed2, "h": int(h._sequence_index), "r": int(r._sequence_index),
               "off": float(r._sequence_start), "h_again": int(h2._sequence_index), "r_again": int(r2._sequence_index),
               "off_again": float(r2._sequence_start)}
        h._halton(5, 2)
        r._r_sequence(5, 2)
        h.random_state = seed2
        r.random_state = seed2
        # another object with a different past, given the same seed through the setter
        hb, rb = HaltonSampler(1, random_state=seed ^ 0x5A5A), RSequenceSampler(1, random_state=seed ^ 0x5A5A)
        hb._halton(2, 3)
        hb.random_state = seed2
        rb.random_state = seed2
        hf, rf = HaltonSampler(1, random_state=seed2), RSequenceSampler(1, random_state=seed2)
        rec.update(h_reseed=int(h._sequence_index), r_reseed=int(r._sequence_index), off_reseed=float(r._sequence_start),
                   h_other=int(hb._sequence_index), r_other=int(rb._sequence_index), off_other=float(rb._sequence_start),
                   h_fresh=int(hf._sequence_index), r_fresh=int(rf._sequence_index), off_fresh=float(rf._sequence_start))
        rows.append(rec)
    return {"rows": rows}


# ------------------------------------------------------------------------------------------------ direct oracles
def oracle_calls_common(so, fails, tag):
    cur = so["s0"]
    if not (20 <= so["s0"] < 2**16):
        fails.append(f"start index range|{tag}: start index {so['s0']} outside [20, 2^16)")
    for ci, c in enumerate(so["calls"]):
        rows = c["rows"]
        if c.get("nocapture"):
            fails.append(f"no capture|{tag}: call {ci} did not reach digitize_data")
            continue
        if c.get("accepted"):
            fails.append(f"invalid arguments accepted|{tag}: call {ci} with a non-positive size returned a value")
        if c["req"] is not None and rows.shape != (c["req"], c["dims"]):
            fails.append(f"shape|{tag}: call {ci} returned shape {rows.shape}, requested {(c['req'], c['dims'])}")
        if c["before"] != cur:
            fails.append(f"cursor before call|{tag}: call {ci} started at cursor {c['before']}, expected {cur}")
        if c["after"] != c["before"] + rows.shape[0]:
            fails.append(f"cursor after call|{tag}: call {ci}: cursor went {c['before']} -> {c['after']} for {rows.shape[0]} rows")
        cur = c["after"]
    if so.get("twin_s0") != so["s0"]:
        fails.append(f"start index not seed-determined|{tag}: start index is not a function of the seed ({so['s0']} vs twin {so.get('twin_s0')})")
    if so["twin"] is not None:
        cat = np.concatenate([c["rows"] for c in so["calls"]], axis=0)
        if not same_bits(cat, so["twin"]):
            fails.append(f"batches differ from one batch|{tag}: batches {[int(c['rows'].shape[0]) for c in so['calls']]} differ from one batch of the total")


def oracle_hrun(case, obs):
    if obs["error"]:
        return [f"exception|{obs['error']}"]
    fails = []
    primes = first_primes(40)
    for si, so in enumerate(obs["segments"]):
        tag = f"halton segment {si}"
        oracle_calls_common(so, fails, tag)
        for ci, c in enumerate(so["calls"]):
            for r in range(c["rows"].shape[0]):
                n = c["before"] + 1 + r
                for j in range(min(c["dims"], c["rows"].shape[1])):
                    x = Fraction(float(c["rows"][r, j]))
                    if not (0 <= x < 1) or abs(x - mirrored(primes[j], n)) > TOL40:
                        fails.append(f"point value|{tag}: call {ci} row {r} coord {j} = {float(x)!r} is not the radical inverse "
                                     f"of {n} in base {primes[j]} ({float(mirrored(primes[j], n))!r})")
                        break
                else:
                    continue
                break
    return fails


def oracle_rrun(case, obs):
    if obs["error"]:
        return [f"exception|{obs['error']}"]
    fails = []
    for si, so in enumerate(obs["segments"]):
        tag = f"rseq segment {si}"
        oracle_calls_common(so, fails, tag)
        off = Fraction(so["offset"])
        if not (0 <= off < 1):
            fails.append(f"offset range|{tag}: offset {so['offset']} outside [0,1)")
        if so.get("twin_offset") != so["offset"]:
            fails.append(f"offset not seed-determined|{tag}: offset is not a function of the seed")
        prev = None
        for ci, c in enumerate(so["calls"]):
            d = c["dims"]
            phi = Fraction(obs["phi"][d])
            lo, hi = phi - EPS45, phi + EPS45
            if not (lo >= 1 and lo ** (d + 1) - lo - 1 < 0 < hi ** (d + 1) - hi - 1):
                fails.append(f"phi|{tag}: compute_phi({d}) = {obs['phi'][d]!r} is not within 2^-45 of the root of x^{d + 1} = x + 1")
                continue
            alpha = [(1 / phi) ** k for k in range(1, d + 1)]
            bad = None
            for r in range(c["rows"].shape[0]):
                n = c["before"] + r
                row = [Fraction(float(v)) for v in c["rows"][r]]
                for j, x in enumerate(row[:d]):
                    if not (0 <= x < 1) or circ(x, frac1(off + n * alpha[j])) > rtol(n, j + 1):
                        bad = f"point value|{tag}: call {ci} row {r} coord {j} = {float(x)!r} is not frac(offset + {n}*alpha_{j + 1})"
                        break
                    if prev is not None and prev[0] == d and circ(frac1(x - prev[1][j]), frac1(alpha[j])) > 2 * rtol(n, j + 1):
                        bad = f"increment|{tag}: call {ci} row {r} coord {j} does not advance by alpha_{j + 1} mod 1"
                        break
                if bad:
                    break
                prev = (d, row)
            if bad:
                fails.append(bad)
    return fails


def oracle_hdirect(case, obs):
    if obs.get("error"):
        return [f"exception|{obs['error']}"]
    k, bases, s = case["k"], case["bases"], case["start"]
    invalid = k <= 0 or any(b <= 1 for b in bases) or s < 0
    if invalid:
        return [] if obs["raised"] else ["invalid arguments accepted|halton() returned a value"]
    if obs["raised"]:
        return [f"valid arguments rejected|{obs['raised']}"]
    rows = obs["rows"]
    if rows.shape != (k, len(bases)):
        return [f"shape|{rows.shape} != {(k, len(bases))}"]
    for r in range(k):
        for j, b in enumerate(bases):
            x = Fraction(float(rows[r, j]))
            if not (0 <= x < 1) or abs(x - mirrored(b, s + 1 + r)) > TOL40:
                return [f"point value|row {r} base {b}: {float(x)!r} is not the radical inverse of {s + 1 + r}"]
    return []


def oracle_primes(case, obs):
    fails = []
    for n, o in zip(case["calls"], obs["out"]):
        if n < 1:
            if o is not None:
                fails.append(f"primes no raise|get_n_primes({n}) did not raise ValueError")
        elif o != first_primes(n):
            fails.append(f"primes wrong|get_n_primes({n}) after calls {case['calls']} returned {o}")
    return fails


def oracle_phi(case, obs):
    d = case["d"]
    if d < 1:
        return [] if obs["raised"] else [f"phi no raise|compute_phi({d}) accepted"]
    if obs["phi"] is None:
        return [f"phi raised|compute_phi({d}) raised"]
    phi = Fraction(obs["phi"])
    lo, hi = phi - EPS45, phi + EPS45
    if not (lo >= 1 and lo ** (d + 1) - lo - 1 < 0 < hi ** (d + 1) - hi - 1):
        return [f"phi|compute_phi({d}) = {obs['phi']!r} is not within 2^-45 of the root of x^{d + 1} = x + 1"]
    return []


def oracle_seeds(case, obs):
    fails = []
    for r in obs["rows"]:
        for key in ("h", "r", "h_reseed", "r_reseed"):
            if not (20 <= r[key] < 2**16):
                fails.append(f"start index range|seed {r['seed']}: start index {key}={r[key]} outside [20, 2^16)")
        for key in ("off", "off_reseed"):
            if not (0.0 <= r[key] < 1.0):
                fails.append(f"offset range|seed {r['seed']}: offset {r[key]} outside [0,1)")
        if (r["h"], r["r"], r["off"]) != (r["h_again"], r["r_again"], r["off_again"]):
            fails.append(f"start index not seed-determined|seed {r['seed']}: start index/offset not determined by the seed")
        # NOT required: a freshly constructed object starts elsewhere than a reseeded one (the constructors draw the start
        # twice: once in the random_state setter, once more in __init__); both are functions of the seed alone
        if (r["h_reseed"], r["r_reseed"], r["off_reseed"]) != (r["h_other"], r["r_other"], r["off_other"]):
            fails.append(f"reseed depends on past|reseeding with {r['seed2']} through the setter: cursor/offset depend on the object's past")
    return fails


# ------------------------------------------------------------------------------------------------ Coq literals
def rows_lit(rows):
    return clist([clist([cq(float(x)) for x in r]) for r in rows])


def emit_hrun(case, obs):
    """One literal per segment (a segment starts at a (re)seed); the prime cache of a reseeded object is warm, which the
    model covers by theorem (C13_sampler_run_spec: any reachable cache state) - the literal starts from a fresh cache and
    the answers must coincide."""
    lits = []
    for so in obs["segments"]:
        good = [c for c in so["calls"] if not c.get("rejected")]   # rejected requests are judged by the oracle (cursor unchanged)
        ops = clist([f"({cz(c['k'])}, {cz(c['dims'])})" for c in good])
        ob = clist([f"({cz(c['after'])}, {rows_lit(c['rows'])})" for c in good])
        twin = rows_lit(so["twin"]) if so["twin"] is not None else "[]"
        lits.append(f"({cz(so['s0'])}, {ops}, {ob}, {twin})")
    return lits


def emit_rrun(case, obs):
    """One literal per run of constant dimension inside a segment (alpha depends on the dimension; the cursor and the
    offset carry over): (dims, phi, seeded start, cursor at the first call of the run, offset, sizes, observations, twin)."""
    lits = []
    for so in obs["segments"]:
        runs = []
        for c in so["calls"]:
            if runs and runs[-1][0]["dims"] == c["dims"]:
                runs[-1].append(c)
            else:
                runs.append([c])
        for run in runs:
            d = run[0]["dims"]
            ks = clist([cnat(c["k"]) for c in run])
            ob = clist([f"({cz(c['after'])}, {rows_lit(c['rows'])})" for c in run])
            twin = rows_lit(so["twin"]) if (so["twin"] is not None and len(runs) == 1) else "[]"
            lits.append(f"({cnat(d)}, {cq(obs['phi'][d])}, {cz(so['s0'])}, {cz(run[0]['before'])}, {cq(so['offset'])}, "
                        f"{ks}, {ob}, {twin})")
    return lits


def emit_hdirect(case, obs):
    o = "None" if obs["rows"] is None else f"(Some {rows_lit(obs['rows'])})"
    return [f"({cz(case['k'])}, {clist([cz(b) for b in case['bases']])}, {cz(case['start'])}, {o})"]


def emit_primes(case, obs):
    items = []
    for n, o in zip(case["calls"], obs["out"]):
        if isinstance(o, str):
            return []
        items.append(f"({cz(n)}, {'None' if o is None else '(Some ' + clist([cz(p) for p in o]) + ')'})")
    return [clist(items)]


def emit_phi(case, obs):
    if case["d"] < 1 or obs["phi"] is None:
        return []
    return [f"({cnat(case['d'])}, {cq(obs['phi'])})"]


# ------------------------------------------------------------------------------------------------ generators
def gen_sampler_case(rng, kind, max_dims, max_k):
    segs = []
    for si in range(1 + (rng.below(4) == 0)):
        const_dims = rng.below(10) < 6
        d0 = rng.randint(1, max_dims)
        ops = []
        for _ in range(rng.randint(1, 5)):
            v = rng.below(10)
            ops.append({"k": rng.randint(1, max_k), "dims": d0 if const_dims else rng.randint(1, max_dims),
                        "via": "sample_batch" if v < 5 else ("raw" if v < 8 else "sample"),
                        "jexp": [rng.randint(-2, 3) for _ in range(3)],
                        # a coarse grid makes sample() find repeats and redraw: extra internal sample_batch calls
                        "gridn": 64 if v < 9 else 4})
        if kind == "hrun" and rng.below(4) == 0:
            ops.insert(rng.randint(0, len(ops) - 1) if len(ops) > 1 else 0,
                       {"k": 0, "bad_k": rng.choice([0, -1, -4]), "dims": ops[0]["dims"], "via": "raw_bad", "jexp": [0, 0, 0]})
            if ops[-1]["via"] == "raw_bad":
                ops.append({"k": rng.randint(1, max_k), "dims": ops[0]["dims"], "via": "raw", "jexp": [0, 0, 0], "gridn": 64})
        segs.append({"reseed": None if si == 0 else rng.below(2**31), "ops": ops})
    return {"kind": kind, "seed": rng.below(2**31), "segments": segs}


def gen_hdirect(rng, primes):
    k = rng.randint(1, 4)
    m = rng.below(10)
    if m < 4:
        bases = primes[: rng.randint(1, 40)]
    elif m < 6:
        bases = [rng.choice(primes) for _ in range(rng.randint(1, 8))]  # any order, repeats
    elif m < 9:
        bases = [rng.choice([2, 3, 4, 6, 9, 10, 16, 100, 173, 174, 1000, 65537, 2**20, rng.randint(2, 5000)])
                 for _ in range(rng.randint(1, 6))]
    else:
        bases = []
    t = rng.below(20)
    if t == 0:
        start = 0
    elif t == 1:
        start = TOP - k
    elif t in (2, 3, 4, 5) and any(2 <= b < TOP for b in bases):
        # an exact power of one of the case's own bases (digit count changes there; log-based digit counts are off by one
        # at 3^5, 3^10, 17^3, ...) placed at the first, a middle or the LAST row of the batch
        b = rng.choice([x for x in bases if 2 <= x < TOP])
        emax = 1
        while b ** (emax + 1) < TOP:
            emax += 1
        e = emax if rng.below(3) == 0 else rng.randint(1, emax)
        pos = k - 1 if rng.below(2) else rng.below(k)
        start = b**e - 1 - pos
    elif t == 2:
        start = rng.choice([b**e - 1 - rng.below(2) for b in (2, 3, 5, 7, 173) for e in (1, 2, 3, 4) if b**e < TOP])
    else:
        start = rng.randint(0, TOP - k)
    start = max(start, 0)
    bad = rng.below(25)
    if bad == 0:
        k = rng.choice([0, -1])
    elif bad == 1 and bases:
        bases = list(bases)
        bases[rng.below(len(bases))] = rng.choice([1, 0, -3])
    elif bad == 2:
        start = -rng.randint(1, 5)
    return {"kind": "hdirect", "k": k, "bases": list(bases), "start": start}


def generate(chk):
    rng, quick = chk.rng, chk.tier == "quick"
    primes = first_primes(40)
    cases = []
    n_h, n_r, n_d, n_p, n_s = (60, 40, 200, 30, 150) if quick else (200, 100, 2000, 300, 2000)
    max_dims, max_k = (12, 12) if quick else (40, 20)
    for _ in range(n_h):
        cases.append(gen_sampler_case(rng, "hrun", max_dims, max_k))
    for _ in range(n_r):
        cases.append(gen_sampler_case(rng, "rrun", max_dims, max_k))
    cases.append({"kind": "hdirect", "k": 3, "bases": primes, "start": 0})
    cases.append({"kind": "hdirect", "k": 3, "bases": primes, "start": TOP - 3})
    for _ in range(n_d):
        cases.append(gen_hdirect(rng, primes))
    # every exact power p^e (e >= 2) of the first primes below the top of the start range, as the LAST index of a batch of 2
    for pi, pr in enumerate(primes[: 14 if quick else 40]):
        e = 2
        while pr**e < TOP:
            cases.append({"kind": "hdirect", "k": 2, "bases": primes[: max(pi + 1, 3)], "start": pr**e - 2})
            e += 1
    if not quick:
        for j, s in enumerate(range(rng.below(17), TOP - 2, 17)):
            cases.append({"kind": "hdirect", "k": 1 + (j % 8 == 0), "bases": primes, "start": s})
    for n in range(1, 41):
        cases.append({"kind": "primes", "calls": [n]})
    for _ in range(n_p):
        cases.append({"kind": "primes", "calls": [rng.randint(1, 40) if rng.below(12) else rng.randint(-2, 0)
                                                  for _ in range(rng.randint(2, 6))]})
    for d in range(0, 41 if quick else 61):
        cases.append({"kind": "phi", "d": d})
    cases.append({"kind": "seeds", "pairs": [[rng.below(2**32), rng.below(2**32)] for _ in range(n_s)]})
    return cases


IMPL = {"hrun": impl_hrun, "rrun": impl_rrun, "hdirect": impl_hdirect, "primes": impl_primes, "phi": impl_phi, "seeds": impl_seeds}
ORACLE = {"hrun": oracle_hrun, "rrun": oracle_rrun, "hdirect": oracle_hdirect, "primes": oracle_primes, "phi": oracle_phi,
          "seeds": oracle_seeds}
EMIT = {"hrun": (emit_hrun, "check_case", T_HRUN), "rrun": (emit_rrun, "check_rseq", T_RRUN),
        "hdirect": (emit_hdirect, "check_direct", T_HDIRECT), "primes": (emit_primes, "check_primes", T_PRIMES),
        "phi": (emit_phi, "check_phi", T_PHI)}


def summarise(obs):
    """JSON-friendly digest of an observation (arrays as hex strings) for replay files."""
    def conv(o):
        if isinstance(o, np.ndarray):
            return [[float(x).hex() for x in row] for row in o]
        if isinstance(o, dict):
            return {str(k): conv(v) for k, v in o.items()}
        if isinstance(o, (list, tuple)):
            return [conv(v) for v in o]
        return o
    return conv(obs)


def _patch_gate_parser():
    """`Print Assumptions` prints a header line "Axioms:" before the axioms of a theorem that uses Coq's Reals; the shared
    parser reads that header as an axiom name.  Drop it (the real axiom names are still checked against the allow-list)."""
    import common

    if getattr(common.parse_assumptions, "_c13", False):
        return
    orig = common.parse_assumptions

    def parse(out, names):
        return {k: (None if v is None else [a for a in v if a != "Axioms"]) for k, v in orig(out, names).items()}

    parse._c13 = True
    common.parse_assumptions = parse


def mismatches_with_retry(chk, name, fn, typ, lits, shard):
    """chk.coq_mismatches, then ONE sequential retry (long timeout) of any shard that hit the per-file timeout: on a
    loaded machine a timeout says nothing about the model or the implementation."""
    import re

    import common

    bad, errs = chk.coq_mismatches(name, IMPORTS, fn, typ, lits, shard)
    still = []
    for e in errs:
        m = re.match(rf"cases_{name}_(\d+)\.v: rc=124", e)
        if not m:
            still.append(e)
            continue
        idx = int(m.group(1))
        rc, out, err, _ = common.coqc_file(chk.case_dir / f"cases_{name}_{idx}.v", timeout=3000)
        mm = re.search(r"@@BAD\s*(.*)", out, flags=re.S)
        if rc != 0 or not mm:
            still.append(e + f" (retry: rc={rc} {(out + err)[-300:]})")
            continue
        chk.notes.append(f"shard cases_{name}_{idx}.v timed out under load and was re-run alone")
        bad += [idx * shard + int(x) for x in re.findall(r"\d+", mm.group(1))]
    return sorted(bad), still


def run(chk, replay=None):
    _patch_gate_parser()
    chk.proof_gate()
    if replay:
        cases = [json.loads(open(replay).read())["case"]]
    else:
        cases = []
        for f in sorted((chk.case_dir.parents[2] / "corpus" / "C13").glob("*.json")):
            cases.append(json.loads(f.read_text())["case"])
        cases += generate(chk)
    observations = [IMPL[c["kind"]](c) for c in cases]

    # model side, inside Coq (the five families are evaluated concurrently; each is sharded over coqc processes)
    from concurrent.futures import ThreadPoolExecutor

    bad_cases, errors = {}, []
    n_lits = Counter()
    jobs = []
    for kind, (emit, fn, typ) in EMIT.items():
        lits, owner = [], []
        for i, (c, o) in enumerate(zip(cases, observations)):
            if c["kind"] != kind or o.get("error"):
                continue
            for lit in emit(c, o):
                lits.append(lit)
                owner.append(i)
        n_lits[kind] = len(lits)
        if lits:
            nfiles = 16 if chk.tier == "quick" else 32
            shard = max(1, min(400, -(-len(lits) // nfiles))) if kind in ("hrun", "rrun", "hdirect") else 400
            jobs.append((kind, fn, typ, lits, owner, shard))
    with ThreadPoolExecutor(max_workers=len(jobs) or 1) as ex:
        futs = [(j, ex.submit(mismatches_with_retry, chk, f"C13_{j[0]}", j[1], j[2], j[3], j[5])) for j in jobs]
        for (kind, fn, typ, lits, owner, shard), fut in futs:
            bad, errs = fut.result()
            errors += errs
            for b in bad:
                bad_cases.setdefault(owner[b], lits[b])

    # direct oracle + verdicts
    dist = Counter()
    nontrivial, keys = set(), set()
    n_points = 0
    for i, (c, o) in enumerate(zip(cases, observations)):
        kind = c["kind"]
        fails = ORACLE[kind](c, o)
        key = json.dumps(c, sort_keys=True)
        keys.add(key)
        dist[f"kind={kind}"] += 1
        if kind in ("hrun", "rrun") and not o["error"]:
            calls = [cl for so in o["segments"] for cl in so["calls"]]
            n_points += sum(int(cl["rows"].shape[0]) for cl in calls)
            for seg in c["segments"]:
                for op in seg["ops"]:
                    dist[f"{kind}.via={op['via']}"] += 1
                    dist[f"{kind}.dims<={-(-op['dims'] // 10) * 10}"] += 1
            dist[f"{kind}.extra_dedup_calls"] += sum(1 for cl in calls if cl["req"] is None)
            dist[f"{kind}.twin_compared"] += sum(1 for so in o["segments"] if so["twin"] is not None)
            if len(calls) >= 2 and max(cl["dims"] for cl in calls) >= 2:
                nontrivial.add(key)
        elif kind == "hdirect":
            invalid = c["k"] <= 0 or any(b <= 1 for b in c["bases"]) or c["start"] < 0
            dist["hdirect.invalid" if invalid else "hdirect.valid"] += 1
            if not invalid:
                n_points += c["k"]
                if len(c["bases"]) >= 2:
                    nontrivial.add(key)
                if c["start"] == 0 or c["start"] + c["k"] == TOP:
                    dist["hdirect.range_end"] += 1
        elif kind == "primes":
            if len(c["calls"]) >= 2 or c["calls"][0] >= 10:
                nontrivial.add(key)
        elif kind == "phi" and c["d"] >= 1:
            nontrivial.add(key)
        elif kind == "seeds":
            dist["seeds.pairs"] += len(c["pairs"])
            dist["seeds.fresh_start_differs_from_reseeded_start"] += sum(
                1 for r in o["rows"] if (r["h_reseed"], r["r_reseed"]) != (r["h_fresh"], r["r_fresh"]))
            nontrivial.add(key)
        if fails:
            clause, _, detail = fails[0].partition("|")
            chk.violation({"kind": "oracle", "sub": kind, "clause": clause},
                          {"failed": f"oracle:{clause}: {detail}", "all": fails[:20], "case": c, "observed": summarise(o)})
        elif i in bad_cases:
            chk.violation({"kind": "correspondence", "name": EMIT[kind][1]},
                          {"failed": f"correspondence:{EMIT[kind][1]} (model and implementation disagree; the property "
                                     "oracle found no failing input)", "case": c, "observed": summarise(o),
                           "coq_case": bad_cases[i][:20000]}, no_input=True)
    for e in errors:
        chk.violation({"kind": "correspondence", "name": "coqc"}, {"failed": "correspondence:coqc", "detail": e}, no_input=True)

    def sample_of(kind):
        for c, o in zip(cases, observations):
            if c["kind"] == kind:
                if kind in ("hrun", "rrun") and not o["error"]:
                    so = o["segments"][0]
                    return {"case": c, "s0": so["s0"], "cursors_after": [cl["after"] for cl in so["calls"]],
                            "first_row": [float(x) for x in so["calls"][0]["rows"][0]] if so["calls"][0]["rows"].shape[0] else []}
                if kind == "hdirect":
                    return {"case": c, "first_row": None if o["rows"] is None else [float(x) for x in o["rows"][0]]}
        return None

    cov = {
        "evaluations": len(cases),
        "distinct_nontrivial": len(nontrivial),
        "distinct": len(keys),
        "points_compared": n_points,
        "coq_literals": dict(n_lits),
        "rule": "cases = sampler-object runs (seed, 1-2 (re)seed segments, 1-5 calls each via sample_batch / _halton|_r_sequence / "
                "sample(), per-call dims and sizes), direct halton() calls (prime prefixes, shuffled/repeated primes, composite and "
                "large bases, empty base list, start 0, top of range 2^16+2^12, digit-carry starts b^e-1, invalid arguments), "
                "get_n_primes histories (every n<=40 alone + random histories incl. n<=0), compute_phi(d), seed pairs; "
                "non-trivial = sampler run with >= 2 calls and some dims >= 2 | valid direct call with >= 2 bases | prime history "
                "of >= 2 calls or n >= 10 | phi with d >= 1 | the seed sweep; distinct = distinct case descriptions",
        "samples": [x for x in (sample_of("hrun"), sample_of("rrun"), sample_of("hdirect")) if x],
        "traces_validated_against_impl": len(cases) - len(bad_cases),
        "model_impl_disagreements": len(bad_cases),
        "distribution": dict(sorted(dist.items())),
        "tolerances": "Halton coordinates 2^-40 (float error <= 17 roundings ~ 2^-49; smallest effect of a wrong digit/index "
                      ">= 2^-25); R-sequence coordinate k of row n: (n(k+4)+64) 2^-49 on the circle (alpha_k carries <= (k+2) "
                      "2^-53 relative error, multiplied by n < 2^17); phi: sign change within +-2^-45; cursors, primes, batch "
                      "concatenation: exact / bitwise",
        "exhaustive": False,
    }
    return chk.finish(
        cov,
        assumptions=[
            "Generator.integers(20, 2**16) returns a value in [20, 2^16) and Generator.random() a value in [0,1) (checked on "
            "every sampled seed, not proved)",
            "np.divmod on positive int64 is floor division; float64 accumulation error of <= 17 terms is far below 2^-40",
            "prime table: the theorem covers n <= 40 (finite domain, bound in the statement); the general sieve invariant is "
            "not proved",
        ],
        trusted=["modelled, not verified: numpy divmod / broadcasting / boolean-mask assignment / arange / dot / % 1, "
                 "itertools.islice, numpy Generator"],
    )
