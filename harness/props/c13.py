"""C13 - quasi-random samplers emit the true Halton and R sequences, without gaps.

Model: coq/Model/Halton.v, coq/Model/RSeq.v   Theorems: coq/Properties/C13.v
Correspondence (gating, evaluated inside Coq with exact rationals):
  * HaltonSampler objects: the RAW unit-cube rows are captured before snapping (wrapper around `digitize_data` in the
    sampler module's namespace when going through sample_batch()/sample(), return value when calling _halton()),
    un-mapped exactly (lower bound 0, width a power of two); every coordinate must be within 2^-40 of the model's
    vectorised loop AND of radinv(prime_j, s + r); the cursor after every call must be the model's; the rows of
    successive calls must be bit-identical to ONE call on an equally seeded twin.
  * halton() called directly on (sample_size, bases, n_start) incl. n_start = 0, the top of the range and invalid
    arguments;  get_n_primes() call histories (exact);  compute_phi(d) certificate;  RSequenceSampler objects.
Direct oracle: the property statement re-computed in Python with Fractions, written without reference to the model.
Round 4 (generator sweep, design.d/C13.md): numpy-typed sizes / seeds / bases, a second object interleaved, aliasing of
returned arrays, same-seed reseeding, objects seeded at the ends of the start range (cursor across 2^16, up to 2^16+2^12),
rejected requests for both samplers (total-step model Model/SeqRej.v: check_case_t / check_rseq_t), returned rows against
raw rows, shifted search spaces, reassigned max_deduplication_passes, threads.
"""
from __future__ import annotations

import contextlib
import io
import json
import threading
import time
from collections import Counter
from fractions import Fraction

import numpy as np

from common import clist, cnat, cq, cz

IMPORTS = "From Coq Require Import List ZArith QArith.\nFrom BlackIt Require Import Model.Halton Model.RSeq Model.SeqRej."
T_HRUN = "Z * list (Z * Z) * list (Z * list (list Q)) * list (list Q)"
T_HDIRECT = "Z * list Z * Z * option (list (list Q))"
T_PRIMES = "list (Z * option (list Z))"
T_RRUN = "nat * Q * Z * Z * Q * list nat * list (Z * list (list Q)) * list (list Q)"
T_PHI = "nat * Q"
T_HRUN_T = "Z * list (Z * Z) * list (Z * option (list (list Q)))"
T_RRUN_T = "nat * Q * Z * Q * list (nat * Z) * list (Z * option (list (list Q)))"

TOP = 2**16 + 2**12
TOL40 = Fraction(1, 2**40)
EPS45 = Fraction(1, 2**45)


# ------------------------------------------------------------------------------------------------ oracle helpers
def first_primes(n):
    out, c = [], 2
    while len(out) < n:
        if all(c % p for p in out if p * p <= c):
            out.append(c)
        c += 1
    return out


def mirrored(b, n):
    """Radical inverse by mirroring the digit string: (digits reversed as an integer) / b^(number of digits)."""
    num, den = 0, 1
    while n > 0:
        n, r = divmod(n, b)
        num, den = num * b + r, den * b
    return Fraction(num, den)


def frac1(x: Fraction) -> Fraction:
    return x - (x.numerator // x.denominator)


def circ(x: Fraction, y: Fraction) -> Fraction:
    d = abs(x - y)
    return min(d, abs(1 - d))


def rtol(n, k):
    return Fraction(n * (k + 4) + 64, 2**49)


def same_bits(a, b):
    a, b = np.asarray(a, dtype=np.float64), np.asarray(b, dtype=np.float64)
    return a.shape == b.shape and a.tobytes() == b.tobytes()


NPT = {"int": int, "int64": np.int64, "int32": np.int32, "intp": np.intp, "uint32": np.uint32, "uint64": np.uint64}


def typed(v, t):
    """The integer `v` in the representation `t` (round 4: numpy scalars where the code is usually given Python ints)."""
    return v if v is None else NPT[t or "int"](v)


def make_space(dims, jexp, gridn=64, shift=0):
    """Bounds [m*w, (m+1)*w] with w a power of two and m a small integer: un-mapping (x - m*w) / w loses < 2^-50."""
    from black_it.search_space import SearchSpace

    widths = [2.0 ** jexp[i % len(jexp)] for i in range(dims)]
    lows = [shift * w for w in widths]
    ss = SearchSpace([lows, [lo + w for lo, w in zip(lows, widths)]], [w / gridn for w in widths], verbose=False)
    return ss, np.array(widths), np.array(lows)


# ------------------------------------------------------------------------------------------------ implementation drivers
class _Obj:
    """One sampler object driven through the ops of a case, one op per step() (so that two objects can be interleaved)."""

    def __init__(self, kind, case, ctx):
        import black_it.samplers.halton as H
        import black_it.samplers.r_sequence as R

        self.kind, self.case, self.ctx = kind, case, ctx
        self.cls, self.raw_name = (H.HaltonSampler, "_halton") if kind == "hrun" else (R.RSequenceSampler, "_r_sequence")
        self.obs = {"error": None, "segments": []}
        self.todo = [(si, oi) for si, seg in enumerate(case["segments"]) for oi in range(len(seg["ops"]))]
        self.pos = 0
        self.smp = None
        self.so = None
        self.live = []

    def _new(self, seed):
        return self.cls(batch_size=1, random_state=typed(seed, self.case.get("seed_type")))

    def _open_segment(self, si):
        seg = self.case["segments"][si]
        smp = self.smp
        if seg.get("reseed") is not None or seg.get("reseed_same"):
            smp.random_state = self._reseed_value(seg)
        so = {"s0": int(smp._sequence_index), "s0_type": type(smp._sequence_index).__name__, "calls": []}
        if self.raw_name == "_r_sequence":
            so["offset"] = float(smp._sequence_start)
        if si > 0:
            # an object with ANOTHER past given the same seed through the setter: the start must not depend on the past
            ref = self.cls(batch_size=3, random_state=(int(self.case["seed"] or 0) ^ 0x3C3C) + 1 + si)
            getattr(ref, self.raw_name)(2, 2)
            ref.random_state = self._reseed_value(seg)
            so["ref_s0"] = int(ref._sequence_index)
            if self.raw_name == "_r_sequence":
                so["ref_offset"] = float(ref._sequence_start)
        self.so = so
        self.obs["segments"].append(so)

    def _reseed_value(self, seg):
        if seg.get("reseed_same"):
            return typed(self.case["seed"], self.case.get("seed_type"))
        return typed(seg["reseed"], seg.get("reseed_type"))

    def done(self):
        return self.pos >= len(self.todo) or self.obs["error"] is not None

    def step(self):
        try:
            self._step()
        except Exception as e:  # noqa: BLE001
            self.obs["error"] = f"{type(e).__name__}: {e}"

    def _step(self):
        if self.smp is None:
            self.smp = self._new(self.case["seed"])
        si, oi = self.todo[self.pos]
        self.pos += 1
        if oi == 0:
            self._open_segment(si)
        smp, so, raw_name = self.smp, self.so, self.raw_name
        op = self.case["segments"][si]["ops"][oi]
        k, dims, via = op["k"], op["dims"], op["via"]
        kt = op.get("ktype")
        before = int(smp._sequence_index)
        if via == "raw_bad":
            # a request the generator rejects (size <= 0 / dims <= 0), between two good ones: the cursor must not move
            rec = {"k": 0, "dims": max(dims, 0), "before": before, "rows": np.zeros((0, max(dims, 0))), "req": None, "rejected": True,
                   "req_k": op.get("bad_k", 1), "req_dims": op.get("bad_dims", dims)}
            try:
                out = getattr(smp, raw_name)(typed(op.get("bad_k", 1), kt), typed(op.get("bad_dims", dims), kt))
                rec["accepted"] = True
                rec["ret_rows"] = int(np.asarray(out).shape[0])
            except Exception as e:  # noqa: BLE001
                rec["raised"] = type(e).__name__
            rec["after"] = int(smp._sequence_index)
            so["calls"].append(rec)
            return
        if via == "raw":
            rows = getattr(smp, raw_name)(typed(k, kt), typed(dims, kt))
            rec = {"k": k, "dims": dims, "before": before, "after": int(smp._sequence_index),
                   "rows": np.array(rows, dtype=np.float64), "req": k}
            self.live.append((rec, rows))
            so["calls"].append(rec)
            return
        shift = op.get("shift", 0)
        gridn = op.get("gridn", 64)
        ss, widths, lows = make_space(dims, op["jexp"], gridn, shift)
        if shift:
            so["inexact"] = True
        existing = np.zeros((0, dims))
        if op.get("existing") == "full":   # every grid point is already taken: every de-duplication pass redraws
            import itertools

            existing = np.array(list(itertools.product(*ss.param_grid)), dtype=np.float64)
        captured = self.ctx["captured"]
        captured.clear()
        self.ctx["smp"] = smp
        with contextlib.redirect_stdout(io.StringIO()):
            if via == "sample_batch":
                ret = smp.sample_batch(typed(k, kt), ss, existing, np.zeros(existing.shape[0]))
            else:
                smp.batch_size = typed(k, kt)
                if op.get("mdp") is not None:
                    smp.max_deduplication_passes = op["mdp"]
                ret = smp.sample(ss, existing, np.zeros(existing.shape[0]))
        for ci, (data, after) in enumerate(captured):
            rec = {"k": k if ci == 0 else int(data.shape[0]), "dims": dims, "before": before,
                   "after": after, "rows": (data - lows) / widths, "req": k if ci == 0 else None,
                   "ret_shape": list(np.shape(ret))}
            if via == "sample_batch" and ci == 0 and len(captured) == 1:
                rec["ret"] = (np.array(ret, dtype=np.float64) - lows) / widths
                rec["gridn"] = gridn
            so["calls"].append(rec)
            before = after
        if via == "sample":
            so.setdefault("sample_passes", []).append({"mdp": int(smp.max_deduplication_passes), "calls": len(captured)})
        if not captured:
            so["calls"].append({"k": k, "dims": dims, "before": before, "after": int(smp._sequence_index),
                                "rows": np.zeros((0, dims)), "req": k, "nocapture": True})

    def finish(self):
        """Returned arrays must not have been changed by later calls; twin objects: one raw call per segment of constant
        dimension."""
        if self.obs["error"]:
            return
        try:
            for rec, arr in self.live:
                if not same_bits(rec["rows"], arr):
                    rec["changed_later"] = True
            twin = self._new(self.case["seed"])
            for seg, so in zip(self.case["segments"], self.obs["segments"]):
                if seg.get("reseed") is not None or seg.get("reseed_same"):
                    twin.random_state = self._reseed_value(seg)
                dset = {c["dims"] for c in so["calls"] if not c.get("rejected")}
                total = sum(int(c["rows"].shape[0]) for c in so["calls"])
                so["twin_s0"] = int(twin._sequence_index)
                if self.raw_name == "_r_sequence":
                    so["twin_offset"] = float(twin._sequence_start)
                if len(dset) == 1 and total > 0:
                    so["twin"] = np.array(getattr(twin, self.raw_name)(total, dset.pop()), dtype=np.float64)
                else:
                    so["twin"] = None
                    if total > 0:  # keep the twin's cursor aligned for later segments
                        for c in so["calls"]:
                            if c["rows"].shape[0] > 0:
                                getattr(twin, self.raw_name)(int(c["rows"].shape[0]), c["dims"])
        except Exception as e:  # noqa: BLE001
            self.obs["error"] = f"{type(e).__name__}: {e}"


def drive_case(case):
    """Run the ops of `case` on one sampler object - and, when the case has a `partner`, the partner's ops on a second
    object (of the same or of the other class), strictly alternating with the first one's.  Returns the observation dict
    (the partner's under "partner")."""
    import black_it.samplers.halton as H
    import black_it.samplers.r_sequence as R

    ctx = {"captured": [], "smp": None}
    origs = {m: m.digitize_data for m in (H, R)}

    def wrapper_for(orig):
        def wrapper(data, grid):
            ctx["captured"].append((np.array(data, dtype=np.float64, copy=True), int(ctx["smp"]._sequence_index)))
            return orig(data, grid)
        return wrapper

    for m, o in origs.items():
        m.digitize_data = wrapper_for(o)
    try:
        objs = [_Obj(case["kind"], case, ctx)]
        if case.get("partner"):
            objs.append(_Obj(case["partner"]["kind"], case["partner"], ctx))
        while not all(o.done() for o in objs):
            for o in objs:
                if not o.done():
                    o.step()
        for o in objs:
            o.finish()
    finally:
        for m, o in origs.items():
            m.digitize_data = o
    obs = objs[0].obs
    if len(objs) > 1:
        obs["partner"] = objs[1].obs
    return obs


def add_phi(case, obs):
    import black_it.samplers.r_sequence as R

    try:
        obs["phi"] = {d: float(R.RSequenceSampler.compute_phi(d))
                      for d in {op["dims"] for s in case["segments"] for op in s["ops"] if op["dims"] >= 1}}
    except Exception as e:  # noqa: BLE001
        obs["error"] = obs["error"] or f"compute_phi: {type(e).__name__}: {e}"
        obs["phi"] = {}


def impl_run(case):
    obs = drive_case(case)
    for c, o in ((case, obs), (case.get("partner"), obs.get("partner"))):
        if c and c["kind"] == "rrun":
            add_phi(c, o)
    return obs


def mk_bases(bases, btype):
    """The list of bases as the array handed to halton(): int64 (default), int32, a non-contiguous view of a longer
    array (the skipped entries are 1, which halton() must reject if it looked at them), or a read-only array."""
    if btype == "int32":
        return np.array(bases, dtype=np.int32)
    if btype in ("uint8", "int8", "int16", "uint16"):
        # compact integer arrays hold the bases themselves but NOT the indices (which reach 2^16 + 2^12): the digits must be
        # computed in a type that holds the index; bases that do not fit the type fall back to int64
        dt = np.dtype(btype)
        if all(0 <= b <= np.iinfo(dt).max for b in bases):
            return np.array(bases, dtype=dt)
    if btype == "view":
        a = np.ones(2 * len(bases), dtype=np.int64)
        a[::2] = np.array(bases, dtype=np.int64)
        return a[::2]
    arr = np.array(bases, dtype=np.int64)
    if btype == "readonly":
        arr.setflags(write=False)
    return arr


def impl_hdirect(case):
    from black_it.samplers.halton import halton

    try:
        bases = mk_bases(case["bases"], case.get("btype"))
        keep = bases.copy()
        out = halton(typed(case["k"], case.get("ktype")), bases, typed(case["start"], case.get("stype")))
        obs = {"rows": np.array(out, dtype=np.float64), "raised": None,
               "bases_changed": not (bases.shape == keep.shape and (bases == keep).all())}
        if case.get("again"):
            # a second call (other arguments, or the same): the array returned by the first must not change, and equal
            # arguments must give bit-identical values (no scratch buffer / memo shared between calls)
            ag = case["again"]
            out2 = halton(ag["k"], mk_bases(ag["bases"], case.get("btype")), ag["start"])
            obs["again_rows"] = np.array(out2, dtype=np.float64)
            obs["first_changed"] = not same_bits(obs["rows"], out)
        return obs
    except ValueError as e:
        return {"rows": None, "raised": f"ValueError: {e}"}
    except Exception as e:  # noqa: BLE001
        return {"rows": None, "raised": None, "error": f"{type(e).__name__}: {e}"}


def impl_primes(case):
    """`calls` on one calculator; with `second`, the calls of a second calculator alternate with them (caches are per
    object); with `mutate`, the caller overwrites every returned array in place (it owns it)."""
    from black_it.samplers.halton import _CachedPrimesCalculator

    def one(calc, n):
        try:
            arr = calc.get_n_primes(typed(n, case.get("ntype")))
            res = [int(p) for p in arr]
            if case.get("mutate"):
                with contextlib.suppress(ValueError):
                    arr[...] = 4
            return res
        except ValueError:
            return None
        except Exception as e:  # noqa: BLE001
            return f"{type(e).__name__}: {e}"

    calc, calc2 = _CachedPrimesCalculator(), _CachedPrimesCalculator()
    out, out2 = [], []
    second = case.get("second") or []
    for i, n in enumerate(case["calls"]):
        out.append(one(calc, n))
        if i < len(second):
            out2.append(one(calc2, second[i]))
    for n in second[len(case["calls"]):]:
        out2.append(one(calc2, n))
    return {"out": out, "out2": out2}


def impl_phi(case):
    from black_it.samplers.r_sequence import RSequenceSampler

    try:
        return {"phi": float(RSequenceSampler.compute_phi(typed(case["d"], case.get("dtype")))), "raised": None}
    except ValueError as e:
        return {"phi": None, "raised": str(e)}


def impl_seeds(case):
    from black_it.samplers.halton import HaltonSampler
    from black_it.samplers.r_sequence import RSequenceSampler

    st = case.get("seed_type")
    rows = []
    for seed, seed2 in case["pairs"]:
        tseed, tseed2 = typed(seed, st), typed(seed2, st)
        h, r = HaltonSampler(3, random_state=tseed), RSequenceSampler(3, random_state=tseed)
        h2, r2 = HaltonSampler(3, random_state=tseed), RSequenceSampler(3, random_state=tseed)
        hp, rp = HaltonSampler(2, random_state=seed), RSequenceSampler(2, random_state=seed)
        rec = {"seed": seed, "seed2": seed2, "h": int(h._sequence_index), "r": int(r._sequence_index),
               "off": float(r._sequence_start), "h_again": int(h2._sequence_index), "r_again": int(r2._sequence_index),
               "off_again": float(r2._sequence_start), "h_plain": int(hp._sequence_index), "r_plain": int(rp._sequence_index),
               "off_plain": float(rp._sequence_start)}
        h._halton(5, 2)
        r._r_sequence(5, 2)
        h.random_state = tseed2
        r.random_state = tseed2
        # another object with a different past, given the same seed through the setter
        hb, rb = HaltonSampler(1, random_state=seed ^ 0x5A5A), RSequenceSampler(1, random_state=seed ^ 0x5A5A)
        hb._halton(2, 3)
        hb.random_state = tseed2
        rb.random_state = tseed2
        hf, rf = HaltonSampler(1, random_state=tseed2), RSequenceSampler(1, random_state=tseed2)
        rec.update(h_reseed=int(h._sequence_index), r_reseed=int(r._sequence_index), off_reseed=float(r._sequence_start),
                   h_other=int(hb._sequence_index), r_other=int(rb._sequence_index), off_other=float(rb._sequence_start),
                   h_fresh=int(hf._sequence_index), r_fresh=int(rf._sequence_index), off_fresh=float(rf._sequence_start))
        rows.append(rec)
    unseeded = []
    for _ in range(case.get("unseeded", 0)):
        h, r = HaltonSampler(2, random_state=None), RSequenceSampler(2, random_state=None)
        unseeded.append({"h": int(h._sequence_index), "r": int(r._sequence_index), "off": float(r._sequence_start)})
    # measured, not judged: a NEGATIVE size is not a batch size; halton() rejects it, _r_sequence answers with 0 rows and
    # moves its cursor back (reported in design.d/C13.md as an observation)
    rs = RSequenceSampler(1, random_state=0)
    b = int(rs._sequence_index)
    try:
        n_rows = int(rs._r_sequence(-2, 2).shape[0])
    except Exception:  # noqa: BLE001
        n_rows = None
    return {"rows": rows, "unseeded": unseeded, "rseq_negative_size": {"rows": n_rows, "cursor_moved_by": int(rs._sequence_index) - b}}


def _job_run(job):
    """One unit of work of the thread scenario; returns bytes / numbers that must not depend on what other threads do."""
    from black_it.samplers.halton import HaltonSampler, halton
    from black_it.samplers.r_sequence import RSequenceSampler

    if job["t"] == "halton":
        return np.array(halton(job["k"], np.array(job["bases"], dtype=np.int64), job["start"]), dtype=np.float64).tobytes().hex()
    if job["t"] == "phi":
        return float(RSequenceSampler.compute_phi(job["d"])).hex()
    cls, raw = (HaltonSampler, "_halton") if job["t"] == "hobj" else (RSequenceSampler, "_r_sequence")
    smp = cls(batch_size=1, random_state=job["seed"])
    out = [int(smp._sequence_index)]
    for k, dims in job["ops"]:
        out.append(np.array(getattr(smp, raw)(k, dims), dtype=np.float64).tobytes().hex())
        out.append(int(smp._sequence_index))
    return out


def impl_threads(case):
    """Every job once sequentially, then all of them on `n_threads` threads (interpreter switch interval 1 us), `rounds`
    times: halton() and compute_phi are pure functions and every sampler object belongs to one thread only."""
    import sys
    import threading

    jobs = case["jobs"]
    try:
        ref = [_job_run(j) for j in jobs]
    except Exception as e:  # noqa: BLE001
        return {"error": f"{type(e).__name__}: {e}"}
    differ, errors = [], []
    old = sys.getswitchinterval()
    sys.setswitchinterval(1e-6)
    try:
        for rnd in range(case["rounds"]):
            res = [None] * len(jobs)
            barrier = threading.Barrier(case["n_threads"])

            def work(t, res=res, barrier=barrier):
                barrier.wait()
                for i in range(t, len(jobs), case["n_threads"]):
                    try:
                        res[i] = _job_run(jobs[i])
                    except Exception as e:  # noqa: BLE001
                        res[i] = f"{type(e).__name__}: {e}"
            ths = [threading.Thread(target=work, args=(t,)) for t in range(case["n_threads"])]
            for t in ths:
                t.start()
            for t in ths:
                t.join()
            for i, (a, b2) in enumerate(zip(ref, res)):
                if a != b2:
                    (errors if isinstance(b2, str) and ":" in b2 and not isinstance(a, str) else differ).append([rnd, i])
    finally:
        sys.setswitchinterval(old)
    return {"error": None, "differ": differ, "errors": errors, "ref_halton": [
        np.frombuffer(bytes.fromhex(r), dtype=np.float64).reshape(j["k"], len(j["bases"])) if j["t"] == "halton" else None
        for j, r in zip(jobs, ref)]}


# ------------------------------------------------------------------------------------------------ direct oracles
TOL45 = Fraction(1, 2**45)
MARGIN = Counter()   # measured on every run (reported in the coverage): how close the clean tree comes to each tolerance


def note_margin(key, value):
    MARGIN[key] = max(MARGIN[key], float(value))


def oracle_calls_common(so, fails, tag, kind):
    cur = so["s0"]
    if not (20 <= so["s0"] < 2**16):
        fails.append(f"start index range|{tag}: start index {so['s0']} outside [20, 2^16)")
    for ci, c in enumerate(so["calls"]):
        rows = c["rows"]
        if c.get("nocapture"):
            fails.append(f"no capture|{tag}: call {ci} did not reach digitize_data")
            continue
        if c.get("accepted") and (kind == "hrun" or c.get("ret_rows", 1) != 0):
            # halton() rejects a non-positive size (C13_halton_raises_iff); the R-sequence may answer a request for 0 points
            # with 0 points, but not with points
            fails.append(f"invalid arguments accepted|{tag}: call {ci} with a non-positive size / dimension returned a value")
        if c["req"] is not None and rows.shape != (c["req"], c["dims"]):
            fails.append(f"shape|{tag}: call {ci} returned shape {rows.shape}, requested {(c['req'], c['dims'])}")
        if c["before"] != cur:
            fails.append(f"cursor before call|{tag}: call {ci} started at cursor {c['before']}, expected {cur}")
        if c["after"] != c["before"] + rows.shape[0]:
            fails.append(f"cursor after call|{tag}: call {ci}: cursor went {c['before']} -> {c['after']} for {rows.shape[0]} rows")
        if c.get("changed_later"):
            fails.append(f"returned batch changed later|{tag}: the array returned by call {ci} was changed by a later call")
        if "ret" in c:
            # round 4: what sample_batch RETURNS is, row by row, the captured point moved by less than one grid step (the exact
            # snapping rule belongs to C03 / C15; the ORDER and NUMBER of the rows belong here: the k-th point is the k-th row)
            ret = c["ret"]
            if ret.shape == rows.shape and rows.size:
                note_margin("returned_vs_raw_in_grid_steps(limit 1)", np.max(np.abs(ret - rows)) * c["gridn"])
            if ret.shape != rows.shape:
                fails.append(f"returned rows|{tag}: call {ci} returned shape {ret.shape} for {rows.shape} raw rows")
            elif rows.size and float(np.max(np.abs(ret - rows))) > 1.0 / c["gridn"] + 2.0**-40:
                fails.append(f"returned rows|{tag}: call {ci}: a returned row is further than one grid step from the raw "
                             f"point of the same position (max {float(np.max(np.abs(ret - rows)))!r}, step {1.0 / c['gridn']!r})")
        cur = c["after"]
    if so.get("twin_s0") != so["s0"]:
        fails.append(f"start index not seed-determined|{tag}: start index is not a function of the seed ({so['s0']} vs twin {so.get('twin_s0')})")
    if "ref_s0" in so and so["ref_s0"] != so["s0"]:
        fails.append(f"reseed depends on past|{tag}: after reseeding the start index is {so['s0']}, an object with another past "
                     f"given the same seed starts at {so['ref_s0']}")
    if "ref_offset" in so and so["ref_offset"] != so["offset"]:
        fails.append(f"reseed depends on past|{tag}: after reseeding the offset is {so['offset']!r}, an object with another past "
                     f"given the same seed has {so['ref_offset']!r}")
    if so["twin"] is not None:
        cat = np.concatenate([c["rows"] for c in so["calls"] if not c.get("rejected")], axis=0)
        if so.get("inexact"):
            # a space with a non-zero lower bound: un-mapping loses < 2^-50, so compare within 2^-45 instead of bitwise
            d = np.abs(cat - so["twin"]) if cat.shape == so["twin"].shape else None
            if d is not None and d.size:
                note_margin("shifted_space_vs_one_batch_in_2^-45(limit 1)", np.max(np.minimum(d, 1 - d) if kind == "rrun" else d) * 2.0**45)
            same = d is not None and (d.size == 0 or float(np.max(np.minimum(d, 1 - d) if kind == "rrun" else d)) <= 2.0**-45)
        else:
            same = same_bits(cat, so["twin"])
        if not same:
            fails.append(f"batches differ from one batch|{tag}: batches {[int(c['rows'].shape[0]) for c in so['calls']]} differ from one batch of the total")


def oracle_hrun_one(case, obs):
    if obs["error"]:
        return [f"exception|{obs['error']}"]
    fails = []
    primes = first_primes(40)
    for si, so in enumerate(obs["segments"]):
        tag = f"halton segment {si}"
        oracle_calls_common(so, fails, tag, "hrun")
        for ci, c in enumerate(so["calls"]):
            for r in range(c["rows"].shape[0]):
                n = c["before"] + 1 + r
                for j in range(min(c["dims"], c["rows"].shape[1])):
                    x = Fraction(float(c["rows"][r, j]))
                    note_margin("halton_object_abs_err_in_2^-40(limit 1)" + ("[shifted space]" if so.get("inexact") else ""),
                                abs(x - mirrored(primes[j], n)) * 2**40)
                    if not (0 <= x < 1) or abs(x - mirrored(primes[j], n)) > TOL40:
                        fails.append(f"point value|{tag}: call {ci} row {r} coord {j} = {float(x)!r} is not the radical inverse "
                                     f"of {n} in base {primes[j]} ({float(mirrored(primes[j], n))!r})")
                        break
                else:
                    continue
                break
    return fails


def oracle_rrun_one(case, obs):
    if obs["error"]:
        return [f"exception|{obs['error']}"]
    fails = []
    for si, so in enumerate(obs["segments"]):
        tag = f"rseq segment {si}"
        oracle_calls_common(so, fails, tag, "rrun")
        off = Fraction(so["offset"])
        if not (0 <= off < 1):
            fails.append(f"offset range|{tag}: offset {so['offset']} outside [0,1)")
        if so.get("twin_offset") != so["offset"]:
            fails.append(f"offset not seed-determined|{tag}: offset is not a function of the seed")
        prev = None
        for ci, c in enumerate(so["calls"]):
            if c.get("rejected"):
                continue
            d = c["dims"]
            phi = Fraction(obs["phi"][d])
            lo, hi = phi - EPS45, phi + EPS45
            if not (lo >= 1 and lo ** (d + 1) - lo - 1 < 0 < hi ** (d + 1) - hi - 1):
                fails.append(f"phi|{tag}: compute_phi({d}) = {obs['phi'][d]!r} is not within 2^-45 of the root of x^{d + 1} = x + 1")
                continue
            alpha = [(1 / phi) ** k for k in range(1, d + 1)]
            bad = None
            for r in range(c["rows"].shape[0]):
                n = c["before"] + r
                row = [Fraction(float(v)) for v in c["rows"][r]]
                for j, x in enumerate(row[:d]):
                    note_margin("rseq_object_err_over_rtol(limit 1)" + ("[shifted space]" if so.get("inexact") else ""),
                                circ(x, frac1(off + n * alpha[j])) / rtol(n, j + 1))
                    if not (0 <= x < 1) or circ(x, frac1(off + n * alpha[j])) > rtol(n, j + 1):
                        bad = f"point value|{tag}: call {ci} row {r} coord {j} = {float(x)!r} is not frac(offset + {n}*alpha_{j + 1})"
                        break
                    if prev is not None and prev[0] == d and circ(frac1(x - prev[1][j]), frac1(alpha[j])) > 2 * rtol(n, j + 1):
                        bad = f"increment|{tag}: call {ci} row {r} coord {j} does not advance by alpha_{j + 1} mod 1"
                        break
                if bad:
                    break
                prev = (d, row)
            if bad:
                fails.append(bad)
    return fails


def oracle_run(case, obs):
    one = {"hrun": oracle_hrun_one, "rrun": oracle_rrun_one}
    fails = one[case["kind"]](case, obs)
    if case.get("partner"):
        # the second object, whose calls alternate with the first one's, must follow its own sequence as well
        for f in one[case["partner"]["kind"]](case["partner"], obs["partner"]):
            clause, _, detail = f.partition("|")
            fails.append(f"{clause}|interleaved second object: {detail}")
    return fails


def oracle_hdirect(case, obs):
    if obs.get("error"):
        return [f"exception|{obs['error']}"]
    k, bases, s = case["k"], case["bases"], case["start"]
    invalid = k <= 0 or any(b <= 1 for b in bases) or s < 0
    if invalid:
        return [] if obs["raised"] else ["invalid arguments accepted|halton() returned a value"]
    if obs["raised"]:
        return [f"valid arguments rejected|{obs['raised']}"]

    def values(rows, k, bases, s, what):
        if rows.shape != (k, len(bases)):
            return [f"shape|{what}{rows.shape} != {(k, len(bases))}"]
        for r in range(k):
            for j, b in enumerate(bases):
                x = Fraction(float(rows[r, j]))
                if not (0 <= x < 1) or abs(x - mirrored(b, s + 1 + r)) > TOL40:
                    return [f"point value|{what}row {r} base {b}: {float(x)!r} is not the radical inverse of {s + 1 + r}"]
        return []

    fails = values(obs["rows"], k, bases, s, "")
    if obs.get("bases_changed"):
        fails.append("caller's array changed|halton() wrote into the array of bases it was given")
    if case.get("again") and "again_rows" in obs:
        ag = case["again"]
        fails += values(obs["again_rows"], ag["k"], ag["bases"], ag["start"], "second call: ")
        if obs.get("first_changed"):
            fails.append("returned batch changed later|the array returned by halton() was changed by the next call")
        if (ag["k"], ag["bases"], ag["start"]) == (k, bases, s) and not same_bits(obs["rows"], obs["again_rows"]):
            fails.append("not a function of its arguments|two calls of halton() with equal arguments returned different values")
    return fails


def oracle_primes(case, obs):
    fails = []
    for calls, outs, who in ((case["calls"], obs["out"], ""), (case.get("second") or [], obs.get("out2") or [], "second calculator: ")):
        for n, o in zip(calls, outs):
            if n < 1:
                if o is not None:
                    fails.append(f"primes no raise|{who}get_n_primes({n}) did not raise ValueError")
            elif o != first_primes(n):
                fails.append(f"primes wrong|{who}get_n_primes({n}) after calls {calls} returned {o}")
    return fails


def oracle_threads(case, obs):
    if obs.get("error"):
        return [f"exception|{obs['error']}"]
    fails = []
    if obs["errors"]:
        rnd, i = obs["errors"][0]
        fails.append(f"exception|job {case['jobs'][i]} raised on a thread (round {rnd}) and not sequentially")
    if obs["differ"]:
        rnd, i = obs["differ"][0]
        fails.append(f"thread results differ|job {case['jobs'][i]} gave another result on a thread (round {rnd}) than sequentially "
                     f"({len(obs['differ'])} such jobs)")
    for j, rows in zip(case["jobs"], obs["ref_halton"]):
        if rows is None:
            continue
        for r in range(j["k"]):
            for c, b in enumerate(j["bases"]):
                if abs(Fraction(float(rows[r, c])) - mirrored(b, j["start"] + 1 + r)) > TOL40:
                    fails.append(f"point value|sequential halton{(j['k'], j['bases'], j['start'])} row {r} base {b}")
                    return fails
    return fails


def oracle_phi(case, obs):
    d = case["d"]
    if d < 1:
        return [] if obs["raised"] else [f"phi no raise|compute_phi({d}) accepted"]
    if obs["phi"] is None:
        return [f"phi raised|compute_phi({d}) raised"]
    phi = Fraction(obs["phi"])
    lo, hi = phi - EPS45, phi + EPS45
    if not (lo >= 1 and lo ** (d + 1) - lo - 1 < 0 < hi ** (d + 1) - hi - 1):
        return [f"phi|compute_phi({d}) = {obs['phi']!r} is not within 2^-45 of the root of x^{d + 1} = x + 1"]
    return []


def oracle_seeds(case, obs):
    fails = []
    for r in obs["rows"]:
        for key in ("h", "r", "h_reseed", "r_reseed"):
            if not (20 <= r[key] < 2**16):
                fails.append(f"start index range|seed {r['seed']}: start index {key}={r[key]} outside [20, 2^16)")
        for key in ("off", "off_reseed"):
            if not (0.0 <= r[key] < 1.0):
                fails.append(f"offset range|seed {r['seed']}: offset {r[key]} outside [0,1)")
        if (r["h"], r["r"], r["off"]) != (r["h_again"], r["r_again"], r["off_again"]):
            fails.append(f"start index not seed-determined|seed {r['seed']}: start index/offset not determined by the seed")
        # NOT required: a freshly constructed object starts elsewhere than a reseeded one (the constructors draw the start
        # twice: once in the random_state setter, once more in __init__); both are functions of the seed alone
        if (r["h_reseed"], r["r_reseed"], r["off_reseed"]) != (r["h_other"], r["r_other"], r["off_other"]):
            fails.append(f"reseed depends on past|reseeding with {r['seed2']} through the setter: cursor/offset depend on the object's past")
        if "h_plain" in r and (r["h"], r["r"], r["off"]) != (r["h_plain"], r["r_plain"], r["off_plain"]):
            fails.append(f"start index not seed-determined|seed {r['seed']} given as {case.get('seed_type')}: start index/offset "
                         "differ from those of the equal Python int")
    for u in obs.get("unseeded", []):
        if not (20 <= u["h"] < 2**16 and 20 <= u["r"] < 2**16 and 0.0 <= u["off"] < 1.0):
            fails.append(f"start index range|unseeded sampler: start {u} outside [20, 2^16) x [0,1)")
    return fails


# ------------------------------------------------------------------------------------------------ Coq literals
def rows_lit(rows):
    return clist([clist([cq(float(x)) for x in r]) for r in rows])


CHUNK = 400   # rows per Coq literal: a batch of thousands of points in ONE literal needs > 500 MB in coqc


def chunks(n):
    return [(a, min(n, a + CHUNK)) for a in range(0, n, CHUNK)]


def emit_hrun_one(case, obs):
    """One literal per segment (a segment starts at a (re)seed); the prime cache of a reseeded object is warm, which the
    model covers by theorem (C13_sampler_run_spec: any reachable cache state) - the literal starts from a fresh cache and
    the answers must coincide."""
    lits = []
    for so in obs["segments"]:
        good = [c for c in so["calls"] if not c.get("rejected")]   # rejected requests are judged by the oracle (cursor unchanged)
        big = next((i for i, c in enumerate(good) if c["rows"].shape[0] > CHUNK), None)
        if big is not None:
            # round 4: from the first batch of more than CHUNK rows on, the calls go to Coq in pieces, as halton() calls on the
            # first dims primes from the cursor the call started at (check_direct; C13_batches_concat: the pieces of one batch
            # are batches); cursors and the whole-call structure of these calls are judged by the oracle
            primes = first_primes(40)
            for c in good[big:]:
                for a, b in chunks(c["rows"].shape[0]):
                    lits.append(("hdirect", f"({cz(b - a)}, {clist([cz(x) for x in primes[:c['dims']]])}, {cz(c['before'] + a)}, "
                                            f"(Some {rows_lit(c['rows'][a:b])}))"))
            good = good[:big]
            if not good:
                continue
            so = {**so, "twin": None}
        ops = clist([f"({cz(c['k'])}, {cz(c['dims'])})" for c in good])
        ob = clist([f"({cz(c['after'])}, {rows_lit(c['rows'])})" for c in good])
        twin = rows_lit(so["twin"]) if (so["twin"] is not None and not so.get("inexact")) else "[]"
        lits.append(f"({cz(so['s0'])}, {ops}, {ob}, {twin})")
    return lits


def emit_rrun_one(case, obs):
    """One literal per run of constant dimension inside a segment (alpha depends on the dimension; the cursor and the
    offset carry over): (dims, phi, seeded start, cursor at the first call of the run, offset, sizes, observations, twin)."""
    lits = []
    for so in obs["segments"]:
        runs = []
        for c in so["calls"]:
            if c.get("rejected"):
                continue
            if runs and runs[-1][0]["dims"] == c["dims"]:
                runs[-1].append(c)
            else:
                runs.append([c])
        pieces = []
        for run in runs:   # round 4: a batch of more than CHUNK rows is given to Coq in pieces (C13_rseq_batches_concat)
            if any(c["rows"].shape[0] > CHUNK for c in run):
                for c in run:
                    for a, b in chunks(c["rows"].shape[0]):
                        pieces.append([{**c, "k": b - a, "before": c["before"] + a, "after": c["before"] + b, "rows": c["rows"][a:b]}])
            else:
                pieces.append(run)
        split = len(pieces) != len(runs)
        runs = pieces
        for run in runs:
            d = run[0]["dims"]
            ks = clist([cnat(c["k"]) for c in run])
            ob = clist([f"({cz(c['after'])}, {rows_lit(c['rows'])})" for c in run])
            twin = rows_lit(so["twin"]) if (so["twin"] is not None and len(runs) == 1 and not split and not so.get("inexact")) else "[]"
            lits.append(f"({cnat(d)}, {cq(obs['phi'][d])}, {cz(so['s0'])}, {cz(run[0]['before'])}, {cq(so['offset'])}, "
                        f"{ks}, {ob}, {twin})")
    return lits


def obs_opt(c):
    """Observation of one request for the total-step model: (cursor after, Some rows | None = the call raised)."""
    if c.get("rejected"):
        return f"({cz(c['after'])}, {'(Some [])' if c.get('accepted') else 'None'})"
    return f"({cz(c['after'])}, (Some {rows_lit(c['rows'])}))"


def emit_hrun_t_one(case, obs):
    """Round 4: segments WITH rejected requests, for the total-step model (Model/SeqRej.v: hsample_t): the requests as made
    (rejected ones included) and per request (cursor after, rows | raised)."""
    lits = []
    for so in obs["segments"]:
        if not any(c.get("rejected") for c in so["calls"]):
            continue
        ops = clist([f"({cz(c['req_k'])}, {cz(c['req_dims'])})" if c.get("rejected") else f"({cz(c['k'])}, {cz(c['dims'])})"
                     for c in so["calls"]])
        lits.append(f"({cz(so['s0'])}, {ops}, {clist([obs_opt(c) for c in so['calls']])})")
    return lits


def emit_rrun_t_one(case, obs):
    """Runs of one dimension with the rejected requests (dimension < 1) and the requests for 0 points that fall inside them."""
    lits = []
    for so in obs["segments"]:
        runs, held = [], []
        for c in so["calls"]:
            if c.get("rejected"):
                (runs[-1]["calls"] if runs else held).append(c)
            elif runs and runs[-1]["d"] == c["dims"]:
                runs[-1]["calls"].append(c)
            else:
                runs.append({"d": c["dims"], "calls": held + [c]})
                held = []
        for rn in runs:
            run, d = rn["calls"], rn["d"]
            if not any(c.get("rejected") for c in run):
                continue
            ops = clist([f"({cnat(max(c['req_k'], 0))}, {cz(c['req_dims'])})" if c.get("rejected") else f"({cnat(c['k'])}, {cz(d)})"
                         for c in run])
            lits.append(f"({cnat(d)}, {cq(obs['phi'][d])}, {cz(run[0]['before'])}, {cq(so['offset'])}, {ops}, "
                        f"{clist([obs_opt(c) for c in run])})")
    return lits


def emit_of(kind):
    """Literals of the objects of class `kind` of a case: the case's own object and / or its interleaved partner."""
    one = {"hrun": emit_hrun_one, "rrun": emit_rrun_one, "hrun_t": emit_hrun_t_one, "rrun_t": emit_rrun_t_one}[kind]
    kind = kind[:4]   # hrun_t -> hrun, rrun_t -> rrun

    def emit(case, obs):
        lits = []
        if case["kind"] == kind:
            lits += one(case, obs)
        pc = case.get("partner")
        if pc and pc["kind"] == kind and not obs["partner"].get("error"):
            lits += one(pc, obs["partner"])
        return lits
    return emit


def emit_hdirect(case, obs):
    o = "None" if obs["rows"] is None else f"(Some {rows_lit(obs['rows'])})"
    if obs["rows"] is not None and obs["rows"].shape[0] > CHUNK and obs["rows"].shape == (case["k"], len(case["bases"])):
        lits = [f"({cz(b - a)}, {clist([cz(x) for x in case['bases']])}, {cz(case['start'] + a)}, (Some {rows_lit(obs['rows'][a:b])}))"
                for a, b in chunks(case["k"])]
    else:
        lits = [f"({cz(case['k'])}, {clist([cz(b) for b in case['bases']])}, {cz(case['start'])}, {o})"]
    if case.get("again") and obs.get("again_rows") is not None:
        ag = case["again"]
        lits.append(f"({cz(ag['k'])}, {clist([cz(b) for b in ag['bases']])}, {cz(ag['start'])}, (Some {rows_lit(obs['again_rows'])}))")
    return lits


def emit_primes(case, obs):
    lits = []
    for calls, outs in ((case["calls"], obs["out"]), (case.get("second") or [], obs.get("out2") or [])):
        items = []
        for n, o in zip(calls, outs):
            if isinstance(o, str):
                return []
            items.append(f"({cz(n)}, {'None' if o is None else '(Some ' + clist([cz(p) for p in o]) + ')'})")
        if items:
            lits.append(clist(items))
    return lits


def emit_phi(case, obs):
    if case["d"] < 1 or obs["phi"] is None:
        return []
    return [f"({cnat(case['d'])}, {cq(obs['phi'])})"]


# ------------------------------------------------------------------------------------------------ generators
def gen_sampler_case(rng, kind, max_dims, max_k):
    segs = []
    for si in range(1 + (rng.below(4) == 0)):
        const_dims = rng.below(10) < 6
        d0 = rng.randint(1, max_dims)
        ops = []
        for _ in range(rng.randint(1, 5)):
            v = rng.below(10)
            ops.append({"k": rng.randint(1, max_k), "dims": d0 if const_dims else rng.randint(1, max_dims),
                        "via": "sample_batch" if v < 5 else ("raw" if v < 8 else "sample"),
                        "jexp": [rng.randint(-2, 3) for _ in range(3)],
                        # a coarse grid makes sample() find repeats and redraw: extra internal sample_batch calls
                        "gridn": 64 if v < 9 else 4})
        if kind == "hrun" and rng.below(4) == 0:
            ops.insert(rng.randint(0, len(ops) - 1) if len(ops) > 1 else 0,
                       {"k": 0, "bad_k": rng.choice([0, -1, -4]), "dims": ops[0]["dims"], "via": "raw_bad", "jexp": [0, 0, 0]})
            if ops[-1]["via"] == "raw_bad":
                ops.append({"k": rng.randint(1, max_k), "dims": ops[0]["dims"], "via": "raw", "jexp": [0, 0, 0], "gridn": 64})
        segs.append({"reseed": None if si == 0 else rng.below(2**31), "ops": ops})
    return {"kind": kind, "seed": rng.below(2**31), "segments": segs}


def gen_hdirect(rng, primes):
    k = rng.randint(1, 4)
    m = rng.below(10)
    if m < 4:
        bases = primes[: rng.randint(1, 40)]
    elif m < 6:
        bases = [rng.choice(primes) for _ in range(rng.randint(1, 8))]  # any order, repeats
    elif m < 9:
        bases = [rng.choice([2, 3, 4, 6, 9, 10, 16, 100, 173, 174, 1000, 65537, 2**20, rng.randint(2, 5000)])
                 for _ in range(rng.randint(1, 6))]
    else:
        bases = []
    t = rng.below(20)
    if t == 0:
        start = 0
    elif t == 1:
        start = TOP - k
    elif t in (2, 3, 4, 5) and any(2 <= b < TOP for b in bases):
        # an exact power of one of the case's own bases (digit count changes there; log-based digit counts are off by one
        # at 3^5, 3^10, 17^3, ...) placed at the first, a middle or the LAST row of the batch
        b = rng.choice([x for x in bases if 2 <= x < TOP])
        emax = 1
        while b ** (emax + 1) < TOP:
            emax += 1
        e = emax if rng.below(3) == 0 else rng.randint(1, emax)
        pos = k - 1 if rng.below(2) else rng.below(k)
        start = b**e - 1 - pos
    elif t == 2:
        start = rng.choice([b**e - 1 - rng.below(2) for b in (2, 3, 5, 7, 173) for e in (1, 2, 3, 4) if b**e < TOP])
    else:
        start = rng.randint(0, TOP - k)
    start = max(start, 0)
    bad = rng.below(25)
    if bad == 0:
        k = rng.choice([0, -1])
    elif bad == 1 and bases:
        bases = list(bases)
        bases[rng.below(len(bases))] = rng.choice([1, 0, -3])
    elif bad == 2:
        start = -rng.randint(1, 5)
    return {"kind": "hdirect", "k": k, "bases": list(bases), "start": start}


# ---- round 4 (generator sweep): representations, reuse, reassigned attributes, thresholds, sequences
KTYPES = [None, None, None, None, "int64", "int32", "intp"]


def find_seed(kind, rng, lo, hi, cap=40000):
    """A seed whose freshly constructed sampler starts in [lo, hi), found by constructing real samplers (about
    65516 / (hi - lo) tries, 25 us each); None when the cap is reached (possible only on a changed tree)."""
    from black_it.samplers.halton import HaltonSampler
    from black_it.samplers.r_sequence import RSequenceSampler

    cls = HaltonSampler if kind == "hrun" else RSequenceSampler
    seed = rng.below(2**31)
    for i in range(cap):
        try:
            if lo <= int(cls(1, random_state=seed + i)._sequence_index) < hi:
                return seed + i
        except Exception:  # noqa: BLE001
            return seed + i
    return None


def gen_long_case(rng, kind, mode):
    """Sampler objects at the ends of the range of start indices (the property quantifies over [0, 2^16 + 2^12)):
    cross = seeded within 128 of 2^16, 2-4 batches of 64..200 points (the cursor crosses 2^16);
    top   = seeded within 256 of 2^16, a small batch, one batch that ends 1..5 points below 2^16 + 2^12, a last one to the top;
    low   = seeded within 256 of 20, 2-4 batches of 30..120 points (crosses 27, 32, 49, 64, 81, 125, 128, 243, 256, 343)."""
    if mode == "low":
        seed = find_seed(kind, rng, 20, 20 + 256)
    else:
        seed = find_seed(kind, rng, 2**16 - (128 if mode == "cross" else 256), 2**16)
    if seed is None:
        return None
    dims = rng.randint(1, 2 if mode == "top" else 3)

    def op(k):
        return {"k": k, "dims": dims, "via": "raw" if rng.below(3) else "sample_batch", "jexp": [rng.randint(-2, 3) for _ in range(3)],
                "gridn": 64, "ktype": rng.choice(KTYPES)}
    if mode == "top":
        k1, k3 = rng.randint(1, 12), rng.randint(1, 5)
        ops = [op(k1), {**op(0), "k": None, "to_top_minus": k3}, op(k3)]
    elif mode == "cross":
        ops = [op(rng.randint(64, 200)) for _ in range(rng.randint(2, 4))]
    else:
        ops = [op(rng.randint(30, 120)) for _ in range(rng.randint(2, 4))]
    return {"kind": kind, "seed": seed, "segments": [{"reseed": None, "ops": ops}], "long": mode}


def resolve_top(case):
    """`to_top_minus`: the size that brings the cursor to 2^16 + 2^12 - m depends on the start index, which is the
    implementation's: resolved by constructing the sampler once (the size is then stored in the case: replayable)."""
    from black_it.samplers.halton import HaltonSampler
    from black_it.samplers.r_sequence import RSequenceSampler

    cls = HaltonSampler if case["kind"] == "hrun" else RSequenceSampler
    for seg in case["segments"]:
        for i, o in enumerate(seg["ops"]):
            if o.get("k") is None:
                try:
                    s0 = int(cls(1, random_state=case["seed"])._sequence_index)
                except Exception:  # noqa: BLE001
                    s0 = 2**16 - 1
                used = sum(x["k"] for x in seg["ops"][:i])
                o["k"] = max(1, min(TOP - o.pop("to_top_minus") - s0 - used, 2**12 + 300))
    return case


def gen_v4_case(rng, kind, max_dims, max_k, partner=True):
    """The round-1..3 generator plus: seeds given as numpy scalars / beyond 2^32, re-seeding with the SAME seed, sizes and
    dimensions given as numpy integers, rejected requests for both samplers (size and dimension), search spaces with a
    non-zero lower bound, a fine grid (returned rows against raw rows), max_deduplication_passes reassigned, a history that
    already holds every grid point, and a second object whose calls alternate with the first one's."""
    st = rng.choice([None, None, None, "int64", "uint32", "big"])
    seed = rng.below(2**31) if st != "big" else rng.choice([2**32, 2**63, 2**64]) + rng.below(2**20)
    segs = []
    for si in range(rng.choice([1, 1, 2, 2, 3])):
        const_dims = rng.below(10) < 6
        d0 = rng.randint(1, max_dims)
        ops = []
        for _ in range(rng.randint(1, 4)):
            v = rng.below(10)
            dims = d0 if const_dims else rng.randint(1, max_dims)
            if rng.below(4) == 0:
                dims = rng.randint(1, 2)   # small spaces: fine grids, histories that hold every grid point
            o = {"k": rng.randint(1, max_k), "dims": dims, "jexp": [rng.randint(-2, 3) for _ in range(3)],
                 "ktype": rng.choice(KTYPES), "gridn": 64}
            if v < 3:
                o["via"] = "sample_batch"
                if rng.below(3) == 0:
                    o["shift"] = rng.choice([-3, -2, -1, 1, 2, 3])
                if dims <= 3 and rng.below(2) == 0:
                    o["gridn"] = 2**14
            elif v < 5:
                o["via"] = "raw"
            elif v < 8:
                o["via"] = "sample"
                o["mdp"] = rng.choice([None, 0, 1, 2, 7])
                if rng.below(2):
                    o["gridn"] = 4
                    if dims <= 2 and rng.below(2):
                        o["existing"] = "full"
                        o["k"] = rng.randint(1, 4)
            else:
                o["via"] = "raw_bad"
                o["k"] = 0
                if rng.below(2):
                    o["bad_dims"] = rng.choice([0, -1, -2])
                    o["bad_k"] = rng.randint(1, 4)
                else:
                    o["bad_k"] = rng.choice([0, -1, -4]) if kind == "hrun" else 0
            ops.append(o)
        if ops[-1]["via"] == "raw_bad":   # a good request after the rejected one: it starts where the last good one ended
            ops.append({"k": rng.randint(1, max_k), "dims": d0, "via": "raw", "jexp": [0, 0, 0], "gridn": 64, "ktype": None})
        seg = {"reseed": None, "ops": ops}
        if si > 0:
            if rng.below(5) < 2:
                seg["reseed_same"] = True
            else:
                seg["reseed"] = rng.below(2**31)
                seg["reseed_type"] = rng.choice([None, None, "int64", "uint32"])
        segs.append(seg)
    case = {"kind": kind, "seed": seed, "segments": segs}
    if st in ("int64", "uint32"):
        case["seed_type"] = st
    if partner and rng.below(5) < 2:
        case["partner"] = gen_v4_case(rng, rng.choice(["hrun", "rrun"]), min(max_dims, 8), min(max_k, 6), partner=False)
    return case


def valid_hdirect(c):
    return c["k"] > 0 and all(b > 1 for b in c["bases"]) and c["start"] >= 0


def gen_hdirect_v4(rng, primes):
    """Direct calls with the arguments in other representations (int32 / non-contiguous / read-only array of bases, numpy
    integers for the size and the start), a larger batch, and a second call after the first (aliasing, memoisation)."""
    c = gen_hdirect(rng, primes)
    c["btype"] = rng.choice([None, "int32", "view", "readonly", "uint8", "int8", "int16", "uint16"])
    c["ktype"] = rng.choice(KTYPES)
    c["stype"] = rng.choice(KTYPES)
    if rng.below(8) == 0 and valid_hdirect(c):
        c["bases"] = c["bases"][:3] or [2]
        c["k"] = rng.randint(200, 1500)
        c["start"] = rng.randint(0, TOP - c["k"])
    if rng.below(3) == 0:
        if rng.below(2):
            c["again"] = {"k": c["k"], "bases": list(c["bases"]), "start": c["start"]}
        else:
            for _ in range(20):
                a = gen_hdirect(rng, primes)
                if valid_hdirect(a):
                    c["again"] = {"k": a["k"], "bases": a["bases"], "start": a["start"]}
                    if rng.below(2) and c["k"] > 0:   # same shape, other indices
                        c["again"] = {"k": c["k"], "bases": list(c["bases"]), "start": max(0, min(a["start"], TOP - c["k"]))}
                    break
    return c


def gen_threads(rng, primes, n_jobs):
    jobs = []
    for _ in range(n_jobs):
        t = rng.below(10)
        if t < 4:
            k = rng.randint(2, 6)
            jobs.append({"t": "halton", "k": k, "bases": primes[: rng.randint(1, 12)] if rng.below(2) else
                         [rng.choice(primes) for _ in range(rng.randint(1, 6))], "start": rng.randint(0, TOP - k)})
        elif t < 6:
            jobs.append({"t": "phi", "d": rng.randint(1, 40)})
        else:
            jobs.append({"t": "hobj" if t < 8 else "robj", "seed": rng.below(2**31),
                         "ops": [[rng.randint(1, 5), rng.randint(1, 6)] for _ in range(rng.randint(2, 3))]})
    return {"kind": "threads", "jobs": jobs, "n_threads": 6, "rounds": 3}


def generate_v4(chk):
    rng, quick = chk.rng.fork(), chk.tier == "quick"
    primes = first_primes(40)
    cases = []
    n_v4, n_long, n_hd, n_pr = (24, 2, 80, 24) if quick else (80, 6, 600, 120)
    max_dims, max_k = (12, 12) if quick else (40, 20)
    for kind in ("hrun", "rrun"):
        for _ in range(n_v4):
            cases.append(gen_v4_case(rng, kind, max_dims, max_k))
        for mode in ("cross", "low", "top"):
            for _ in range(n_long if mode != "top" else 1 + (not quick)):
                c = gen_long_case(rng, kind, mode)
                if c is not None:
                    cases.append(resolve_top(c))
        if quick:   # the quick tier kept sampler objects to 12 dimensions: a few up to 40 (the whole prime table)
            for _ in range(3):
                cases.append(gen_sampler_case(rng, kind, 40, 3))
    for _ in range(n_hd):
        cases.append(gen_hdirect_v4(rng, primes))
    for _ in range(n_pr):
        calls = [rng.randint(1, 40) if rng.below(12) else rng.randint(-2, 0) for _ in range(rng.randint(2, 6))]
        c = {"kind": "primes", "calls": calls, "ntype": rng.choice([None, "int64", "int32"]), "mutate": bool(rng.below(2))}
        if rng.below(2):
            c["second"] = [rng.randint(1, 40) for _ in range(rng.randint(1, 6))]
        cases.append(c)
    for _ in range(8 if quick else 40):
        cases.append({"kind": "phi", "d": rng.randint(1, 40), "dtype": rng.choice(["int64", "int32", "intp"])})
    n_s = 60 if quick else 600
    same = [[x, x] for x in (rng.below(2**32) for _ in range(n_s // 2))]
    cases.append({"kind": "seeds", "pairs": same + [[rng.below(2**32), rng.below(2**32)] for _ in range(n_s // 2)], "unseeded": 5})
    cases.append({"kind": "seeds", "seed_type": "int64",
                  "pairs": [[rng.below(2**62), rng.below(2**62)] for _ in range(n_s // 2)] + [[x, x] for x in (rng.below(2**62) for _ in range(n_s // 4))]})
    cases.append({"kind": "seeds", "seed_type": "uint32", "pairs": [[rng.below(2**32), rng.below(2**32)] for _ in range(n_s // 2)]})
    cases.append({"kind": "seeds", "pairs": [[b + rng.below(2**20), b2 + rng.below(2**20)] for b in (2**32, 2**63, 2**64, 2**100)
                                             for b2 in (2**32, 2**64)]})
    for _ in range(1 if quick else 4):
        cases.append(gen_threads(rng, primes, 24 if quick else 60))
    return cases


def generate(chk):
    rng, quick = chk.rng, chk.tier == "quick"
    primes = first_primes(40)
    cases = []
    n_h, n_r, n_d, n_p, n_s = (60, 40, 200, 30, 150) if quick else (200, 100, 2000, 300, 2000)
    max_dims, max_k = (12, 12) if quick else (40, 20)
    for _ in range(n_h):
        cases.append(gen_sampler_case(rng, "hrun", max_dims, max_k))
    for _ in range(n_r):
        cases.append(gen_sampler_case(rng, "rrun", max_dims, max_k))
    cases.append({"kind": "hdirect", "k": 3, "bases": primes, "start": 0})
    cases.append({"kind": "hdirect", "k": 3, "bases": primes, "start": TOP - 3})
    for _ in range(n_d):
        cases.append(gen_hdirect(rng, primes))
    # every exact power p^e (e >= 2) of the first primes below the top of the start range, as the LAST index of a batch of 2
    for pi, pr in enumerate(primes[: 14 if quick else 40]):
        e = 2
        while pr**e < TOP:
            cases.append({"kind": "hdirect", "k": 2, "bases": primes[: max(pi + 1, 3)], "start": pr**e - 2})
            e += 1
    if not quick:
        for j, s in enumerate(range(rng.below(17), TOP - 2, 17)):
            cases.append({"kind": "hdirect", "k": 1 + (j % 8 == 0), "bases": primes, "start": s})
    for n in range(1, 41):
        cases.append({"kind": "primes", "calls": [n]})
    for _ in range(n_p):
        cases.append({"kind": "primes", "calls": [rng.randint(1, 40) if rng.below(12) else rng.randint(-2, 0)
                                                  for _ in range(rng.randint(2, 6))]})
    for d in range(0, 41 if quick else 61):
        cases.append({"kind": "phi", "d": d})
    cases.append({"kind": "seeds", "pairs": [[rng.below(2**32), rng.below(2**32)] for _ in range(n_s)]})
    return cases + generate_v4(chk)


IMPL = {"hrun": impl_run, "rrun": impl_run, "hdirect": impl_hdirect, "primes": impl_primes, "phi": impl_phi, "seeds": impl_seeds,
        "threads": impl_threads}
ORACLE = {"hrun": oracle_run, "rrun": oracle_run, "hdirect": oracle_hdirect, "primes": oracle_primes, "phi": oracle_phi,
          "seeds": oracle_seeds, "threads": oracle_threads}
EMIT = {"hrun": (emit_of("hrun"), "check_case", T_HRUN), "rrun": (emit_of("rrun"), "check_rseq", T_RRUN),
        "hrun_t": (emit_of("hrun_t"), "check_case_t", T_HRUN_T), "rrun_t": (emit_of("rrun_t"), "check_rseq_t", T_RRUN_T),
        "hdirect": (emit_hdirect, "check_direct", T_HDIRECT), "primes": (emit_primes, "check_primes", T_PRIMES),
        "phi": (emit_phi, "check_phi", T_PHI)}


def summarise(obs):
    """JSON-friendly digest of an observation (arrays as hex strings) for replay files."""
    def conv(o):
        if isinstance(o, np.ndarray):
            return [[float(x).hex() for x in row] for row in o]
        if isinstance(o, dict):
            return {str(k): conv(v) for k, v in o.items()}
        if isinstance(o, (list, tuple)):
            return [conv(v) for v in o]
        return o
    return conv(obs)


def _patch_gate_parser():
    """`Print Assumptions` prints a header line "Axioms:" before the axioms of a theorem that uses Coq's Reals; the shared
    parser reads that header as an axiom name.  Drop it (the real axiom names are still checked against the allow-list)."""
    import common

    if getattr(common.parse_assumptions, "_c13", False):
        return
    orig = common.parse_assumptions

    def parse(out, names):
        return {k: (None if v is None else [a for a in v if a != "Axioms"]) for k, v in orig(out, names).items()}

    parse._c13 = True
    common.parse_assumptions = parse


_RETRY_LOCK = threading.Lock()


def mismatches_with_retry(chk, name, fn, typ, lits, shard):
    """chk.coq_mismatches, then up to three sequential re-runs (long timeout, after 5 / 30 / 90 s) of any shard that hit the
    per-file timeout or was killed (rc 137 / -9: the kernel's out-of-memory killer on a shared machine): neither says anything
    about the model or the implementation.  A shard that still fails is reported."""
    import re

    import common

    bad, errs = chk.coq_mismatches(name, IMPORTS, fn, typ, lits, shard)
    still = []
    for e in errs:
        m = re.match(rf"cases_{name}_(\d+)\.v: rc=(?:124|137|-9)\b", e)
        if not m:
            still.append(e)
            continue
        idx = int(m.group(1))
        with _RETRY_LOCK:   # one re-run at a time, whatever the family
            for pause in (5, 30, 90):
                time.sleep(pause)   # a machine that has just run out of memory needs a moment
                rc, out, err, _ = common.coqc_file(chk.case_dir / f"cases_{name}_{idx}.v", timeout=3000)
                if rc not in (124, 137, -9):
                    break
        mm = re.search(r"@@BAD\s*(.*)", out, flags=re.S)
        if rc != 0 or not mm:
            still.append(e + f" (retry: rc={rc} {(out + err)[-300:]})")
            continue
        chk.notes.append(f"shard cases_{name}_{idx}.v timed out / was killed under load and was re-run alone")
        bad += [idx * shard + int(x) for x in re.findall(r"\d+", mm.group(1))]
    return sorted(bad), still


def run(chk, replay=None):
    _patch_gate_parser()
    chk.proof_gate()
    if replay:
        cases = [json.loads(open(replay).read())["case"]]
    else:
        cases = []
        for f in sorted((chk.case_dir.parents[2] / "corpus" / "C13").glob("*.json")):
            cases.append(json.loads(f.read_text())["case"])
        cases += generate(chk)
    observations = [IMPL[c["kind"]](c) for c in cases]

    # model side, inside Coq (the five families are evaluated concurrently; each is sharded over coqc processes)
    from concurrent.futures import ThreadPoolExecutor

    bad_cases, errors = {}, []
    n_lits = Counter()
    jobs = []
    fam = {kind: ([], []) for kind in EMIT}
    for kind, (emit, fn, typ) in EMIT.items():
        for i, (c, o) in enumerate(zip(cases, observations)):
            pk = c["partner"]["kind"] if c.get("partner") else None
            if {"hrun_t": "hrun", "rrun_t": "rrun"}.get(kind, kind) not in (c["kind"], pk) or o.get("error"):
                continue
            for lit in emit(c, o):
                dest, lit = lit if isinstance(lit, tuple) else (kind, lit)   # pieces of a big Halton batch go to check_direct
                fam[dest][0].append(lit)
                fam[dest][1].append(i)
    for kind, (emit, fn, typ) in EMIT.items():
        lits, owner = fam[kind]
        n_lits[kind] = len(lits)
        if lits:
            nfiles = 16 if chk.tier == "quick" else 32
            shard = max(1, min(400, -(-len(lits) // nfiles))) if kind in ("hrun", "rrun", "hdirect", "hrun_t", "rrun_t") else 400
            if kind in ("hrun", "rrun", "hdirect", "hrun_t", "rrun_t"):
                # literals differ in size by three orders of magnitude (round 4: batches of thousands of points): deal them
                # out by decreasing size so that no file gets all the big ones
                nb = -(-len(lits) // shard)
                by_size = sorted(range(len(lits)), key=lambda j: -len(lits[j]))
                order = [j for b in range(nb) for j in by_size[b::nb]]
                lits, owner = [lits[j] for j in order], [owner[j] for j in order]
            jobs.append((kind, fn, typ, lits, owner, shard))
    if not replay:
        # fail closed: a family of cases that reaches Coq with no literal at all means the harness lost them, not that they passed
        for kind in ("hrun", "rrun", "hdirect", "primes", "phi"):
            if n_lits[kind] == 0 and any(c["kind"] == kind and not o.get("error") for c, o in zip(cases, observations)):
                errors.append(f"no literal of family {kind} was produced for Coq although cases of that kind ran")
    # at most two families at a time (each runs up to one coqc per core, 100-500 MB each): seven families at once made the
    # check itself a cause of the memory shortage it then suffered from
    with ThreadPoolExecutor(max_workers=2) as ex:
        futs = [(j, ex.submit(mismatches_with_retry, chk, f"C13_{j[0]}", j[1], j[2], j[3], j[5])) for j in jobs]
        for (kind, fn, typ, lits, owner, shard), fut in futs:
            bad, errs = fut.result()
            errors += errs
            for b in bad:
                bad_cases.setdefault(owner[b], (lits[b], fn))

    # direct oracle + verdicts
    dist = Counter()
    nontrivial, keys = set(), set()
    n_points = 0
    for i, (c, o) in enumerate(zip(cases, observations)):
        kind = c["kind"]
        fails = ORACLE[kind](c, o)
        key = json.dumps(c, sort_keys=True)
        keys.add(key)
        dist[f"kind={kind}"] += 1
        if kind in ("hrun", "rrun") and not o["error"]:
            calls = [cl for so in o["segments"] for cl in so["calls"]]
            n_points += sum(int(cl["rows"].shape[0]) for cl in calls)
            for seg in c["segments"]:
                for op in seg["ops"]:
                    dist[f"{kind}.via={op['via']}"] += 1
                    dist[f"{kind}.dims<={-(-op['dims'] // 10) * 10}"] += 1
                    for f in ("ktype", "shift", "mdp", "existing", "bad_dims"):
                        if op.get(f) is not None and op.get(f) != 0:
                            dist[f"{kind}.op_with_{f}"] += 1
                    if op.get("gridn", 64) > 64:
                        dist[f"{kind}.fine_grid"] += 1
                dist[f"{kind}.reseed_same_seed"] += bool(seg.get("reseed_same"))
                dist[f"{kind}.reseed_other_seed"] += seg.get("reseed") is not None
            dist[f"{kind}.returned_rows_compared"] += sum(1 for cl in calls if "ret" in cl)
            dist[f"{kind}.cursor_crosses_2^16"] += any(cl["before"] < 2**16 <= cl["after"] for cl in calls)
            dist[f"{kind}.cursor_reaches_top"] += any(cl["after"] == TOP for cl in calls)
            dist[f"{kind}.start_below_276"] += o["segments"][0]["s0"] < 276
            dist[f"{kind}.batch_of_100+"] += any(cl["rows"].shape[0] >= 100 for cl in calls)
            dist[f"{kind}.seed_as_numpy_or_big"] += bool(c.get("seed_type")) or (c["seed"] or 0) >= 2**32
            if c.get("partner"):
                dist[f"{kind}.interleaved_with={c['partner']['kind']}"] += 1
                if not o["partner"]["error"]:
                    n_points += sum(int(cl["rows"].shape[0]) for so in o["partner"]["segments"] for cl in so["calls"])
            dist[f"{kind}.extra_dedup_calls"] += sum(1 for cl in calls if cl["req"] is None)
            dist[f"{kind}.twin_compared"] += sum(1 for so in o["segments"] if so["twin"] is not None)
            if len(calls) >= 2 and max(cl["dims"] for cl in calls) >= 2:
                nontrivial.add(key)
        elif kind == "hdirect":
            invalid = c["k"] <= 0 or any(b <= 1 for b in c["bases"]) or c["start"] < 0
            dist["hdirect.invalid" if invalid else "hdirect.valid"] += 1
            if not invalid:
                n_points += c["k"]
                if len(c["bases"]) >= 2:
                    nontrivial.add(key)
                if c["start"] == 0 or c["start"] + c["k"] == TOP:
                    dist["hdirect.range_end"] += 1
                for f in ("btype", "ktype", "stype"):
                    if c.get(f):
                        dist[f"hdirect.{f}={c[f]}"] += 1
                if c.get("again"):
                    dist["hdirect.second_call_" + ("same" if c["again"]["start"] == c["start"] and c["again"]["k"] == c["k"]
                                                   and c["again"]["bases"] == c["bases"] else "other")] += 1
                    n_points += c["again"]["k"]
                if c["k"] >= 100:
                    dist["hdirect.batch_of_100+"] += 1
        elif kind == "primes":
            if len(c["calls"]) >= 2 or c["calls"][0] >= 10:
                nontrivial.add(key)
            dist["primes.numpy_int_argument"] += bool(c.get("ntype"))
            dist["primes.caller_overwrites_result"] += bool(c.get("mutate"))
            dist["primes.two_calculators_interleaved"] += bool(c.get("second"))
        elif kind == "threads":
            nontrivial.add(key)
            dist["threads.jobs"] += len(c["jobs"]) * c["rounds"]
        elif kind == "phi" and c["d"] >= 1:
            nontrivial.add(key)
        elif kind == "seeds":
            dist["seeds.pairs"] += len(c["pairs"])
            dist["seeds.same_seed_reseed"] += sum(1 for a, b2 in c["pairs"] if a == b2)
            dist["seeds.numpy_typed"] += len(c["pairs"]) if c.get("seed_type") else 0
            dist["seeds.seed>=2^32"] += sum(1 for a, _ in c["pairs"] if a >= 2**32)
            dist["seeds.unseeded"] += len(o.get("unseeded", []))
            neg = o.get("rseq_negative_size") or {}
            if neg.get("cursor_moved_by"):
                dist["observation.rseq_negative_size_moves_cursor_back(not judged)"] += 1
            dist["seeds.fresh_start_differs_from_reseeded_start"] += sum(
                1 for r in o["rows"] if (r["h_reseed"], r["r_reseed"]) != (r["h_fresh"], r["r_fresh"]))
            nontrivial.add(key)
        if fails:
            clause, _, detail = fails[0].partition("|")
            chk.violation({"kind": "oracle", "sub": kind, "clause": clause},
                          {"failed": f"oracle:{clause}: {detail}", "all": fails[:20], "case": c, "observed": summarise(o)})
        elif i in bad_cases:
            chk.violation({"kind": "correspondence", "name": bad_cases[i][1]},
                          {"failed": f"correspondence:{bad_cases[i][1]} (model and implementation disagree; the property "
                                     "oracle found no failing input)", "case": c, "observed": summarise(o),
                           "coq_case": bad_cases[i][0][:20000]}, no_input=True)
    for e in errors:
        chk.violation({"kind": "correspondence", "name": "coqc"}, {"failed": "correspondence:coqc", "detail": e}, no_input=True)

    def sample_of(kind):
        for c, o in zip(cases, observations):
            if c["kind"] == kind:
                if kind in ("hrun", "rrun") and not o["error"]:
                    so = o["segments"][0]
                    return {"case": c, "s0": so["s0"], "cursors_after": [cl["after"] for cl in so["calls"]],
                            "first_row": [float(x) for x in so["calls"][0]["rows"][0]] if so["calls"][0]["rows"].shape[0] else []}
                if kind == "hdirect":
                    return {"case": c, "first_row": None if o["rows"] is None else [float(x) for x in o["rows"][0]]}
        return None

    cov = {
        "evaluations": len(cases),
        "distinct_nontrivial": len(nontrivial),
        "distinct": len(keys),
        "points_compared": n_points,
        "coq_literals": dict(n_lits),
        "rule": "cases = sampler-object runs (seed, 1-2 (re)seed segments, 1-5 calls each via sample_batch / _halton|_r_sequence / "
                "sample(), per-call dims and sizes), direct halton() calls (prime prefixes, shuffled/repeated primes, composite and "
                "large bases, empty base list, start 0, top of range 2^16+2^12, digit-carry starts b^e-1, invalid arguments), "
                "get_n_primes histories (every n<=40 alone + random histories incl. n<=0), compute_phi(d), seed pairs; "
                "non-trivial = sampler run with >= 2 calls and some dims >= 2 | valid direct call with >= 2 bases | prime history "
                "of >= 2 calls or n >= 10 | phi with d >= 1 | the seed sweep | the thread scenario; distinct = distinct case "
                "descriptions.  Round 4 adds (see distribution): sizes/dims/starts/seeds as numpy integers, int32 / strided / "
                "read-only bases, second calls (aliasing), interleaved second objects, same-seed reseeds, objects seeded within "
                "128/256 of 2^16 and of 20 with batches across 2^16 and up to 2^16+2^12, rejected requests (size and dimension) "
                "on both samplers, shifted / fine-grid spaces with returned-vs-raw rows, reassigned max_deduplication_passes, "
                "histories holding every grid point, overwritten prime arrays, two calculators, threads",
        "samples": [x for x in (sample_of("hrun"), sample_of("rrun"), sample_of("hdirect")) if x],
        "traces_validated_against_impl": len(cases) - len(bad_cases),
        "model_impl_disagreements": len(bad_cases),
        "distribution": dict(sorted(dist.items())),
        "tolerances": "Halton coordinates 2^-40 (float error <= 17 roundings ~ 2^-49; smallest effect of a wrong digit/index "
                      ">= 2^-25); R-sequence coordinate k of row n: (n(k+4)+64) 2^-49 on the circle (alpha_k carries <= (k+2) "
                      "2^-53 relative error, multiplied by n < 2^17); phi: sign change within +-2^-45; cursors, primes, batch "
                      "concatenation: exact / bitwise; round 4: spaces with lower bound m*w (|m| <= 3): same 2^-40 (un-mapping "
                      "loses < 2^-50), their batches against one batch 2^-45 instead of bitwise; returned rows against raw rows: "
                      "one grid step (measured 0.5); measured_margins gives the worst case of this run for each",
        "measured_margins": {k: float(f"{v:.4g}") for k, v in sorted(MARGIN.items())},
        "exhaustive": False,
    }
    return chk.finish(
        cov,
        assumptions=[
            "Generator.integers(20, 2**16) returns a value in [20, 2^16) and Generator.random() a value in [0,1) (checked on "
            "every sampled seed, not proved)",
            "np.divmod on positive int64 is floor division; float64 accumulation error of <= 17 terms is far below 2^-40",
            "prime table: the theorem covers n <= 40 (finite domain, bound in the statement); the general sieve invariant is "
            "not proved",
        ],
        trusted=["modelled, not verified: numpy divmod / broadcasting / boolean-mask assignment / arange / dot / % 1, "
                 "itertools.islice, numpy Generator"],
    )
