"""C03 - every proposed parameter vector belongs to the declared search space.

Model: coq/Model/Samplers.v (on top of Model/Snap.v and Model/Dedup.v)   Theorems: coq/Properties/C03.v

Correspondence (the model's claim is "sample_batch returns digitize_data(<anything>, search_space.param_grid)" for eight
classes and "indexes the grid" for RandomUniformSampler; sample() only moves rows returned by sample_batch):
  * STRUCTURAL tie, on every sample_batch call of every built-in sampler: `digitize_data` is replaced in the namespace of
    halton / r_sequence / particle_swarm / surrogate / cors / best_batch by a recording wrapper; the array returned by
    sample_batch must BE the array the wrapper returned last (same object, same bytes), its grid argument must BE
    search_space.param_grid, raw must have the batch shape;
  * RandomUniformSampler: the returned array must equal grid[c][idx] for the indices its generator draws (replayed on a copy
    of the generator state taken before the call);
  * every row returned by sample() is, bit for bit, a row returned by one of the sample_batch calls made during that sample();
  * a sample of the recorded (raw, grids, returned) triples is replayed through the Coq model (snap_rowsQ = digitizeQ /
    index_rowsQ) with C17's comparison rules (exact on small dyadics, one-sided 2^-50 slack on generic floats).
Direct oracle (independent of the model): every coordinate of every row returned by sample() == an element of that
parameter's grid, shape (batch_size, dims), float64, lower <= v <= upper + 1e-7; the user's model function of short real
Calibrator runs only ever receives such vectors.

Round 4 (generator sweep).  The oracle judges against the space AS DECLARED: reference grid arange(lower, upper + 1e-7,
precision) on the declared float64 values, and clause `grid-definition`: the SearchSpace object holds exactly that grid
(float64, same bytes), whatever container / dtype the declaration used (lists, tuples, ndarrays, read-only, Fortran, strided,
numpy scalars, Python ints, int64, float32, mixed; the caller may overwrite its declaration arrays afterwards).  A case is the
LIFE of one sampler object (`script`): sample steps interleaved with a switch to another space (same or other dimension) and
back, attributes assigned after construction (batch_size, random_state, max_deduplication_passes, BestBatch a / b /
perturbation_range, GP acquisition / jitter), rejected calls (short / empty / wrong-width history), a caller that overwrites
the arrays it passed and received, a shortened history; every batch is judged against the space and the batch size in force
at its call (model: Samplers.run_ssteps, theorem C03_main_reconfigured), also when a later step raises.  Histories and losses
are also passed as float32 / float16 / int64 / int32 (when they hold the points exactly) / Fortran / strided / read-only /
signed-zero / list.  Spaces: integer, far from the origin (1e5-1e8 level, O(1) spread), extreme scales (1e-9, 1e12),
>= 2^63 points, 7-12 parameters.  Calibrations: n_jobs=2 (theta echoed in the stored series), sim_length != data length,
two sessions with / without a restore from the checkpoint in between, convergence precision + verbose.
"""
from __future__ import annotations

import contextlib
import copy
import io
import json
import math
import signal
from collections import Counter
from pathlib import Path

import numpy as np

from common import cbool, clist, cnat
from props.c17 import fl, fll
from props.real_lineups import ALL9, make_sampler

IMPORTS = ("From Coq Require Import List ZArith QArith Floats.\nFrom BlackIt Require Import Model.Snap.\n"
           "From BlackIt Require Import Model.Samplers.")
PREAMBLE = "Open Scope float_scope."
CASE_T = "ccase"

SNAP_MODULES = {
    "halton": "black_it.samplers.halton", "rseq": "black_it.samplers.r_sequence", "pso": "black_it.samplers.particle_swarm",
    "cors": "black_it.samplers.cors", "bestbatch": "black_it.samplers.best_batch", "rf": "black_it.samplers.surrogate",
    "xgb": "black_it.samplers.surrogate", "gp": "black_it.samplers.surrogate",
}
FIXED_BUDGET = {"pso", "cors"}  # max_deduplication_passes hard-wired to 0 by the constructor
NEEDS_HISTORY = {"bestbatch", "cors", "rf", "xgb", "gp"}
EXPENSIVE = {"cors", "gp", "rf", "xgb"}
CASE_TIMEOUT_S = 60
END_TOL = 0.0000001
BOUNDS_STATS = {"cells": 0, "needed_slack": 0, "max_fraction_of_slack_used": 0.0}


class CaseTimeout(Exception):
    pass


def _alarm(_sig, _frm):
    raise CaseTimeout


# ------------------------------------------------------------------ instrumentation
class Recorder:
    """Recording wrapper put in place of `digitize_data` in the sampler modules."""

    def __init__(self):
        self.calls = []

    def wrap(self, real):
        def digitize_data(data, param_grid):
            out = real(data, param_grid)
            self.calls.append({"raw": np.array(data, dtype=float, copy=True), "grid": param_grid, "out": out,
                               "out_bytes": out.tobytes() if isinstance(out, np.ndarray) else None})
            return out

        return digitize_data


@contextlib.contextmanager
def patched_digitize(rec):
    import importlib

    from black_it.utils import base as ubase

    saved = []
    for name in sorted(set(SNAP_MODULES.values())):
        mod = importlib.import_module(name)
        had = hasattr(mod, "digitize_data")
        orig = getattr(mod, "digitize_data", ubase.digitize_data)
        saved.append((mod, had, orig))
        mod.digitize_data = rec.wrap(orig)
    try:
        yield
    finally:
        for mod, had, orig in saved:
            if had:
                mod.digitize_data = orig
            else:
                del mod.digitize_data


def instrument(sampler, rec, log):
    """Wrap the instance's sample_batch: logs every call with the digitize_data calls made inside it."""
    inner = sampler.sample_batch

    def sample_batch(batch_size, search_space, existing_points, existing_losses):
        n0 = len(rec.calls)
        try:
            state = copy.deepcopy(sampler.random_generator.bit_generator.state)
            bitgen = type(sampler.random_generator.bit_generator)
        except Exception:  # noqa: BLE001
            state, bitgen = None, None
        out = inner(batch_size, search_space, existing_points, existing_losses)
        log.append({"n": int(batch_size), "space": search_space, "digitize": rec.calls[n0:], "out": out,
                    "out_bytes": out.tobytes() if isinstance(out, np.ndarray) else None,
                    "snap": out.copy() if isinstance(out, np.ndarray) else None,  # sample() later writes redraws into `out`
                    "rng_state": state, "bitgen": bitgen})
        return out

    sampler.sample_batch = sample_batch


# ------------------------------------------------------------------ building the objects of a case
DECLS = ("list", "tuple", "ndarray", "readonly", "fortran", "strided", "npscalar", "int", "int64", "float32", "mixed")
GARBAGE = 12345.678  # what a caller who reuses its arrays writes into them (finite, on no generated grid)


def _integral(xs):
    return all(float(x) == math.floor(float(x)) and abs(float(x)) < 2 ** 53 for x in xs)


def _f32_exact(xs):
    return all(float(np.float32(x)) == float(x) for x in xs)


def decl_applicable(space_desc, decl):
    lo, hi, pr = space_desc["bounds"][0], space_desc["bounds"][1], space_desc["precision"]
    if decl in ("int", "int64"):
        return _integral(lo) and _integral(hi)  # the precision may stay a float (2.5 on integer bounds)
    if decl == "float32":
        return _f32_exact(lo) and _f32_exact(hi) and _f32_exact(pr)
    return True


def declare(space_desc, decl):
    """The declaration (bounds, precision) in the requested container / dtype; the VALUES are those of space_desc."""
    lo, hi, pr = list(space_desc["bounds"][0]), list(space_desc["bounds"][1]), list(space_desc["precision"])
    if decl in (None, "list"):
        return [lo, hi], pr
    if decl == "tuple":
        return (tuple(lo), tuple(hi)), tuple(pr)
    if decl == "ndarray":
        return np.array([lo, hi], dtype=float), np.array(pr, dtype=float)
    if decl == "readonly":
        b, q = np.array([lo, hi], dtype=float), np.array(pr, dtype=float)
        b.setflags(write=False)
        q.setflags(write=False)
        return b, q
    if decl == "fortran":
        return np.asfortranarray(np.array([lo, hi], dtype=float)), np.array(pr, dtype=float)
    if decl == "strided":
        big = np.full((3, 2 * len(lo)), GARBAGE)
        big[0, ::2], big[2, ::2] = lo, hi
        bq = np.full(2 * len(pr), GARBAGE)
        bq[::2] = pr
        return big[::2, ::2], bq[::2]
    if decl == "npscalar":
        return [[np.float64(x) for x in lo], [np.float64(x) for x in hi]], [np.float64(x) for x in pr]
    if decl == "int":  # Python ints wherever the value is integral
        return ([[int(x) for x in lo], [int(x) for x in hi]], [int(x) if _integral([x]) else x for x in pr])
    if decl == "int64":
        q = np.array(pr, dtype=np.int64) if _integral(pr) else np.array(pr, dtype=float)
        return np.array([lo, hi], dtype=np.int64), q
    if decl == "float32":
        return np.array([lo, hi], dtype=np.float32), np.array(pr, dtype=np.float32)
    if decl == "mixed":  # ints and floats side by side in plain lists
        return ([[int(x) if _integral([x]) else x for x in lo], [int(x) if _integral([x]) else x for x in hi]],
                [int(x) if _integral([x]) else x for x in pr])
    raise ValueError(decl)


def reference_grid(space_desc):
    """The declared space, independently of SearchSpace: arange(lower, upper + 1e-7, precision) on the declared float64 values
    (search_space.py:74-81; property text: 'that parameter's precision grid')."""
    return [np.arange(float(lo), float(hi) + END_TOL, float(p), dtype=np.float64)
            for lo, hi, p in zip(space_desc["bounds"][0], space_desc["bounds"][1], space_desc["precision"])]


def make_space(case, desc=None):
    from black_it.search_space import SearchSpace

    desc = desc or case
    decl = desc.get("decl")
    b, p = declare(desc, decl)
    sp = SearchSpace(b, p, verbose=bool(desc.get("space_verbose", False)))
    if desc.get("decl_scribble"):  # the caller reuses its (writable) declaration arrays for something else
        for a in (b, p):
            if isinstance(a, np.ndarray) and a.flags.writeable:
                a[...] = 40 if a.dtype.kind in "iu" else GARBAGE
            elif isinstance(a, list):
                for i, x in enumerate(a):
                    if isinstance(x, list):
                        x[:] = [GARBAGE] * len(x)
                    else:
                        a[i] = GARBAGE
    return sp


def build_sampler(case):
    kind, bs, seed, opts = case["cls"], case["bs"], case["seed"], case.get("opts", {})
    if kind == "pso" and opts:
        from black_it.samplers.particle_swarm import ParticleSwarmSampler

        s = ParticleSwarmSampler(batch_size=bs, random_state=seed, inertia=opts.get("inertia", 0.9), c1=opts.get("c1", 0.1),
                                 c2=opts.get("c2", 0.1), global_minimum_across_samplers=opts.get("global", False))
    elif kind == "bestbatch" and opts:
        from black_it.samplers.best_batch import BestBatchSampler

        s = BestBatchSampler(batch_size=bs, random_state=seed, a=opts.get("a", 3.0), b=opts.get("b", 1.0),
                             perturbation_range=opts.get("range", 6))
    elif kind == "cors" and opts:
        from black_it.samplers.cors import CORSSampler

        s = CORSSampler(batch_size=bs, max_samples=opts.get("max_samples", 40), rho0=opts.get("rho0", 0.5),
                        p=opts.get("p", 1.0), random_state=seed, verbose=bool(opts.get("verbose", False)))
    elif kind in ("rf", "xgb", "gp") and opts:
        from black_it.samplers.gaussian_process import GaussianProcessSampler
        from black_it.samplers.random_forest import RandomForestSampler
        from black_it.samplers.xgboost import XGBoostSampler

        pool = opts.get("pool") if opts.get("pool") is not None else 40
        if kind == "rf":
            s = RandomForestSampler(batch_size=bs, random_state=seed, candidate_pool_size=pool,
                                    n_estimators=opts.get("n_estimators", 4), n_classes=opts.get("n_classes", 3),
                                    criterion=opts.get("criterion", "gini"))
        elif kind == "xgb":
            s = XGBoostSampler(batch_size=bs, random_state=seed, candidate_pool_size=pool,
                               n_estimators=opts.get("n_estimators", 2), max_depth=opts.get("max_depth", 2),
                               **{k: opts[k] for k in ("colsample_bytree", "learning_rate", "alpha") if k in opts})
        else:
            s = GaussianProcessSampler(batch_size=bs, random_state=seed, candidate_pool_size=pool,
                                       optimize_restarts=opts.get("restarts", 1),
                                       **{k: opts[k] for k in ("acquisition", "jitter") if k in opts})
    else:
        s = make_sampler(kind, bs, seed)
    if kind not in FIXED_BUDGET and case.get("budget") is not None:
        s.max_deduplication_passes = case["budget"]
    return s


def history_points(hist_idx, losses, space):
    grid = space.param_grid
    pts = np.array([[grid[c][i] for c, i in enumerate(row)] for row in hist_idx], dtype=float)
    pts = pts.reshape(len(hist_idx), space.dims)
    return pts, np.array(losses, dtype=float)


def history_of(case, space):
    return history_points(case["hist_idx"], case["losses"], space)


def present_history(pts, losses, hist_repr, loss_repr):
    """The arrays the caller actually passes: same VALUES as the canonical float64 history (points stay on the grid), other
    container / dtype / memory layout.  A dtype that cannot hold the points exactly is replaced by plain float64."""
    p, l = np.array(pts, dtype=float), np.array(losses, dtype=float)
    if hist_repr in ("float32", "float16", "int64", "int32"):
        q = p.astype(hist_repr)
        if p.size and np.array_equal(q.astype(float), p):
            p = q
    elif hist_repr == "fortran":
        p = np.asfortranarray(p)
    elif hist_repr == "strided":
        big = np.full((2 * max(len(p), 1), 2 * p.shape[1]), GARBAGE)
        big[: 2 * len(p) : 2, ::2] = p
        p = big[: 2 * len(p) : 2, ::2]
    elif hist_repr == "negzero":
        p = p.copy()
        p[p == 0.0] = -0.0
    elif hist_repr == "list":
        p = p.tolist() if len(p) else p
    if hist_repr == "readonly" and isinstance(p, np.ndarray):
        p.setflags(write=False)
    if loss_repr == "float32":
        l = l.astype(np.float32)
    elif loss_repr == "int64":  # integer-typed losses (positive: CORS divides by the largest absolute loss)
        l = np.maximum(np.round(l), 1).astype(np.int64)
    elif loss_repr == "list":
        l = l.tolist()
    elif loss_repr == "strided":
        big = np.full(2 * max(len(l), 1), GARBAGE)
        big[: 2 * len(l) : 2] = l
        l = big[: 2 * len(l) : 2]
    elif loss_repr == "readonly":
        l.setflags(write=False)
    return p, l


def steps_of(case):
    """The life of the sampler object.  Old-style cases (ncalls / append) are `sample` steps on the case's own space."""
    if case.get("script") is not None:
        return case["script"]
    return [{"op": "sample", "append": bool(case["append"][k]), "new_losses": case["new_losses"][k]} for k in range(case["ncalls"])]


# ------------------------------------------------------------------ implementation driver (one sampler case)
def run_sampler_case(case):
    """Runs the script of the case on ONE sampler object.  Every batch that was returned is kept (with the space and the
    batch size in force at that call), also when a later step raises."""
    obs = {"error": None, "skipped": None, "tie_failures": [], "batches": [], "sb_log": [], "spaces": [], "descs": [],
           "grid0": [], "rejected": Counter(), "space_error": None}
    rec, log = Recorder(), []
    old = signal.signal(signal.SIGALRM, _alarm)
    signal.alarm(CASE_TIMEOUT_S)
    try:
        with patched_digitize(rec), contextlib.redirect_stdout(io.StringIO()), np.errstate(all="ignore"):
            try:
                space = make_space(case)
            except Exception as e:  # noqa: BLE001
                obs["space_error"] = f"{type(e).__name__}: {str(e)[:200]}"
                raise
            obs["spaces"].append(space)
            obs["descs"].append(case)
            obs["grid0"].append([g.tobytes() for g in space.param_grid])
            si = 0
            pts, losses = history_of(case, space)
            smp = build_sampler(case)
            instrument(smp, rec, log)
            cur_bs = case["bs"]
            passed = []  # arrays handed to the sampler / received from it so far (what a `scribble` step overwrites)
            for step in steps_of(case):
                op = step["op"]
                if op == "sample":
                    k0 = len(log)
                    grid_before = [g.tobytes() for g in space.param_grid]
                    p_in, l_in = present_history(pts, losses, case.get("hist_repr"), case.get("loss_repr"))
                    out = smp.sample(space, p_in, l_in)
                    passed += [p_in, l_in, out]
                    calls = log[k0:]
                    obs["batches"].append({"out": out, "out_copy": out.copy() if isinstance(out, np.ndarray) else out,
                                           "calls": calls, "hist_len": len(pts), "space_i": si, "bs": cur_bs,
                                           "grid_untouched": grid_before == [g.tobytes() for g in space.param_grid]})
                    if step.get("append") and isinstance(out, np.ndarray) and out.ndim == 2 and out.shape[1] == space.dims:
                        pts = np.concatenate((pts, out))
                        nl = list(step.get("new_losses") or [])
                        nl = (nl + [1.0] * len(out))[: len(out)]
                        losses = np.concatenate((losses, np.array(nl, dtype=float)))
                elif op == "reject":
                    # a call that the sampler cannot serve; whatever it does, no batch of it is judged (the history is
                    # not an admissible one) - what matters is the NEXT normal call
                    how = step["how"]
                    if how == "short-history":
                        bp, bl = pts[: max(0, cur_bs - 1)], losses[: max(0, cur_bs - 1)]
                    elif how == "empty-history":
                        bp, bl = np.zeros((0, space.dims)), np.zeros(0)
                    else:  # wrong-width
                        bp, bl = np.hstack((pts, pts[:, :1])) if len(pts) else np.zeros((1, space.dims + 1)), (losses if len(pts) else np.ones(1))
                    k0 = len(log)
                    try:
                        smp.sample(space, bp, bl)
                        obs["rejected"][f"{how}:served"] += 1
                    except CaseTimeout:
                        raise
                    except Exception as e:  # noqa: BLE001
                        obs["rejected"][f"{how}:{type(e).__name__}"] += 1
                    del log[k0:]
                elif op == "scribble":
                    for a in passed:
                        if isinstance(a, np.ndarray) and a.flags.writeable:
                            a[...] = 77 if a.dtype.kind in "iu" else GARBAGE
                    passed = []
                elif op == "set":
                    setattr(smp, step["attr"], step["value"])
                    if step["attr"] == "batch_size":
                        cur_bs = step["value"]
                elif op == "shrink":
                    pts, losses = pts[: step["keep"]], losses[: step["keep"]]
                elif op == "space":
                    if step.get("index") is not None:  # back to a space used before (the same object)
                        si = step["index"]
                        space = obs["spaces"][si]
                        desc = obs["descs"][si]
                    else:
                        desc = step["space"]
                        try:
                            space = make_space(case, desc)
                        except Exception as e:  # noqa: BLE001
                            obs["space_error"] = f"{type(e).__name__}: {str(e)[:200]}"
                            raise
                        obs["spaces"].append(space)
                        obs["descs"].append(desc)
                        obs["grid0"].append([g.tobytes() for g in space.param_grid])
                        si = len(obs["spaces"]) - 1
                    pts, losses = history_points(step["hist_idx"], step["losses"], space)
                else:
                    raise ValueError(op)
        obs["sb_log"] = log
    except CaseTimeout:
        obs["skipped"] = "timeout"
    except Exception as e:  # noqa: BLE001
        obs["error"] = f"{type(e).__name__}: {str(e)[:200]}"
    finally:
        signal.alarm(0)
        signal.signal(signal.SIGALRM, old)
    obs["sb_log"] = log
    if obs["spaces"]:
        obs["space"] = obs["spaces"][0]
    return obs


# ------------------------------------------------------------------ structural tie
def tie_checks(case, obs):
    """The model's structural claims on every recorded sample_batch call.  Returns failure strings."""
    fails = []
    snapping = case["cls"] != "uniform"
    for b, batch in enumerate(obs["batches"]):
        space = obs["spaces"][batch["space_i"]]
        grid = space.param_grid
        rows_available = []
        for j, c in enumerate(batch["calls"]):
            where = f"sample() #{b}, sample_batch call #{j} (batch_size={c['n']})"
            out = c["out"]
            if not isinstance(out, np.ndarray):
                fails.append(f"{where}: returned {type(out).__name__}, not an array")
                continue
            snap = c["snap"]  # the array as it was when sample_batch returned
            if out.ndim == 2:
                rows_available += [r.tobytes() for r in snap]
            if c["space"] is not space:
                fails.append(f"{where}: called with a different search space object")
            if snapping:
                if not c["digitize"]:
                    fails.append(f"{where}: digitize_data was not called (return value is not a snapped array)")
                    continue
                last = c["digitize"][-1]
                if out is not last["out"]:
                    fails.append(f"{where}: the returned array is not the array the last digitize_data call returned")
                elif c["out_bytes"] != last["out_bytes"]:
                    fails.append(f"{where}: the array returned by digitize_data was modified before being returned")
                if last["grid"] is not grid:
                    fails.append(f"{where}: digitize_data was given a grid that is not search_space.param_grid")
                if last["raw"].ndim != 2 or last["raw"].shape[1] != space.dims:
                    fails.append(f"{where}: raw matrix of shape {last['raw'].shape} for {space.dims} parameters")
            else:
                exp = replay_uniform(c, grid)
                if exp is None:
                    fails.append(f"{where}: generator state could not be replayed")
                elif exp["values"].shape != snap.shape or exp["values"].tobytes() != c["out_bytes"]:
                    fails.append(f"{where}: returned array is not param_grid[c][rng.integers(0, len, size)] column by column")
        out = batch["out_copy"]
        if isinstance(out, np.ndarray) and out.ndim == 2:
            avail = set(rows_available)
            for r, row in enumerate(out):
                if row.tobytes() not in avail:
                    fails.append(f"sample() #{b}: returned row {r} was not returned by any sample_batch call of that sample()")
                    break
        if not batch["grid_untouched"]:
            fails.append(f"sample() #{b}: search_space.param_grid was modified")
    return fails


def replay_uniform(call, grid):
    """Indices RandomUniformSampler.sample_batch draws, replayed on a copy of the generator state before the call."""
    if call["rng_state"] is None:
        return None
    g = np.random.Generator(call["bitgen"]())
    g.bit_generator.state = call["rng_state"]
    n = call["n"]
    idx = np.zeros((n, len(grid)), dtype=np.int64)
    vals = np.zeros((n, len(grid)))
    for c, params in enumerate(grid):
        idx[:, c] = g.integers(0, len(params), size=(n,))
        vals[:, c] = params[idx[:, c]]
    return {"idx": idx, "values": vals}


# ------------------------------------------------------------------ direct oracle (the property itself)
def grid_sets(space):
    return [set(float(x) for x in g) for g in space.param_grid]


class DeclaredSpace:
    """What the oracle judges against: the space AS DECLARED (float64 values of the declaration), not the SearchSpace object."""

    def __init__(self, desc):
        self.lo = [float(x) for x in desc["bounds"][0]]
        self.hi = [float(x) for x in desc["bounds"][1]]
        self.dims = len(self.lo)
        self.param_grid = reference_grid(desc)
        self.parameters_bounds = (self.lo, self.hi)
        self.gsets = [set(float(x) for x in g) for g in self.param_grid]


def grid_definition_fails(space, ref, grid0, what):
    """The SearchSpace object holds exactly the declared grid, when it was built and still now (float64, same bytes)."""
    fails = []
    now = space.param_grid
    if len(now) != ref.dims:
        return [f"grid-definition: {what} has {len(now)} grid columns for {ref.dims} declared parameters"]
    for c, (g, r) in enumerate(zip(now, ref.param_grid)):
        if not isinstance(g, np.ndarray) or g.dtype != np.float64 or g.shape != r.shape or g.tobytes() != r.tobytes():
            n = min(len(g), len(r))
            diff = [i for i in range(n) if float(g[i]) != float(r[i])]
            where = (f"first differing element #{diff[0]}: {float(g[diff[0]])!r} vs declared {float(r[diff[0]])!r}" if diff
                     else f"{len(g)} elements (dtype {getattr(g, 'dtype', None)}) vs declared {len(r)} (float64)")
            fails.append(f"grid-definition: {what} parameter {c}: param_grid is not arange(lower, upper + 1e-7, precision) of the "
                         f"declared values [{ref.lo[c]!r}, {ref.hi[c]!r}]: {where}")
            break
        if grid0 is not None and grid0[c] != g.tobytes():
            fails.append(f"grid-definition: {what} parameter {c}: param_grid changed after the space was built")
            break
    return fails


def oracle_batch(out, bs, space, gsets, what):
    """Property statement on one returned batch.  Returns failure strings (first offending cell only per clause)."""
    fails = []
    dims = space.dims
    if not isinstance(out, np.ndarray):
        return [f"shape: {what} returned {type(out).__name__}"]
    if out.shape != (bs, dims):
        fails.append(f"shape: {what} returned shape {tuple(out.shape)}, expected {(bs, dims)}")
    if out.dtype != np.float64:
        fails.append(f"shape: {what} returned dtype {out.dtype}")
    if out.ndim != 2 or out.shape[1] != dims:
        return fails
    lo, hi = space.parameters_bounds[0], space.parameters_bounds[1]
    for r in range(out.shape[0]):
        for c in range(dims):
            v = float(out[r, c])
            if v not in gsets[c] or math.isnan(v):
                near = float(space.param_grid[c][np.argmin(np.abs(space.param_grid[c] - v))]) if not math.isnan(v) else None
                fails.append(f"membership: {what} row {r} parameter {c}: {v!r} ({v.hex() if not math.isnan(v) else 'nan'}) is not "
                             f"an element of the grid (nearest element {near!r})")
                return fails
            n = len(space.param_grid[c])
            slack = 4 * n * math.ulp(max(abs(float(lo[c])), abs(float(hi[c])), END_TOL))
            BOUNDS_STATS["cells"] += 1
            if not (float(lo[c]) <= v <= float(hi[c]) + END_TOL):  # measured use of the slack (coverage: bounds_clause)
                BOUNDS_STATS["needed_slack"] += 1
                over = max(float(lo[c]) - v, v - (float(hi[c]) + END_TOL))
                BOUNDS_STATS["max_fraction_of_slack_used"] = max(BOUNDS_STATS["max_fraction_of_slack_used"], over / slack)
            if not (float(lo[c]) - slack <= v <= float(hi[c]) + END_TOL + slack):
                fails.append(f"bounds: {what} row {r} parameter {c}: {v!r} outside [{float(lo[c])!r}, {float(hi[c])!r} + 1e-7]")
                return fails
    return fails


def oracle_sampler_case(case, obs):
    """Every returned batch against the space DECLARED for the call and the batch size in force at the call."""
    fails = []
    refs = [DeclaredSpace(d) for d in obs["descs"]]
    for i, (sp, ref) in enumerate(zip(obs["spaces"], refs)):
        fails += grid_definition_fails(sp, ref, obs["grid0"][i], f"space #{i} ({obs['descs'][i].get('decl') or 'list'} declaration)")
    for b, batch in enumerate(obs["batches"]):
        ref = refs[batch["space_i"]]
        fails += oracle_batch(batch["out_copy"], batch["bs"], ref, ref.gsets, f"sample() #{b}")
    return fails


# ------------------------------------------------------------------ calibrations: the model is never simulated off the space
def echo_model(theta, N, seed):  # noqa: N803
    """Picklable model for n_jobs > 1: the series starts with the parameter vector it was called with (bit for bit)."""
    t = np.asarray(theta, dtype=float).ravel()
    rng = np.random.default_rng(seed)
    x = np.tanh(t).sum() + 0.1 * rng.standard_normal((N, 1))
    x[: len(t), 0] = t
    return x


def run_calibration(case):
    """Short real Calibrator runs.  Observed: the `theta` the model function receives (in-process runs: recorded by the
    function itself; n_jobs > 1: echoed at the head of every stored series) and calibrator.params_samp, over one or more
    calibrate() sessions, optionally with a restore from the checkpoint in between."""
    import shutil
    import tempfile
    import warnings

    from black_it.calibrator import Calibrator
    from black_it.loss_functions.minkowski import MinkowskiLoss
    from black_it.loss_functions.msm import MethodOfMomentsLoss

    obs = {"error": None, "skipped": None, "thetas": [], "fails": []}
    thetas = []

    def model(theta, N, seed):  # noqa: N803
        thetas.append(np.array(theta, dtype=float, copy=True))
        return echo_model(theta, N, seed)

    old = signal.signal(signal.SIGALRM, _alarm)
    signal.alarm(3 * CASE_TIMEOUT_S)
    folder = None
    try:
        ref = DeclaredSpace(case)
        n_jobs = case.get("n_jobs", 1)
        sessions = case.get("sessions") or [case["nbatches"]]
        real_len = 12
        sim_length = case.get("sim_length")
        fn = echo_model if n_jobs != 1 else model
        with contextlib.redirect_stdout(io.StringIO()), np.errstate(all="ignore"), warnings.catch_warnings():
            warnings.simplefilter("ignore")
            samplers = [make_sampler(k, bs, 100 + i) for i, (k, bs) in enumerate(case["lineup"])]
            real = echo_model(case["true_theta"], real_len, 4242)
            b, p = declare(case, case.get("decl"))
            if case.get("saving_folder") or case.get("restore_between"):
                folder = tempfile.mkdtemp(prefix="c03cal", dir="/var/tmp/rw") if Path("/var/tmp/rw").is_dir() else tempfile.mkdtemp(prefix="c03cal")
            cal = Calibrator(loss_function=MethodOfMomentsLoss() if sim_length else MinkowskiLoss(), real_data=real, model=fn, parameters_bounds=b,
                             parameters_precision=p, ensemble_size=case["ensemble"], samplers=samplers,
                             sim_length=sim_length, convergence_precision=case.get("convergence_precision"),
                             verbose=bool(case.get("verbose", False)), saving_folder=folder, random_state=case["seed"], n_jobs=n_jobs)
            for si, nb in enumerate(sessions):
                if si > 0 and case.get("restore_between"):
                    cal = Calibrator.restore_from_checkpoint(folder, model=fn)
                cal.calibrate(nb)
        space = cal.param_grid
        obs["fails"] += grid_definition_fails(space, ref, None, f"the calibrator's space ({case.get('decl') or 'list'} declaration)")
        if n_jobs != 1:  # the argument the (out-of-process) model received, as echoed in the stored series
            ser = np.asarray(cal.series_samp)
            seen = ser[:, :, : ref.dims, 0].reshape(-1, ref.dims) if ser.size and ser.shape[2] >= ref.dims else np.zeros((0, ref.dims))
        else:
            seen = np.array(thetas).reshape(len(thetas), ref.dims) if thetas else np.zeros((0, ref.dims))
        obs["n_sim"] = len(seen)
        obs["fails"] += oracle_batch(seen, len(seen), ref, ref.gsets, "model(theta) arguments")
        obs["fails"] += oracle_batch(cal.params_samp, len(cal.params_samp), ref, ref.gsets, "calibrator.params_samp")
        if len(seen) and len(cal.params_samp) * case["ensemble"] == len(seen):
            rep = np.repeat(cal.params_samp, case["ensemble"], axis=0)
            if rep.tobytes() != np.ascontiguousarray(seen, dtype=float).tobytes() and not case.get("restore_between"):
                obs["fails"].append("membership: the parameters the model was run at are not, bit for bit, the rows of "
                                    "calibrator.params_samp (each repeated ensemble_size times)")
        want = sum(case["lineup"][i % len(case["lineup"])][1] for i in range(sum(sessions))) * case["ensemble"]
        obs["expected_sims"] = want
    except CaseTimeout:
        obs["skipped"] = "timeout"
    except Exception as e:  # noqa: BLE001
        obs["error"] = f"{type(e).__name__}: {str(e)[:200]}"
    finally:
        signal.alarm(0)
        signal.signal(signal.SIGALRM, old)
        if folder:
            shutil.rmtree(folder, ignore_errors=True)
        if case.get("n_jobs", 1) != 1:
            # the loky workers would outlive the check (vcheck leaves with os._exit) and keep its stdout open for their
            # 300 s idle time-out
            try:
                from joblib.externals.loky import get_reusable_executor

                get_reusable_executor().shutdown(wait=True, kill_workers=True)
            except Exception:  # noqa: BLE001
                pass
    return obs


# ------------------------------------------------------------------ generators
def nice(x):
    """Shorten a float to ~6 significant digits (keeps literals readable; still an arbitrary float64)."""
    return float(f"{x:.6g}")


def gen_param(rng, flavour):
    """(lower, upper, precision, tag) of one parameter."""
    if flavour == "dyadic":
        s = rng.choice([0, 1, 2, 3, 4])
        step = 2.0 ** -s * rng.choice([1, 1, 2, 3])
        npts = rng.randint(2, 40)
        lo = step * rng.randint(-40, 20)
        return lo, lo + step * (npts - 1), step, "dyadic"
    if flavour == "tiny":
        npts = rng.randint(2, 4)
        step = rng.choice([0.3, 0.5, 1.0, 0.25, 0.1])
        lo = rng.choice([0.0, -1.0, 1.0, -0.5])
        hi = nice(lo + step * (npts - 1) + rng.choice([0.0, 0.0, 0.4 * step]))
        while not step <= hi - lo:  # float rounding of the range (e.g. -0.9 - -1.0 < 0.1) would make the spec invalid
            hi = float(np.nextafter(hi, np.inf))
        return lo, hi, step, "tiny"
    if flavour == "int":  # integer bounds (declared as Python ints / int64 arrays), integer or fractional precision
        lo = float(rng.randint(-50, 50))
        step = rng.choice([1.0, 1.0, 2.0, 3.0, 5.0, 0.5, 0.25, 2.5, 1.5])
        npts = rng.randint(2, 40)
        hi = float(math.floor(lo + step * (npts - 1) + rng.choice([0.0, 0.0, 1.0])))
        while not step <= hi - lo:
            hi += 1.0
        return lo, hi, step, "int"
    if flavour == "far":  # level 1e5 .. 1e8 with O(1) variation
        level = rng.choice([-1.0, 1.0]) * nice(10.0 ** rng.randint(5, 8) * rng.uniform(1.0, 9.0))
        width = nice(rng.uniform(0.5, 20.0))
        npts = rng.randint(2, 200)
        lo, hi = level, level + width
        prec = nice((hi - lo) / npts) if rng.below(2) else nice((hi - lo) / (npts + rng.uniform(0.05, 0.95)))
        if not (0 < prec <= hi - lo):
            prec = (hi - lo) / 2
        return lo, hi, prec, "far"
    if flavour == "huge":  # 1600 .. 4000 points per parameter: six of them make a space of more than 2^63 points
        npts = rng.randint(1600, 4000)
        lo = nice(rng.uniform(-3.0, 3.0))
        prec = rng.choice([0.001, 0.0005, 0.002, 1.0 / 1024])
        return lo, lo + prec * npts, prec, "huge"
    if flavour == "extreme":
        small = rng.below(2) == 0
        scale = 10.0 ** (rng.randint(-9, -7) if small else rng.randint(7, 12))
        width = scale * rng.uniform(0.2, 2.0)
        lo = nice(rng.choice([0.0, -width * rng.uniform(0.1, 0.9), scale * rng.uniform(0.0, 1.0), -width]))
        hi = nice(lo + width)
        if not hi > lo:
            hi = lo + scale
        npts = rng.randint(2, 12) if small else rng.randint(2, 300)  # small: the 1e-7 end tolerance adds 1e-7/precision points
        prec = nice((hi - lo) / npts) if rng.below(2) else nice((hi - lo) / (npts + rng.uniform(0.05, 0.95)))
        if not (0 < prec <= hi - lo):
            prec = (hi - lo) / 2
        return lo, hi, prec, "extreme-small" if small else "extreme-big"
    scale = 10.0 ** rng.randint(-6, 6)
    sign = rng.choice(["pos", "neg", "straddle", "zero-lo", "zero-hi", "offset"])
    width = scale * rng.uniform(0.2, 2.0)
    if sign == "pos":
        lo = scale * rng.uniform(0.0, 1.0)
    elif sign == "neg":
        lo = -scale * rng.uniform(0.0, 1.0) - width
    elif sign == "straddle":
        lo = -width * rng.uniform(0.1, 0.9)
    elif sign == "zero-lo":
        lo = 0.0
    elif sign == "zero-hi":
        lo = -width
    else:
        lo = rng.choice([-1.0, 1.0]) * width * rng.randint(10, 1000)
    lo = nice(lo)
    hi = nice(lo + width)
    if sign == "zero-hi":
        hi = 0.0
    if not hi > lo:
        hi = lo + scale
    rngw = hi - lo
    k = rng.below(10)
    npts = rng.randint(2, 12) if k < 4 else rng.randint(13, 120) if k < 8 else rng.randint(121, 1500)
    if rng.below(2) == 0:  # precision "divides" the range
        prec = rngw / npts
        tag = "divides"
        if rng.below(2) == 0:
            prec = nice(prec)
            tag = "divides-rounded"
    else:
        prec = nice(rngw / (npts + rng.uniform(0.05, 0.95)))
        tag = "not-dividing"
    if not (0 < prec <= rngw):
        prec = rngw / 2
    return lo, hi, prec, f"{tag}/{sign}"


WITNESS_SPACES = [
    {"bounds": [[0.0], [1.0]], "precision": [0.1], "tag": "witness:aligned-0.1"},          # arange(0, 1.0000001, 0.1)
    {"bounds": [[0.0], [1.0]], "precision": [0.3], "tag": "witness:non-aligned-0.3"},      # {0, .3, .6, .9}
    {"bounds": [[0.0, 0.0], [1.0, 1.0]], "precision": [0.1, 0.3], "tag": "witness:both"},
    {"bounds": [[0.0, -1.0, 5.0], [1.0, 1.0, 6.0]], "precision": [0.01, 0.3, 0.07], "tag": "witness:mixed"},
]


def gen_space(rng, max_dims=6, wide=True):
    """A declared space.  `wide`: also the round-4 flavours (integer / far-from-origin / extreme scales / >= 2^63 points /
    more than 6 parameters) and the round-4 declaration representations."""
    k = rng.below(20)
    if k < 2:
        w = rng.choice(WITNESS_SPACES)
        sp = {"bounds": [list(w["bounds"][0]), list(w["bounds"][1])], "precision": list(w["precision"]), "tag": w["tag"]}
    else:
        flavour = "dyadic" if k < 5 else "tiny" if k < 8 else "generic"
        dims = rng.randint(1, 2) if flavour == "tiny" else rng.randint(1, max_dims)
        if wide and k >= 8:
            j = rng.below(12)
            if j < 2:
                flavour = "int"
            elif j < 4:
                flavour = "far"
            elif j == 4:
                flavour = "extreme"
            elif j == 5 and max_dims >= 6:
                flavour, dims = "huge", 6
            elif j == 6 and max_dims >= 6:
                dims = rng.randint(7, 12)  # beyond the 1-6 of the quantifier; the statement says "whatever the search space"
        lo, hi, pr = [], [], []
        for _ in range(dims):
            a, b, p, _t = gen_param(rng, flavour)
            lo.append(a)
            hi.append(b)
            pr.append(p)
        sp = {"bounds": [lo, hi], "precision": pr, "tag": flavour + ("/many-dims" if dims > 6 else "")}
    if wide:
        decl = rng.choice(DECLS) if rng.below(2) else "list"
        if decl_applicable(sp, decl) and decl != "list":
            sp["decl"] = decl
            if decl in ("ndarray", "fortran", "strided", "int64", "float32", "list", "mixed", "int", "npscalar") and rng.below(2):
                sp["decl_scribble"] = True
        elif sp["tag"].startswith("int"):
            sp["decl"] = "int"
        if rng.below(6) == 0:
            sp["space_verbose"] = True
    return sp


def grid_lengths(space_desc):
    return [len(np.arange(lo, hi + END_TOL, p, dtype=np.float64))
            for lo, hi, p in zip(space_desc["bounds"][0], space_desc["bounds"][1], space_desc["precision"])]


def gen_losses(rng, n):
    mode = rng.below(4)
    if mode == 0:  # heavy ties
        pool = [rng.choice([0.5, 1.0, 2.0]) for _ in range(2)]
        return [rng.choice(pool) for _ in range(n)]
    if mode == 1:  # some ties
        base = [nice(rng.uniform(0.01, 10.0)) for _ in range(max(1, n // 2))]
        return [rng.choice(base) for _ in range(n)]
    if mode == 2:
        sc = 10.0 ** rng.randint(-8, 8)
        return [sc * rng.uniform(0.1, 1.0) for _ in range(n)]
    return [rng.uniform(0.01, 5.0) for _ in range(n)]


def _unique_rows(rows):
    seen, uniq = set(), []
    for row in rows:
        if tuple(row) not in seen:
            seen.add(tuple(row))
            uniq.append(row)
    return uniq


def gen_history(rng, kind, lens, nh):
    hist_idx = [[rng.below(n) for n in lens] for _ in range(nh)]
    if kind == "gp":  # a repeated history point makes sklearn's kernel matrix singular (LinAlgError, not a C03 matter)
        hist_idx = _unique_rows(hist_idx)
    elif nh >= 2 and rng.below(4) == 0:  # a repeated point in the history
        hist_idx[rng.below(nh)] = list(hist_idx[rng.below(nh)])
    return hist_idx


HIST_REPRS = ("fortran", "strided", "readonly", "float32", "int64", "int32", "float16", "negzero", "list")
LOSS_REPRS = ("float32", "int64", "list", "strided", "readonly")


def gen_sampler_case(rng, kind, space_desc=None, wide=True):
    expensive = kind in EXPENSIVE
    many_ok = kind not in ("cors",)
    sp = space_desc or gen_space(rng, max_dims=4 if kind == "cors" else 6, wide=wide)
    lens = grid_lengths(sp)
    dims = len(lens)
    bs = rng.randint(1, 3) if kind == "cors" else rng.randint(1, 4) if expensive else rng.randint(1, 8)
    extra = rng.randint(0, 6) if expensive else rng.choice([0, 0, 1, 3, 8, 20])
    nh = bs + extra if (kind in NEEDS_HISTORY or rng.below(3) > 0) else rng.choice([0, 0, 1])
    if kind in NEEDS_HISTORY:
        nh = max(nh, 2)
    if kind == "pso":
        nh = max(nh, 1)  # the second call takes argmin of the losses
    ncalls = rng.randint(1, 2) if kind in ("cors", "gp") else rng.randint(1, 4)
    case = {
        "kind": "sampler", "cls": kind, "bounds": sp["bounds"], "precision": sp["precision"], "space_tag": sp["tag"],
        "bs": bs, "seed": rng.below(2 ** 31), "budget": rng.choice([None, 0, 1, 2, 5]), "opts": {},
        "hist_idx": None, "losses": None, "ncalls": ncalls,
        "append": [rng.below(3) > 0 for _ in range(ncalls)],
        "new_losses": [gen_losses(rng, 8) for _ in range(ncalls)],
    }
    for k in ("decl", "decl_scribble", "space_verbose"):
        if sp.get(k):
            case[k] = sp[k]
    if kind == "pso" and rng.below(2):
        case["opts"] = {"inertia": rng.choice([0.0, 0.5, 0.9, 2.0]), "c1": rng.choice([0.0, 0.1, 1.5]),
                        "c2": rng.choice([0.0, 0.1, 1.5]), "global": bool(rng.below(2))}
    if kind == "bestbatch" and rng.below(2):
        case["opts"] = {"a": rng.choice([0.5, 1.0, 3.0]), "b": rng.choice([0.5, 1.0, 3.0]), "range": rng.choice([2, 3, 6, 20])}
    if kind == "cors" and rng.below(2):
        case["opts"] = {"max_samples": rng.choice([20, 40, 200]), "rho0": rng.choice([0.1, 0.5, 1.0]), "p": rng.choice([0.5, 1.0, 2.0])}
        if wide and rng.below(3) == 0:
            case["opts"]["verbose"] = True
    if wide and kind == "bestbatch" and case["opts"] and rng.below(3) == 0:  # integer-typed option values
        case["opts"] = {"a": rng.choice([1, 3]), "b": rng.choice([1, 2]), "range": case["opts"]["range"]}
    if wide and kind == "gp" and rng.below(2):
        case["opts"] = {"acquisition": rng.choice(["mean", "expected_improvement"]), "jitter": rng.choice([0.0, 0.1, 1.0]), "restarts": 1}
    if wide and kind == "rf" and rng.below(2):
        case["opts"] = {"n_classes": rng.choice([3, 4, 10]), "criterion": rng.choice(["gini", "entropy"]), "n_estimators": rng.choice([1, 4, 9]),
                        "pool": rng.choice([None, 8, 40, 100])}
    if wide and kind == "xgb" and rng.below(2):
        case["opts"] = {"max_depth": rng.choice([1, 2, 4]), "learning_rate": rng.choice([0.05, 0.3, 1.0]),
                        "colsample_bytree": rng.choice([0.3, 1.0]), "alpha": rng.choice([0.0, 1.0]), "pool": rng.choice([None, 8, 40, 100])}
    pool = case["opts"].get("pool") or 40

    # ---- the life of the object: plain successive calls, or (round 4) a script with reconfiguration in between
    max_bs = bs
    script = None
    if wide and rng.below(2):
        script = []
        cur = bs
        n_samples = 0

        def maybe_set():
            nonlocal cur, max_bs
            r = rng.below(6)
            if r == 0 and kind != "pso":  # PSO: the swarm size is fixed when it is set up (finding pso-batch-size-reassigned)
                cur = rng.randint(1, 3) if kind == "cors" else rng.randint(1, min(8, pool)) if not expensive else rng.randint(1, min(5, pool))
                max_bs = max(max_bs, cur)
                script.append({"op": "set", "attr": "batch_size", "value": cur})
            elif r == 1:
                script.append({"op": "set", "attr": "random_state", "value": rng.below(2 ** 31)})
            elif r == 2 and kind not in FIXED_BUDGET:
                script.append({"op": "set", "attr": "max_deduplication_passes", "value": rng.choice([0, 1, 3, 7])})
            elif r == 3 and kind == "bestbatch":
                script.append({"op": "set", "attr": rng.choice(["a", "b"]), "value": rng.choice([0.5, 2.0, 3, 1])})
                script.append({"op": "set", "attr": "perturbation_range", "value": rng.choice([2, 3, 9, 30])})
            elif r == 3 and kind == "gp":
                script.append({"op": "set", "attr": "acquisition", "value": rng.choice(["mean", "expected_improvement"])})
                script.append({"op": "set", "attr": "jitter", "value": rng.choice([0.0, 0.5])})

        maybe_set()
        for k in range(ncalls + rng.below(2)):
            script.append({"op": "sample", "append": rng.below(3) > 0, "new_losses": gen_losses(rng, 8)})
            n_samples += 1
            r = rng.below(8)
            if r == 0:
                how = rng.choice(["short-history", "empty-history", "wrong-width"])
                script.append({"op": "reject", "how": how})
            elif r == 1:
                script.append({"op": "scribble"})
            elif r == 2:
                maybe_set()
            elif r == 3:
                script.append({"op": "shrink", "keep": None})  # filled below (needs max_bs)
            elif r == 4 and n_samples < 4:
                same_dims = kind == "pso" or rng.below(2) == 0
                for _try in range(20):
                    sp2 = gen_space(rng, max_dims=4 if kind == "cors" else 6, wide=True)
                    if (len(sp2["precision"]) == dims) == same_dims and (len(sp2["precision"]) <= 6 or many_ok):
                        break
                else:
                    sp2 = None
                if sp2 is not None:
                    script.append({"op": "space", "space": sp2, "hist_idx": None, "losses": None})
                    if rng.below(2):
                        script.append({"op": "sample", "append": rng.below(2) > 0, "new_losses": gen_losses(rng, 8)})
                        n_samples += 1
                        script.append({"op": "space", "index": 0, "hist_idx": None, "losses": None})
        if script[-1]["op"] != "sample":
            script.append({"op": "sample", "append": False, "new_losses": []})
        # histories (they need the largest batch size of the script)
        need = max(max_bs, 2) if kind in NEEDS_HISTORY else 1 if kind == "pso" else 0
        for st in script:
            if st["op"] == "space":
                l2 = lens if st.get("index") is not None else grid_lengths(st["space"])
                n2 = max(need, rng.choice([0, 1, max_bs + rng.randint(0, 6)]))
                st["hist_idx"] = gen_history(rng, kind, l2, n2)
                st["losses"] = gen_losses(rng, len(st["hist_idx"]))
            elif st["op"] == "shrink":
                st["keep"] = max(need, rng.randint(0, 3))
        nh = max(nh, need)
        case["script"] = script
    case["hist_idx"] = gen_history(rng, kind, lens, nh)
    case["losses"] = gen_losses(rng, len(case["hist_idx"]))
    if wide and kind == "bestbatch" and sp["tag"].split("/")[0] in ("dyadic", "int") and rng.below(2):
        case["hist_repr"] = rng.choice(["float32", "float16", "int64", "int32"])  # held exactly when the points allow it
    elif wide and rng.below(3) == 0:
        case["hist_repr"] = rng.choice(HIST_REPRS)
        if case["hist_repr"] == "list" and kind in ("bestbatch", "gp"):  # fancy-indexing / .shape of the history: ndarray only
            case["hist_repr"] = "fortran"
    if wide and rng.below(4) == 0:
        case["loss_repr"] = rng.choice(LOSS_REPRS)
    return case


def fixed_sampler_cases():
    """The BestBatch witnesses of the repaired defect, always run, plus each class on the witness spaces."""
    cases = []
    # aligned grid: parents on 0.1 .. 0.9, shifts of whole steps accumulate float error (0.5 + 0.1 != 6*0.1)
    for seed in range(6):
        cases.append({"kind": "sampler", "cls": "bestbatch", "bounds": [[0.0], [1.0]], "precision": [0.1],
                      "space_tag": "witness:aligned-0.1", "bs": 4, "seed": seed, "budget": 0, "opts": {},
                      "hist_idx": [[5], [4], [7], [2], [9], [1]], "losses": [0.1, 0.2, 0.3, 0.4, 0.5, 0.6], "ncalls": 3,
                      "append": [True, True, True], "new_losses": [[0.05, 0.06, 0.07, 0.08]] * 3})
        # non-aligned upper bound: clipping to 1.0 leaves {0, .3, .6, .9}
        cases.append({"kind": "sampler", "cls": "bestbatch", "bounds": [[0.0], [1.0]], "precision": [0.3],
                      "space_tag": "witness:non-aligned-0.3", "bs": 3, "seed": seed, "budget": 0, "opts": {},
                      "hist_idx": [[3], [3], [2], [0]], "losses": [0.1, 0.1, 0.3, 0.4], "ncalls": 2,
                      "append": [False, True], "new_losses": [[0.05, 0.06, 0.07]] * 2})
    # boundary of the admissible options: a candidate pool exactly as large as the batch (a smaller pool used to return
    # `pool` rows instead of `batch_size` rows; since the repair b8551a2 the constructor rejects it - see pool_validation)
    for kind in ("xgb", "rf", "gp"):
        cases.append({"kind": "sampler", "cls": kind, "bounds": [[0.0], [1.0]], "precision": [0.1],
                      "space_tag": "probe:pool=batch", "bs": 4, "seed": 1, "budget": 0, "opts": {"pool": 4},
                      "hist_idx": [[0], [5], [7], [2], [9]], "losses": [1.0, 2.0, 3.0, 0.5, 0.7], "ncalls": 1,
                      "append": [False], "new_losses": [[0.1, 0.2, 0.3, 0.4]]})
    # round 4: BestBatch is the one sampler whose raw matrix is a copy of rows of the caller's history, so the dtype and
    # layout of the history reach the final snap: histories that hold the grid points exactly in another dtype
    for rep in ("float32", "float16", "negzero", "strided", "fortran", "readonly"):
        cases.append({"kind": "sampler", "cls": "bestbatch", "bounds": [[0.0, -2.0], [4.0, 2.0]], "precision": [0.5, 0.25],
                      "space_tag": "probe:history-dtype", "bs": 3, "seed": 5, "budget": 2, "opts": {}, "hist_repr": rep,
                      "hist_idx": [[0, 8], [3, 3], [8, 16], [4, 8], [1, 0], [6, 9]], "losses": [0.3, 0.1, 0.2, 0.6, 0.5, 0.4],
                      "ncalls": 3, "append": [True, False, True], "new_losses": [[0.05, 0.06, 0.07]] * 3})
    for rep in ("int64", "int32", "float32"):
        cases.append({"kind": "sampler", "cls": "bestbatch", "bounds": [[0.0, -6.0], [10.0, 6.0]], "precision": [1.0, 2.0],
                      "decl": "int", "space_tag": "probe:history-dtype", "bs": 3, "seed": 6, "budget": 2, "opts": {}, "hist_repr": rep,
                      "hist_idx": [[0, 3], [3, 3], [10, 6], [4, 0], [1, 1], [6, 5]], "losses": [0.3, 0.1, 0.2, 0.6, 0.5, 0.4],
                      "ncalls": 3, "append": [True, False, True], "new_losses": [[0.05, 0.06, 0.07]] * 3})
    return cases


def lifecycle_cases(rng, kind):
    """Round 4, always run for every class: ONE sampler object taken through a second space of the same dimension and back,
    a space of another dimension, a batch size assigned after construction, a rejected call, and a caller that overwrites
    the arrays it passed / received."""
    expensive = kind in EXPENSIVE
    bs = rng.randint(1, 3) if kind == "cors" else rng.randint(2, 4)
    bs2 = rng.randint(1, 3) if kind == "cors" else rng.randint(1, 5)
    need = max(bs, bs2, 2) + (0 if expensive else 3)

    def space_of_dims(d, avoid_tiny=False):
        for _ in range(200):
            sp = gen_space(rng, max_dims=4 if kind == "cors" else 6, wide=True)
            if len(sp["precision"]) == d and not (avoid_tiny and sp["tag"] == "tiny"):
                return sp
        return {"bounds": [[5.0] * d, [6.0] * d], "precision": [0.07] * d, "tag": "fallback"}

    def hist(sp, n):
        h = gen_history(rng, kind, grid_lengths(sp), n)
        return h, gen_losses(rng, len(h))

    def smp(append=True):
        return {"op": "sample", "append": append, "new_losses": gen_losses(rng, 8)}

    def sw(sp):
        h, l = hist(sp, need)
        return {"op": "space", "space": sp, "hist_idx": h, "losses": l}

    def back():
        h, l = hist(w, need)
        return {"op": "space", "index": 0, "hist_idx": h, "losses": l}

    cases = []
    w = {"bounds": [[0.0, 0.0], [1.0, 1.0]], "precision": [0.1, 0.3], "tag": "witness:both"}
    h0, l0 = hist(w, need)
    script = [smp(), {"op": "scribble"}, sw(space_of_dims(2)), smp(), smp(False)]
    if kind != "pso":
        script.append({"op": "set", "attr": "batch_size", "value": bs2})
    script += [smp(), {"op": "reject", "how": rng.choice(["short-history", "wrong-width", "empty-history"])}, smp(), back(), smp()]
    cases.append({"kind": "sampler", "cls": kind, "bounds": w["bounds"], "precision": w["precision"], "space_tag": "lifecycle:same-dims",
                  "bs": bs, "seed": rng.below(2 ** 31), "budget": rng.choice([None, 0, 2]), "opts": {}, "hist_idx": h0, "losses": l0,
                  "ncalls": 0, "append": [], "new_losses": [], "script": script})
    if kind != "pso":  # the swarm keeps the dimension it was set up with
        d0 = rng.randint(1, 3)
        sp0 = space_of_dims(d0)
        w = sp0
        h0, l0 = hist(sp0, need)
        other = space_of_dims(d0 + 1 if d0 < 3 else rng.randint(1, 2))
        script = [smp(), sw(other), smp(), {"op": "set", "attr": "random_state", "value": rng.below(2 ** 31)}, smp(False),
                  {"op": "shrink", "keep": max(bs, 2)}, smp(), back(), smp()]
        case = {"kind": "sampler", "cls": kind, "bounds": sp0["bounds"], "precision": sp0["precision"], "space_tag": "lifecycle:other-dims",
                "bs": bs, "seed": rng.below(2 ** 31), "budget": rng.choice([None, 0, 2]), "opts": {}, "hist_idx": h0, "losses": l0,
                "ncalls": 0, "append": [], "new_losses": [], "script": script}
        for k in ("decl", "decl_scribble", "space_verbose"):
            if sp0.get(k):
                case[k] = sp0[k]
        cases.append(case)
    return cases


def pool_validation(chk):
    """candidate_pool_size < batch_size is not an admissible option: it must be rejected, never silently shorten a batch."""
    from black_it.samplers.gaussian_process import GaussianProcessSampler
    from black_it.samplers.random_forest import RandomForestSampler
    from black_it.samplers.xgboost import XGBoostSampler

    n = 0
    for cls in (RandomForestSampler, XGBoostSampler, GaussianProcessSampler):
        for bs, pool in ((4, 2), (2, 1), (3, 0)):
            n += 1
            try:
                cls(batch_size=bs, candidate_pool_size=pool)
            except ValueError:
                continue
            chk.violation({"kind": "oracle", "clause": "shape", "option": "candidate_pool_size<batch_size"},
                          {"failed": "oracle:shape", "detail": f"{cls.__name__}(batch_size={bs}, candidate_pool_size={pool}) is accepted and "
                           "returns fewer rows than batch_size", "case": {"kind": "pool_validation", "cls": cls.__name__, "bs": bs, "pool": pool}})
    return n


def declaration_alias_probe(chk):
    """The declared space is the one given at construction: arrays the caller passed and later reuses (writes into) must not
    change the grid, whether or not anything has sampled from the space yet."""
    from black_it.samplers.halton import HaltonSampler
    from black_it.samplers.random_uniform import RandomUniformSampler
    from black_it.search_space import SearchSpace

    rng = chk.rng
    n = 0
    for as_array in (True, False):
        for verbose in (False, True):
            for _ in range(3):
                lo, hi, pr = [0.0, -1.0], [1.0, 1.0], [0.1, 0.25]
                b = np.array([lo, hi]) if as_array else [list(lo), list(hi)]
                p = np.array(pr) if as_array else list(pr)
                with contextlib.redirect_stdout(io.StringIO()):
                    sp = SearchSpace(b, p, verbose)
                    control = SearchSpace([list(lo), list(hi)], list(pr), False)
                # the caller reuses its arrays for something else
                if as_array:
                    b[:] = [[40.0, 40.0], [50.0, 50.0]]
                    p[:] = [2.5, 2.5]
                else:
                    b[0][:], b[1][:] = [40.0, 40.0], [50.0, 50.0]
                    p[:] = [2.5, 2.5]
                n += 1
                seed = rng.below(2**31)
                pts = np.vstack([RandomUniformSampler(4, random_state=seed).sample(sp, np.zeros((0, 2)), np.zeros(0)),
                                 HaltonSampler(4, random_state=seed).sample(sp, np.zeros((0, 2)), np.zeros(0))])
                off = [(float(v), c) for row in pts for c, v in enumerate(row) if not np.any(control.param_grid[c] == v)]
                if off or any(len(a) != len(g) or (a != g).any() for a, g in zip(sp.param_grid, control.param_grid)):
                    chk.violation({"kind": "oracle", "clause": "membership", "with": "declaration-arrays-reused"},
                                  {"failed": "oracle:membership", "detail": f"space declared as bounds {lo}..{hi} precision {pr} "
                                   f"({'ndarray' if as_array else 'list'} inputs, verbose={verbose}); after the caller reused its arrays the "
                                   f"samplers propose {off[:3]}", "case": {"kind": "alias_probe", "as_array": as_array, "verbose": verbose}})
    return n


def gen_calibration(rng, quick, wide=True, variant=None):
    sp = gen_space(rng, max_dims=3, wide=wide)
    first = rng.choice(["halton", "uniform", "rseq"])
    others = [k for k in ALL9 if k != "gp" or not quick]
    lineup = [(first, rng.randint(2, 4))]
    for _ in range(rng.randint(1, 3)):
        k = rng.choice(others)
        bs_k = rng.randint(1, 3) if k != "cors" else rng.randint(1, 2)
        if k == "bestbatch":  # needs at least batch_size points in the history: the first sampler's batch is all there is at first
            bs_k = min(bs_k, lineup[0][1])
        lineup.append((k, bs_k))
    dims = len(sp["precision"])
    case = {"kind": "calibration", "bounds": sp["bounds"], "precision": sp["precision"], "space_tag": sp["tag"],
            "lineup": lineup, "ensemble": rng.randint(1, 2), "nbatches": rng.randint(2, 3), "seed": rng.below(2 ** 31),
            "true_theta": [0.5 * (a + b) for a, b in zip(sp["bounds"][0], sp["bounds"][1])], "dims": dims}
    if sp.get("decl"):
        case["decl"] = sp["decl"]
    if wide:  # non-default configuration and sequences of sessions (`variant` cycles so that a quick run has each of them)
        r = rng.below(5) if variant is None else variant % 5
        if r == 0:
            case["n_jobs"] = 2
        elif r == 1:
            case["sessions"] = [case["nbatches"], rng.randint(1, 2)]
            case["restore_between"] = True
        elif r == 2:
            case["sessions"] = [case["nbatches"], rng.randint(1, 2)]
            case["saving_folder"] = bool(rng.below(2))
        elif r == 3:
            case["sim_length"] = rng.choice([8, 20])  # != the 12 rows of the data: needs a loss that accepts it (moments)
        else:
            case["convergence_precision"] = rng.choice([1, 9])
            case["verbose"] = True
            case["ensemble"] = rng.choice([1, 3])
    return case


# ------------------------------------------------------------------ round-4 probes
def declaration_representation_probe(chk):
    """The declared space does not depend on the container / dtype the caller used for the same numbers: the grid of every
    representation is, byte for byte, arange(lower, upper + 1e-7, precision) of the float64 values."""
    from black_it.search_space import SearchSpace

    n = 0
    descs = [
        {"bounds": [[0.0, -5.0, 2.0], [10.0, 5.0, 3.0]], "precision": [1.0, 2.0, 0.25]},
        {"bounds": [[0.0, -6.0], [10.0, 6.0]], "precision": [2.5, 0.5]},           # integer bounds, fractional precision
        {"bounds": [[-3.0], [4.0]], "precision": [3.0]},                              # last multiple (3) below the bound (4)
        {"bounds": [[0.5, 1024.0], [1.0, 1030.0]], "precision": [0.0625, 0.75]},
        {"bounds": [[16777216.0], [16777232.0]], "precision": [2.0]},                 # 2^24: float32-exact, far from the origin
    ]
    for desc in descs:
        ref = DeclaredSpace(desc)
        for decl in DECLS:
            if not decl_applicable(desc, decl):
                continue
            n += 1
            try:
                with contextlib.redirect_stdout(io.StringIO()):
                    sp = make_space(desc, {**desc, "decl": decl})
                fails = grid_definition_fails(sp, ref, None, f"{decl} declaration")
            except Exception as e:  # noqa: BLE001
                fails = [f"grid-definition: SearchSpace rejected the {decl} declaration: {type(e).__name__}: {str(e)[:150]}"]
            if fails:
                chk.violation({"kind": "oracle", "clause": "grid-definition", "declaration": decl},
                              {"failed": "oracle:" + fails[0], "case": {"kind": "decl_probe", **desc, "decl": decl}})
    return n


def pso_batch_size_probe(chk):
    """FINDING pso-batch-size-reassigned.  `batch_size` is a public attribute that BaseSampler.sample reads at every call;
    ParticleSwarmSampler sizes its swarm once (nb_particles at construction, positions at the first call) and keeps
    returning that many rows."""
    from black_it.samplers.particle_swarm import ParticleSwarmSampler
    from black_it.search_space import SearchSpace

    sp = SearchSpace([[0.0, -1.0], [1.0, 1.0]], [0.125, 0.25], verbose=False)
    g = sp.param_grid
    n = 0
    for new_bs, when in ((2, "after-set-up"), (5, "after-set-up"), (2, "before-first-call")):
        n += 1
        rng = np.random.default_rng(7)
        pts = np.array([[gg[rng.integers(len(gg))] for gg in g] for _ in range(9)])
        losses = rng.random(9)
        smp = ParticleSwarmSampler(batch_size=3, random_state=1)
        outs = []
        try:
            if when == "before-first-call":
                smp.batch_size = new_bs
            out = smp.sample(sp, pts, losses)
            outs.append((out, new_bs if when == "before-first-call" else 3))
            pts, losses = np.concatenate((pts, out)), np.concatenate((losses, rng.random(len(out))))
            if when == "after-set-up":
                smp.batch_size = new_bs
            out = smp.sample(sp, pts, losses)
            outs.append((out, new_bs))
        except Exception as e:  # noqa: BLE001
            chk.notes.append(f"pso batch_size 3 -> {new_bs} {when}: {type(e).__name__}: {str(e)[:100]}")
            continue
        bad = [(o.shape, want) for o, want in outs if o.shape != (want, 2)]
        if bad:
            chk.violation({"kind": "oracle", "clause": "shape", "class": "pso", "with": "batch_size-reassigned"},
                          {"failed": f"oracle:shape: ParticleSwarmSampler(batch_size=3), batch_size reassigned to {new_bs} {when}: "
                                     f"sample() returned shape {bad[0][0]}, batch_size in force {bad[0][1]}",
                           "case": {"kind": "pso_batch_size_probe", "new_bs": new_bs, "when": when}})
    return n


# ------------------------------------------------------------------ Coq literals
def dyadic_safe(*arrays):
    """All values are multiples of 2^-20 below 2^30: every float subtraction get_closest performs is exact."""
    for a in arrays:
        a = np.asarray(a, dtype=float).ravel()
        if not np.all(np.isfinite(a)) or np.any(np.abs(a) >= 2.0 ** 30):
            return False
        s = a * 2.0 ** 20
        if np.any(s != np.floor(s)):
            return False
    return True


def rows_lit(m):
    return clist([fll([float(x) for x in r]) for r in np.asarray(m, dtype=float)])


def grids_lit(grid):
    return clist([fll([float(x) for x in g]) for g in grid])


def coq_candidates(case, obs, max_cells=700, max_rows=12):
    """(literal, meta) for the recorded sample_batch calls small enough to be shipped to Coq (each with the grid of the space
    that was in force at that call)."""
    res = []
    for b, batch in enumerate(obs["batches"]):
        grid = obs["spaces"][batch["space_i"]].param_grid
        if sum(len(g) for g in grid) > max_cells:
            continue
        for j, c in enumerate(batch["calls"]):
            out = c["snap"]
            if not isinstance(out, np.ndarray) or out.ndim != 2 or out.shape[0] > max_rows or out.shape[0] == 0:
                continue
            if out.dtype != np.float64:
                continue
            if case["cls"] == "uniform":
                rep = replay_uniform(c, grid)
                if rep is None or rep["idx"].shape != out.shape:
                    continue
                idx = clist([clist([cnat(int(i)) for i in row]) for row in rep["idx"]])
                res.append((f"IndexCall {grids_lit(grid)} {idx} {rows_lit(out)}", {"tol": False, "b": b, "j": j}))
            else:
                if not c["digitize"]:
                    continue
                raw = c["digitize"][-1]["raw"]
                if raw.ndim != 2 or raw.shape != out.shape or not np.all(np.isfinite(raw)):
                    continue
                tol = not dyadic_safe(raw, *grid)
                res.append((f"SnapCall {cbool(tol)} {grids_lit(grid)} {rows_lit(raw)} {rows_lit(out)}",
                            {"tol": tol, "b": b, "j": j}))
    return res


# ------------------------------------------------------------------ entry
def describe(case):
    return {k: v for k, v in case.items() if k not in ("new_losses",)}


def describe_cal(case):
    return {k: case.get(k) for k in ("bounds", "precision", "decl", "lineup", "n_jobs", "sim_length", "sessions", "restore_between")
            if case.get(k) is not None}


def summarise_obs(obs):
    return {"error": obs.get("error"), "skipped": obs.get("skipped"),
            "batches": [b["out_copy"].tolist() if isinstance(b["out_copy"], np.ndarray) else repr(b["out_copy"]) for b in obs.get("batches", [])],
            "batch_size_in_force": [b["bs"] for b in obs.get("batches", [])], "space_in_force": [b["space_i"] for b in obs.get("batches", [])],
            "rejected_calls": dict(obs.get("rejected", {})),
            "sample_batch_sizes": [[c["n"] for c in b["calls"]] for b in obs.get("batches", [])]}


def run(chk, replay=None):
    import os

    # harness environment only: xgboost / joblib thread pools cost seconds per call on tiny data
    os.environ["OMP_NUM_THREADS"] = "1"
    os.environ["LOKY_MAX_CPU_COUNT"] = "1"
    chk.proof_gate()
    n_poolval = pool_validation(chk)
    n_poolval += declaration_alias_probe(chk)
    n_poolval += declaration_representation_probe(chk)
    n_poolval += pso_batch_size_probe(chk)
    quick = chk.tier == "quick"
    r = chk.rng
    if replay:
        cases = [json.loads(open(replay).read())["case"]]
        if cases[0].get("kind") not in ("sampler", "calibration"):  # a probe: it has just been re-run above
            cases = []
    else:
        cases = fixed_sampler_cases()
        corpus = chk.case_dir.parents[2] / "corpus" / "C03"
        for f in sorted(corpus.glob("*.json")):
            cases.append(json.loads(f.read_text())["case"])
        n_spaces = 40 if quick else 400
        for kind in ALL9:
            for w in WITNESS_SPACES:  # every class on the witness spaces
                if kind == "cors" and len(w["precision"]) > 2 and quick:
                    continue
                cases.append(gen_sampler_case(r, kind, space_desc={**w, "bounds": [list(w["bounds"][0]), list(w["bounds"][1])],
                                                                 "precision": list(w["precision"])}, wide=False))
            for _ in range(1 if quick else 6):
                cases += lifecycle_cases(r, kind)
            for i in range(n_spaces):
                cases.append(gen_sampler_case(r, kind, wide=(i % 2 == 1)))  # half as before round 4, half with the round-4 dimensions
        v0 = r.below(5)
        cases += [gen_calibration(r, quick, wide=(i % 2 == 1), variant=v0 + i // 2) for i in range(8 if quick else 40)]

    stats = Counter()
    lits, lit_owner = [], []
    per_class_ok = Counter()
    n_eval = n_sb_calls = n_rows = n_redraw_calls = 0
    nontrivial = set()
    keys = set()
    samples = []
    per_class_coq = Counter()
    coq_cap = 45 if quick else 300
    for ci, case in enumerate(cases):
        if case["kind"] == "calibration":
            obs = run_calibration(case)
            stats["calibration:runs"] += 1
            if obs["skipped"] or obs["error"]:
                stats[f"calibration:{'skipped' if obs['skipped'] else 'exception:' + obs['error'].split(':')[0]}"] += 1
                if obs["error"] and len(chk.notes) < 12:
                    chk.notes.append(f"calibration: {obs['error']} ({describe_cal(case)})")
                continue
            stats["calibration:simulations"] += obs["n_sim"]
            for k in ("n_jobs", "sim_length", "sessions", "restore_between", "saving_folder", "convergence_precision", "decl"):
                if case.get(k):
                    stats[f"calibration:with:{k}"] += 1
            n_eval += 1
            if obs["fails"]:
                clause = obs["fails"][0].split(":")[0]
                chk.violation({"kind": "oracle", "clause": clause, "where": "calibration",
                               "classes": sorted({k for k, _ in case["lineup"]})},
                              {"failed": "oracle:" + obs["fails"][0], "all": obs["fails"][:10], "case": case})
            elif obs["n_sim"] != obs["expected_sims"]:
                chk.notes.append(f"calibration ran {obs['n_sim']} simulations, expected {obs['expected_sims']}")
            continue

        kind = case["cls"]
        stats[f"class:{kind}"] += 1
        obs = run_sampler_case(case)
        if obs["space_error"]:
            # every generated declaration is a valid one (lower < upper, 0 < precision <= range): it must be accepted
            chk.violation({"kind": "oracle", "clause": "grid-definition", "declaration": "rejected"},
                          {"failed": "oracle:grid-definition: SearchSpace rejected a valid declaration: " + obs["space_error"],
                           "case": case})
            continue
        if obs["skipped"]:
            stats[f"skipped:{kind}:timeout"] += 1
        if obs["error"]:
            stats[f"exception:{kind}:{obs['error'].split(':')[0]}"] += 1
            if len(chk.notes) < 12:
                chk.notes.append(f"{kind}: {obs['error']} on space {case['bounds']} / {case['precision']}"
                                 + (f" script {[s_['op'] for s_ in case['script']]}" if case.get("script") else ""))
        if not obs["batches"]:
            continue
        # every batch that WAS returned is judged, also when a later step of the case raised or timed out
        if not (obs["error"] or obs["skipped"]):
            per_class_ok[kind] += 1
        n_eval += len(obs["batches"])
        stats[f"space:{case['space_tag']}"] += 1
        stats[f"dims:{len(case['precision'])}"] += 1
        stats[f"calls:{len(obs['batches'])}"] += 1
        for k in ("decl", "hist_repr", "loss_repr"):
            if case.get(k):
                stats[f"{k}:{case[k]}"] += 1
        if case.get("decl_scribble"):
            stats["decl:arrays-reused-by-caller"] += 1
        if case.get("space_verbose"):
            stats["space:verbose"] += 1
        if case.get("script"):
            stats["scripted"] += 1
            for st in case["script"]:
                if st["op"] == "set":
                    stats[f"step:set:{st['attr']}"] += 1
                elif st["op"] == "space":
                    stats["step:space:" + ("back" if st.get("index") is not None else
                                           "same-dims" if len(st["space"]["precision"]) == len(case["precision"]) else "other-dims")] += 1
                elif st["op"] != "sample":
                    stats[f"step:{st['op']}"] += 1
        for k, v in obs["rejected"].items():
            stats[f"rejected-call:{k}"] += v
        if len(obs["spaces"]) > 1:
            stats["sampler-used-on-several-spaces"] += 1
        if any(sum(len(g) for g in sp.param_grid) and math.prod(len(g) for g in sp.param_grid) >= 2 ** 63 for sp in obs["spaces"]):
            stats["space:>=2^63-points"] += 1
        redraws = sum(max(0, len(b["calls"]) - 1) for b in obs["batches"])
        n_redraw_calls += redraws
        if redraws:
            stats["sample()-with-dedup-redraws"] += 1
        for b in obs["batches"]:
            n_sb_calls += len(b["calls"])
            if isinstance(b["out"], np.ndarray):
                n_rows += len(b["out"])
        key = json.dumps([kind, case["bounds"], case["precision"], case["hist_idx"], case["seed"], case["bs"]])
        keys.add(key)
        # non-trivial: some raw value given to the final snap was NOT already a grid element (the snap mattered),
        # or (uniform) the batch contains >= 2 distinct grid indices in some column
        nt = False
        for c in obs["sb_log"]:
            if kind == "uniform":
                o = c["snap"]
                nt = nt or (isinstance(o, np.ndarray) and o.ndim == 2 and any(len(set(o[:, k])) > 1 for k in range(o.shape[1])))
            elif c["digitize"]:
                d = c["digitize"][-1]
                if isinstance(d["out"], np.ndarray) and d["raw"].shape == d["out"].shape and d["out_bytes"] is not None:
                    nt = nt or bool(np.any(d["raw"] != np.frombuffer(d["out_bytes"], dtype=d["out"].dtype).reshape(d["raw"].shape)))
        if nt:
            nontrivial.add(key)
            stats[f"snap-mattered:{kind}"] += 1
        fails = oracle_sampler_case(case, obs)
        ties = tie_checks(case, obs)
        if fails:
            clause = fails[0].split(":")[0]
            desc = {"kind": "oracle", "clause": clause, "class": kind}
            pool = case.get("opts", {}).get("pool")
            if pool is not None and pool < case["bs"]:
                desc["option"] = "candidate_pool_size<batch_size"
            chk.violation(desc,
                          {"failed": "oracle:" + fails[0], "all": fails[:10], "tie_failures": ties[:5], "case": case,
                           "observed": summarise_obs(obs)})
        elif ties:
            chk.violation({"kind": "correspondence", "name": "structural-tie", "class": kind},
                          {"failed": "correspondence:structural tie of Model/Samplers.v (" + ties[0] + "); the property "
                                     "oracle found no failing input", "all": ties[:10], "case": case,
                           "observed": summarise_obs(obs)}, no_input=True)
        if per_class_coq[kind] < coq_cap or replay:
            for lit, meta in coq_candidates(case, obs):
                if per_class_coq[kind] >= coq_cap and not replay:
                    break
                per_class_coq[kind] += 1
                lits.append(lit)
                lit_owner.append((ci, meta, bool(fails)))
        if len(samples) < 4 and ci % max(1, len(cases) // 4) == 0 and len(json.dumps(case)) < 3000:
            samples.append({"case": describe(case), "observed": summarise_obs(obs)})

    # the model's digitize / indexing is what ran
    bad, errors = chk.coq_mismatches("C03", IMPORTS, "check_case", CASE_T, lits, shard=40, preamble=PREAMBLE) if lits else ([], [])
    tol_idx = [i for i, (_, m, _) in enumerate(lit_owner) if m["tol"]]
    strict_bad, strict_err = (chk.coq_mismatches("C03strict", IMPORTS, "check_case_strict", CASE_T, [lits[i] for i in tol_idx],
                                                 shard=40, preamble=PREAMBLE) if tol_idx else ([], []))
    badset = set(bad)
    slack_used = [tol_idx[k] for k in strict_bad if tol_idx[k] not in badset]
    for i in bad:
        ci, meta, oracle_failed = lit_owner[i]
        if oracle_failed:
            continue
        case = cases[ci]
        chk.violation({"kind": "correspondence", "name": "snap_rowsQ" if case["cls"] != "uniform" else "index_rowsQ",
                       "class": case["cls"]},
                      {"failed": "correspondence:Samplers (the array returned by sample_batch is not what the Coq model of the "
                                 "last step computes from the recorded raw matrix / indices; the property oracle found no "
                                 "failing input)", "case": case, "call": meta, "coq_case": lits[i][:4000]}, no_input=True)
    for e in errors + strict_err:
        chk.violation({"kind": "correspondence", "name": "coqc"}, {"failed": "correspondence:coqc", "detail": e}, no_input=True)
    if not replay:
        for kind in ALL9:
            if per_class_ok[kind] == 0:
                chk.violation({"kind": "correspondence", "name": "vacuous", "class": kind},
                              {"failed": f"correspondence:no case of class {kind} ran to completion (all raised or timed out); "
                                         "the check would be vacuous for it", "detail": dict(stats)}, no_input=True)

    cov = {
        "evaluations": n_eval,
        "sampler_cases": sum(per_class_ok.values()),
        "sample_batch_calls_tied": n_sb_calls,
        "dedup_redraw_calls": n_redraw_calls,
        "rows_checked": n_rows,
        "distinct": len(keys),
        "distinct_nontrivial": len(nontrivial),
        "rule": "one evaluation = one sample() call of a real built-in sampler (or one real Calibrator run) checked by the "
                "direct oracle against the space as declared and the batch size in force at that call, with every sample_batch "
                "call inside it checked by the structural tie; distinct = distinct "
                "(class, space, history, seed, batch size); non-trivial = the final snap changed at least one raw value "
                "(raw != returned somewhere; for the uniform sampler: a column with >= 2 distinct drawn elements)",
        "samples": samples,
        "traces_validated_against_impl": len(lits) - len(bad),
        "coq_replayed_calls": len(lits),
        "coq_replayed_per_class": dict(per_class_coq),
        "model_impl_disagreements": len(bad),
        "tolerant_cases": len(tol_idx),
        "tolerant_cases_where_slack_was_needed": len(slack_used),
        "per_class_completed": dict(per_class_ok),
        "bounds_clause": dict(BOUNDS_STATS),
        "probes_run": n_poolval,
        "distribution": dict(sorted(stats.items())),
    }
    return chk.finish(
        cov,
        assumptions=[
            "what precedes the last step of sample_batch is arbitrary but produces a (k x dims) matrix (numpy shape contract; "
            "k = requested size for the row-count clause) - hypotheses raw_width_ok / raw_rows_ok of C03_main",
            "Generator.choice(params, size=n) returns params[idx] with 0 <= idx < len(params) (checked each run by replaying "
            "Generator.integers on a copy of the generator state) - hypothesis idx_ok",
            "every grid is non-empty (SearchSpace validation: precision <= range gives >= 2 elements; property C15)",
            "one object reconfigured between calls: the contracts above hold for whatever space is in force at a call "
            "(hypothesis contracts_any_space of C03_main_reconfigured); a failed call may leave any internal state",
            "the declared space is numpy's arange(lower, upper + 1e-7, precision) on the float64 values of the declaration "
            "(reference of the grid-definition clause; numpy's arange itself is trusted here, it is C15's subject)",
            "coordinates are compared by float ==; sample() moves rows (fancy-index assignment) without arithmetic (C12)",
            "the precision grid is the exact-rational arange of C15's model for the bounds clause (C03_grid_within_bounds); "
            "float rounding of arange itself is C15's subject, the oracle allows 4*len(grid) ulp on the bounds clause only",
        ],
        trusted=["modelled, not verified: numpy fancy indexing / slice assignment in BaseSampler.sample; Python object identity "
                 "as evidence that the returned array is the one digitize_data produced",
                 "get_closest / digitize_data are tied to Model/Snap.v by C17 and replayed here on the recorded calls"],
    )
