"""C03 - every proposed parameter vector belongs to the declared search space.

Model: coq/Model/Samplers.v (on top of Model/Snap.v and Model/Dedup.v)   Theorems: coq/Properties/C03.v

Correspondence (the model's claim is "sample_batch returns digitize_data(<anything>, search_space.param_grid)" for eight
classes and "indexes the grid" for RandomUniformSampler; sample() only moves rows returned by sample_batch):
  * STRUCTURAL tie, on every sample_batch call of every built-in sampler: `digitize_data` is replaced in the namespace of
    halton / r_sequence / particle_swarm / surrogate / cors / best_batch by a recording wrapper; the array returned by
    sample_batch must BE the array the wrapper returned last (same object, same bytes), its grid argument must BE
    search_space.param_grid, raw must have the batch shape;
  * RandomUniformSampler: the returned array must equal grid[c][idx] for the indices its generator draws (replayed on a copy
    of the generator state taken before the call);
  * every row returned by sample() is, bit for bit, a row returned by one of the sample_batch calls made during that sample();
  * a sample of the recorded (raw, grids, returned) triples is replayed through the Coq model (snap_rowsQ = digitizeQ /
    index_rowsQ) with C17's comparison rules (exact on small dyadics, one-sided 2^-50 slack on generic floats).
Direct oracle (independent of the model): every coordinate of every row returned by sample() == an element of that
parameter's grid, shape (batch_size, dims), float64, lower <= v <= upper + 1e-7; the user's model function of short real
Calibrator runs only ever receives such vectors.
"""
from __future__ import annotations

import contextlib
import copy
import io
import json
import math
import signal
from collections import Counter

import numpy as np

from common import cbool, clist, cnat
from props.c17 import fl, fll
from props.real_lineups import ALL9, make_sampler

IMPORTS = ("From Coq Require Import List ZArith QArith Floats.\nFrom BlackIt Require Import Model.Snap.\n"
           "From BlackIt Require Import Model.Samplers.")
PREAMBLE = "Open Scope float_scope."
CASE_T = "ccase"

SNAP_MODULES = {
    "halton": "black_it.samplers.halton", "rseq": "black_it.samplers.r_sequence", "pso": "black_it.samplers.particle_swarm",
    "cors": "black_it.samplers.cors", "bestbatch": "black_it.samplers.best_batch", "rf": "black_it.samplers.surrogate",
    "xgb": "black_it.samplers.surrogate", "gp": "black_it.samplers.surrogate",
}
FIXED_BUDGET = {"pso", "cors"}  # max_deduplication_passes hard-wired to 0 by the constructor
NEEDS_HISTORY = {"bestbatch", "cors", "rf", "xgb", "gp"}
EXPENSIVE = {"cors", "gp", "rf", "xgb"}
CASE_TIMEOUT_S = 60
END_TOL = 0.0000001


class CaseTimeout(Exception):
    pass


def _alarm(_sig, _frm):
    raise CaseTimeout


# ------------------------------------------------------------------ instrumentation
class Recorder:
    """Recording wrapper put in place of `digitize_data` in the sampler modules."""

    def __init__(self):
        self.calls = []

    def wrap(self, real):
        def digitize_data(data, param_grid):
            out = real(data, param_grid)
            self.calls.append({"raw": np.array(data, dtype=float, copy=True), "grid": param_grid, "out": out,
                               "out_bytes": out.tobytes() if isinstance(out, np.ndarray) else None})
            return out

        return digitize_data


@contextlib.contextmanager
def patched_digitize(rec):
    import importlib

    from black_it.utils import base as ubase

    saved = []
    for name in sorted(set(SNAP_MODULES.values())):
        mod = importlib.import_module(name)
        had = hasattr(mod, "digitize_data")
        orig = getattr(mod, "digitize_data", ubase.digitize_data)
        saved.append((mod, had, orig))
        mod.digitize_data = rec.wrap(orig)
    try:
        yield
    finally:
        for mod, had, orig in saved:
            if had:
                mod.digitize_data = orig
            else:
                del mod.digitize_data


def instrument(sampler, rec, log):
    """Wrap the instance's sample_batch: logs every call with the digitize_data calls made inside it."""
    inner = sampler.sample_batch

    def sample_batch(batch_size, search_space, existing_points, existing_losses):
        n0 = len(rec.calls)
        try:
            state = copy.deepcopy(sampler.random_generator.bit_generator.state)
            bitgen = type(sampler.random_generator.bit_generator)
        except Exception:  # noqa: BLE001
            state, bitgen = None, None
        out = inner(batch_size, search_space, existing_points, existing_losses)
        log.append({"n": int(batch_size), "space": search_space, "digitize": rec.calls[n0:], "out": out,
                    "out_bytes": out.tobytes() if isinstance(out, np.ndarray) else None,
                    "snap": out.copy() if isinstance(out, np.ndarray) else None,  # sample() later writes redraws into `out`
                    "rng_state": state, "bitgen": bitgen})
        return out

    sampler.sample_batch = sample_batch


# ------------------------------------------------------------------ building the objects of a case
def make_space(case):
    from black_it.search_space import SearchSpace

    return SearchSpace(case["bounds"], case["precision"], verbose=False)


def build_sampler(case):
    kind, bs, seed, opts = case["cls"], case["bs"], case["seed"], case.get("opts", {})
    if kind == "pso" and opts:
        from black_it.samplers.particle_swarm import ParticleSwarmSampler

        s = ParticleSwarmSampler(batch_size=bs, random_state=seed, inertia=opts.get("inertia", 0.9), c1=opts.get("c1", 0.1),
                                 c2=opts.get("c2", 0.1), global_minimum_across_samplers=opts.get("global", False))
    elif kind == "bestbatch" and opts:
        from black_it.samplers.best_batch import BestBatchSampler

        s = BestBatchSampler(batch_size=bs, random_state=seed, a=opts.get("a", 3.0), b=opts.get("b", 1.0),
                             perturbation_range=opts.get("range", 6))
    elif kind == "cors" and opts:
        from black_it.samplers.cors import CORSSampler

        s = CORSSampler(batch_size=bs, max_samples=opts.get("max_samples", 40), rho0=opts.get("rho0", 0.5),
                        p=opts.get("p", 1.0), random_state=seed)
    elif kind in ("rf", "xgb", "gp") and opts.get("pool") is not None:
        from black_it.samplers.gaussian_process import GaussianProcessSampler
        from black_it.samplers.random_forest import RandomForestSampler
        from black_it.samplers.xgboost import XGBoostSampler

        if kind == "rf":
            s = RandomForestSampler(batch_size=bs, random_state=seed, candidate_pool_size=opts["pool"], n_estimators=4, n_classes=2)
        elif kind == "xgb":
            s = XGBoostSampler(batch_size=bs, random_state=seed, candidate_pool_size=opts["pool"], n_estimators=2, max_depth=2)
        else:
            s = GaussianProcessSampler(batch_size=bs, random_state=seed, candidate_pool_size=opts["pool"], optimize_restarts=1)
    else:
        s = make_sampler(kind, bs, seed)
    if kind not in FIXED_BUDGET and case.get("budget") is not None:
        s.max_deduplication_passes = case["budget"]
    return s


def history_of(case, space):
    grid = space.param_grid
    pts = np.array([[grid[c][i] for c, i in enumerate(row)] for row in case["hist_idx"]], dtype=float)
    pts = pts.reshape(len(case["hist_idx"]), space.dims)
    return pts, np.array(case["losses"], dtype=float)


# ------------------------------------------------------------------ implementation driver (one sampler case)
def run_sampler_case(case):
    obs = {"error": None, "skipped": None, "calls": [], "tie_failures": [], "batches": [], "sb_log": []}
    rec, log = Recorder(), []
    old = signal.signal(signal.SIGALRM, _alarm)
    signal.alarm(CASE_TIMEOUT_S)
    try:
        space = make_space(case)
        pts, losses = history_of(case, space)
        with patched_digitize(rec), contextlib.redirect_stdout(io.StringIO()), np.errstate(all="ignore"):
            smp = build_sampler(case)
            instrument(smp, rec, log)
            for k in range(case["ncalls"]):
                k0 = len(log)
                grid_before = [g.tobytes() for g in space.param_grid]
                out = smp.sample(space, pts, losses)
                calls = log[k0:]
                obs["batches"].append({"out": out, "calls": calls, "hist_len": len(pts),
                                       "grid_untouched": grid_before == [g.tobytes() for g in space.param_grid]})
                if case["append"][k] and isinstance(out, np.ndarray) and out.ndim == 2 and out.shape[1] == space.dims:
                    pts = np.concatenate((pts, out))
                    losses = np.concatenate((losses, np.array(case["new_losses"][k][: len(out)], dtype=float)))
        obs["space"] = space
        obs["sb_log"] = log
    except CaseTimeout:
        obs["skipped"] = "timeout"
    except Exception as e:  # noqa: BLE001
        obs["error"] = f"{type(e).__name__}: {str(e)[:200]}"
    finally:
        signal.alarm(0)
        signal.signal(signal.SIGALRM, old)
    return obs


# ------------------------------------------------------------------ structural tie
def tie_checks(case, obs):
    """The model's structural claims on every recorded sample_batch call.  Returns failure strings."""
    fails = []
    space = obs["space"]
    grid = space.param_grid
    snapping = case["cls"] != "uniform"
    for b, batch in enumerate(obs["batches"]):
        rows_available = []
        for j, c in enumerate(batch["calls"]):
            where = f"sample() #{b}, sample_batch call #{j} (batch_size={c['n']})"
            out = c["out"]
            if not isinstance(out, np.ndarray):
                fails.append(f"{where}: returned {type(out).__name__}, not an array")
                continue
            snap = c["snap"]  # the array as it was when sample_batch returned
            if out.ndim == 2:
                rows_available += [r.tobytes() for r in snap]
            if c["space"] is not space:
                fails.append(f"{where}: called with a different search space object")
            if snapping:
                if not c["digitize"]:
                    fails.append(f"{where}: digitize_data was not called (return value is not a snapped array)")
                    continue
                last = c["digitize"][-1]
                if out is not last["out"]:
                    fails.append(f"{where}: the returned array is not the array the last digitize_data call returned")
                elif c["out_bytes"] != last["out_bytes"]:
                    fails.append(f"{where}: the array returned by digitize_data was modified before being returned")
                if last["grid"] is not grid:
                    fails.append(f"{where}: digitize_data was given a grid that is not search_space.param_grid")
                if last["raw"].ndim != 2 or last["raw"].shape[1] != space.dims:
                    fails.append(f"{where}: raw matrix of shape {last['raw'].shape} for {space.dims} parameters")
            else:
                exp = replay_uniform(c, grid)
                if exp is None:
                    fails.append(f"{where}: generator state could not be replayed")
                elif exp["values"].shape != snap.shape or exp["values"].tobytes() != c["out_bytes"]:
                    fails.append(f"{where}: returned array is not param_grid[c][rng.integers(0, len, size)] column by column")
        out = batch["out"]
        if isinstance(out, np.ndarray) and out.ndim == 2:
            avail = set(rows_available)
            for r, row in enumerate(out):
                if row.tobytes() not in avail:
                    fails.append(f"sample() #{b}: returned row {r} was not returned by any sample_batch call of that sample()")
                    break
        if not batch["grid_untouched"]:
            fails.append(f"sample() #{b}: search_space.param_grid was modified")
    return fails


def replay_uniform(call, grid):
    """Indices RandomUniformSampler.sample_batch draws, replayed on a copy of the generator state before the call."""
    if call["rng_state"] is None:
        return None
    g = np.random.Generator(call["bitgen"]())
    g.bit_generator.state = call["rng_state"]
    n = call["n"]
    idx = np.zeros((n, len(grid)), dtype=np.int64)
    vals = np.zeros((n, len(grid)))
    for c, params in enumerate(grid):
        idx[:, c] = g.integers(0, len(params), size=(n,))
        vals[:, c] = params[idx[:, c]]
    return {"idx": idx, "values": vals}


# ------------------------------------------------------------------ direct oracle (the property itself)
def grid_sets(space):
    return [set(float(x) for x in g) for g in space.param_grid]


def oracle_batch(out, bs, space, gsets, what):
    """Property statement on one returned batch.  Returns failure strings (first offending cell only per clause)."""
    fails = []
    dims = space.dims
    if not isinstance(out, np.ndarray):
        return [f"shape: {what} returned {type(out).__name__}"]
    if out.shape != (bs, dims):
        fails.append(f"shape: {what} returned shape {tuple(out.shape)}, expected {(bs, dims)}")
    if out.dtype != np.float64:
        fails.append(f"shape: {what} returned dtype {out.dtype}")
    if out.ndim != 2 or out.shape[1] != dims:
        return fails
    lo, hi = space.parameters_bounds[0], space.parameters_bounds[1]
    for r in range(out.shape[0]):
        for c in range(dims):
            v = float(out[r, c])
            if v not in gsets[c] or math.isnan(v):
                near = float(space.param_grid[c][np.argmin(np.abs(space.param_grid[c] - v))]) if not math.isnan(v) else None
                fails.append(f"membership: {what} row {r} parameter {c}: {v!r} ({v.hex() if not math.isnan(v) else 'nan'}) is not "
                             f"an element of the grid (nearest element {near!r})")
                return fails
            n = len(space.param_grid[c])
            slack = 4 * n * math.ulp(max(abs(float(lo[c])), abs(float(hi[c])), END_TOL))
            if not (float(lo[c]) - slack <= v <= float(hi[c]) + END_TOL + slack):
                fails.append(f"bounds: {what} row {r} parameter {c}: {v!r} outside [{float(lo[c])!r}, {float(hi[c])!r} + 1e-7]")
                return fails
    return fails


def oracle_sampler_case(case, obs):
    fails = []
    space = obs["space"]
    gsets = grid_sets(space)
    for b, batch in enumerate(obs["batches"]):
        fails += oracle_batch(batch["out"], case["bs"], space, gsets, f"sample() #{b}")
    return fails


# ------------------------------------------------------------------ calibrations: the model is never simulated off the space
def run_calibration(case):
    from black_it.calibrator import Calibrator
    from black_it.loss_functions.minkowski import MinkowskiLoss

    obs = {"error": None, "skipped": None, "thetas": [], "fails": []}
    thetas = []

    def model(theta, N, seed):  # noqa: N803
        thetas.append(np.array(theta, dtype=float, copy=True))
        rng = np.random.default_rng(seed)
        t = np.asarray(theta, dtype=float)
        return (np.tanh(t).sum() + 0.1 * rng.standard_normal((N, 1)))

    old = signal.signal(signal.SIGALRM, _alarm)
    signal.alarm(3 * CASE_TIMEOUT_S)
    try:
        with contextlib.redirect_stdout(io.StringIO()), np.errstate(all="ignore"):
            samplers = [make_sampler(k, bs, 100 + i) for i, (k, bs) in enumerate(case["lineup"])]
            real = model(case["true_theta"], 12, 4242)
            thetas.clear()
            cal = Calibrator(loss_function=MinkowskiLoss(), real_data=real, model=model, parameters_bounds=case["bounds"],
                             parameters_precision=case["precision"], ensemble_size=case["ensemble"], samplers=samplers,
                             convergence_precision=None, verbose=False, saving_folder=None, random_state=case["seed"], n_jobs=1)
            cal.calibrate(case["nbatches"])
        space = cal.param_grid
        gsets = grid_sets(space)
        arr = np.array(thetas).reshape(len(thetas), space.dims) if thetas else np.zeros((0, space.dims))
        obs["n_sim"] = len(thetas)
        obs["fails"] += oracle_batch(arr, len(thetas), space, gsets, "model(theta) arguments")
        obs["fails"] += oracle_batch(cal.params_samp, len(cal.params_samp), space, gsets, "calibrator.params_samp")
        want = sum(case["lineup"][i % len(case["lineup"])][1] for i in range(case["nbatches"])) * case["ensemble"]
        obs["expected_sims"] = want
    except CaseTimeout:
        obs["skipped"] = "timeout"
    except Exception as e:  # noqa: BLE001
        obs["error"] = f"{type(e).__name__}: {str(e)[:200]}"
    finally:
        signal.alarm(0)
        signal.signal(signal.SIGALRM, old)
    return obs


# ------------------------------------------------------------------ generators
def nice(x):
    """Shorten a float to ~6 significant digits (keeps literals readable; still an arbitrary float64)."""
    return float(f"{x:.6g}")


def gen_param(rng, flavour):
    """(lower, upper, precision, tag) of one parameter."""
    if flavour == "dyadic":
        s = rng.choice([0, 1, 2, 3, 4])
        step = 2.0 ** -s * rng.choice([1, 1, 2, 3])
        npts = rng.randint(2, 40)
        lo = step * rng.randint(-40, 20)
        return lo, lo + step * (npts - 1), step, "dyadic"
    if flavour == "tiny":
        npts = rng.randint(2, 4)
        step = rng.choice([0.3, 0.5, 1.0, 0.25, 0.1])
        lo = rng.choice([0.0, -1.0, 1.0, -0.5])
        hi = nice(lo + step * (npts - 1) + rng.choice([0.0, 0.0, 0.4 * step]))
        while not step <= hi - lo:  # float rounding of the range (e.g. -0.9 - -1.0 < 0.1) would make the spec invalid
            hi = float(np.nextafter(hi, np.inf))
        return lo, hi, step, "tiny"
    scale = 10.0 ** rng.randint(-6, 6)
    sign = rng.choice(["pos", "neg", "straddle", "zero-lo", "zero-hi", "offset"])
    width = scale * rng.uniform(0.2, 2.0)
    if sign == "pos":
        lo = scale * rng.uniform(0.0, 1.0)
    elif sign == "neg":
        lo = -scale * rng.uniform(0.0, 1.0) - width
    elif sign == "straddle":
        lo = -width * rng.uniform(0.1, 0.9)
    elif sign == "zero-lo":
        lo = 0.0
    elif sign == "zero-hi":
        lo = -width
    else:
        lo = rng.choice([-1.0, 1.0]) * width * rng.randint(10, 1000)
    lo = nice(lo)
    hi = nice(lo + width)
    if sign == "zero-hi":
        hi = 0.0
    if not hi > lo:
        hi = lo + scale
    rngw = hi - lo
    k = rng.below(10)
    npts = rng.randint(2, 12) if k < 4 else rng.randint(13, 120) if k < 8 else rng.randint(121, 1500)
    if rng.below(2) == 0:  # precision "divides" the range
        prec = rngw / npts
        tag = "divides"
        if rng.below(2) == 0:
            prec = nice(prec)
            tag = "divides-rounded"
    else:
        prec = nice(rngw / (npts + rng.uniform(0.05, 0.95)))
        tag = "not-dividing"
    if not (0 < prec <= rngw):
        prec = rngw / 2
    return lo, hi, prec, f"{tag}/{sign}"


WITNESS_SPACES = [
    {"bounds": [[0.0], [1.0]], "precision": [0.1], "tag": "witness:aligned-0.1"},          # arange(0, 1.0000001, 0.1)
    {"bounds": [[0.0], [1.0]], "precision": [0.3], "tag": "witness:non-aligned-0.3"},      # {0, .3, .6, .9}
    {"bounds": [[0.0, 0.0], [1.0, 1.0]], "precision": [0.1, 0.3], "tag": "witness:both"},
    {"bounds": [[0.0, -1.0, 5.0], [1.0, 1.0, 6.0]], "precision": [0.01, 0.3, 0.07], "tag": "witness:mixed"},
]


def gen_space(rng, max_dims=6):
    k = rng.below(20)
    if k < 2:
        w = rng.choice(WITNESS_SPACES)
        return {"bounds": [list(w["bounds"][0]), list(w["bounds"][1])], "precision": list(w["precision"]), "tag": w["tag"]}
    flavour = "dyadic" if k < 5 else "tiny" if k < 8 else "generic"
    dims = rng.randint(1, 2) if flavour == "tiny" else rng.randint(1, max_dims)
    lo, hi, pr, tags = [], [], [], []
    for _ in range(dims):
        a, b, p, t = gen_param(rng, flavour)
        lo.append(a)
        hi.append(b)
        pr.append(p)
        tags.append(t)
    return {"bounds": [lo, hi], "precision": pr, "tag": flavour}


def grid_lengths(space_desc):
    return [len(np.arange(lo, hi + END_TOL, p, dtype=np.float64))
            for lo, hi, p in zip(space_desc["bounds"][0], space_desc["bounds"][1], space_desc["precision"])]


def gen_losses(rng, n):
    mode = rng.below(4)
    if mode == 0:  # heavy ties
        pool = [rng.choice([0.5, 1.0, 2.0]) for _ in range(2)]
        return [rng.choice(pool) for _ in range(n)]
    if mode == 1:  # some ties
        base = [nice(rng.uniform(0.01, 10.0)) for _ in range(max(1, n // 2))]
        return [rng.choice(base) for _ in range(n)]
    if mode == 2:
        sc = 10.0 ** rng.randint(-8, 8)
        return [sc * rng.uniform(0.1, 1.0) for _ in range(n)]
    return [rng.uniform(0.01, 5.0) for _ in range(n)]


def gen_sampler_case(rng, kind, space_desc=None):
    expensive = kind in EXPENSIVE
    sp = space_desc or gen_space(rng, max_dims=4 if kind == "cors" else 6)
    lens = grid_lengths(sp)
    dims = len(lens)
    bs = rng.randint(1, 3) if kind == "cors" else rng.randint(1, 4) if expensive else rng.randint(1, 8)
    extra = rng.randint(0, 6) if expensive else rng.choice([0, 0, 1, 3, 8, 20])
    nh = bs + extra if (kind in NEEDS_HISTORY or rng.below(3) > 0) else rng.choice([0, 0, 1])
    if kind in NEEDS_HISTORY:
        nh = max(nh, 2)
    if kind == "pso":
        nh = max(nh, 1)  # the second call takes argmin of the losses
    hist_idx = [[rng.below(n) for n in lens] for _ in range(nh)]
    if kind == "gp":  # a repeated history point makes sklearn's kernel matrix singular (LinAlgError, not a C03 matter)
        seen, uniq = set(), []
        for row in hist_idx:
            if tuple(row) not in seen:
                seen.add(tuple(row))
                uniq.append(row)
        hist_idx, nh = uniq, len(uniq)
    elif nh >= 2 and rng.below(4) == 0:  # a repeated point in the history
        hist_idx[rng.below(nh)] = list(hist_idx[rng.below(nh)])
    ncalls = rng.randint(1, 2) if kind in ("cors", "gp") else rng.randint(1, 4)
    case = {
        "kind": "sampler", "cls": kind, "bounds": sp["bounds"], "precision": sp["precision"], "space_tag": sp["tag"],
        "bs": bs, "seed": rng.below(2 ** 31), "budget": rng.choice([None, 0, 1, 2, 5]), "opts": {},
        "hist_idx": hist_idx, "losses": gen_losses(rng, nh), "ncalls": ncalls,
        "append": [rng.below(3) > 0 for _ in range(ncalls)],
        "new_losses": [gen_losses(rng, bs) for _ in range(ncalls)],
    }
    if kind == "pso" and rng.below(2):
        case["opts"] = {"inertia": rng.choice([0.0, 0.5, 0.9, 2.0]), "c1": rng.choice([0.0, 0.1, 1.5]),
                        "c2": rng.choice([0.0, 0.1, 1.5]), "global": bool(rng.below(2))}
    if kind == "bestbatch" and rng.below(2):
        case["opts"] = {"a": rng.choice([0.5, 1.0, 3.0]), "b": rng.choice([0.5, 1.0, 3.0]), "range": rng.choice([2, 3, 6, 20])}
    if kind == "cors" and rng.below(2):
        case["opts"] = {"max_samples": rng.choice([20, 40, 200]), "rho0": rng.choice([0.1, 0.5, 1.0]), "p": rng.choice([0.5, 1.0, 2.0])}
    return case


def fixed_sampler_cases():
    """The BestBatch witnesses of the repaired defect, always run, plus each class on the witness spaces."""
    cases = []
    # aligned grid: parents on 0.1 .. 0.9, shifts of whole steps accumulate float error (0.5 + 0.1 != 6*0.1)
    for seed in range(6):
        cases.append({"kind": "sampler", "cls": "bestbatch", "bounds": [[0.0], [1.0]], "precision": [0.1],
                      "space_tag": "witness:aligned-0.1", "bs": 4, "seed": seed, "budget": 0, "opts": {},
                      "hist_idx": [[5], [4], [7], [2], [9], [1]], "losses": [0.1, 0.2, 0.3, 0.4, 0.5, 0.6], "ncalls": 3,
                      "append": [True, True, True], "new_losses": [[0.05, 0.06, 0.07, 0.08]] * 3})
        # non-aligned upper bound: clipping to 1.0 leaves {0, .3, .6, .9}
        cases.append({"kind": "sampler", "cls": "bestbatch", "bounds": [[0.0], [1.0]], "precision": [0.3],
                      "space_tag": "witness:non-aligned-0.3", "bs": 3, "seed": seed, "budget": 0, "opts": {},
                      "hist_idx": [[3], [3], [2], [0]], "losses": [0.1, 0.1, 0.3, 0.4], "ncalls": 2,
                      "append": [False, True], "new_losses": [[0.05, 0.06, 0.07]] * 2})
    # boundary of the admissible options: a candidate pool exactly as large as the batch (a smaller pool used to return
    # `pool` rows instead of `batch_size` rows; since the repair b8551a2 the constructor rejects it - see pool_validation)
    for kind in ("xgb", "rf", "gp"):
        cases.append({"kind": "sampler", "cls": kind, "bounds": [[0.0], [1.0]], "precision": [0.1],
                      "space_tag": "probe:pool=batch", "bs": 4, "seed": 1, "budget": 0, "opts": {"pool": 4},
                      "hist_idx": [[0], [5], [7], [2], [9]], "losses": [1.0, 2.0, 3.0, 0.5, 0.7], "ncalls": 1,
                      "append": [False], "new_losses": [[0.1, 0.2, 0.3, 0.4]]})
    return cases


def pool_validation(chk):
    """candidate_pool_size < batch_size is not an admissible option: it must be rejected, never silently shorten a batch."""
    from black_it.samplers.gaussian_process import GaussianProcessSampler
    from black_it.samplers.random_forest import RandomForestSampler
    from black_it.samplers.xgboost import XGBoostSampler

    n = 0
    for cls in (RandomForestSampler, XGBoostSampler, GaussianProcessSampler):
        for bs, pool in ((4, 2), (2, 1), (3, 0)):
            n += 1
            try:
                cls(batch_size=bs, candidate_pool_size=pool)
            except ValueError:
                continue
            chk.violation({"kind": "oracle", "clause": "shape", "option": "candidate_pool_size<batch_size"},
                          {"failed": "oracle:shape", "detail": f"{cls.__name__}(batch_size={bs}, candidate_pool_size={pool}) is accepted and "
                           "returns fewer rows than batch_size", "case": {"kind": "pool_validation", "cls": cls.__name__, "bs": bs, "pool": pool}})
    return n


def declaration_alias_probe(chk):
    """The declared space is the one given at construction: arrays the caller passed and later reuses (writes into) must not
    change the grid, whether or not anything has sampled from the space yet."""
    from black_it.samplers.halton import HaltonSampler
    from black_it.samplers.random_uniform import RandomUniformSampler
    from black_it.search_space import SearchSpace

    rng = chk.rng
    n = 0
    for as_array in (True, False):
        for verbose in (False, True):
            for _ in range(3):
                lo, hi, pr = [0.0, -1.0], [1.0, 1.0], [0.1, 0.25]
                b = np.array([lo, hi]) if as_array else [list(lo), list(hi)]
                p = np.array(pr) if as_array else list(pr)
                with contextlib.redirect_stdout(io.StringIO()):
                    sp = SearchSpace(b, p, verbose)
                    control = SearchSpace([list(lo), list(hi)], list(pr), False)
                # the caller reuses its arrays for something else
                if as_array:
                    b[:] = [[40.0, 40.0], [50.0, 50.0]]
                    p[:] = [2.5, 2.5]
                else:
                    b[0][:], b[1][:] = [40.0, 40.0], [50.0, 50.0]
                    p[:] = [2.5, 2.5]
                n += 1
                seed = rng.below(2**31)
                pts = np.vstack([RandomUniformSampler(4, random_state=seed).sample(sp, np.zeros((0, 2)), np.zeros(0)),
                                 HaltonSampler(4, random_state=seed).sample(sp, np.zeros((0, 2)), np.zeros(0))])
                off = [(float(v), c) for row in pts for c, v in enumerate(row) if not np.any(control.param_grid[c] == v)]
                if off or any(len(a) != len(g) or (a != g).any() for a, g in zip(sp.param_grid, control.param_grid)):
                    chk.violation({"kind": "oracle", "clause": "membership", "with": "declaration-arrays-reused"},
                                  {"failed": "oracle:membership", "detail": f"space declared as bounds {lo}..{hi} precision {pr} "
                                   f"({'ndarray' if as_array else 'list'} inputs, verbose={verbose}); after the caller reused its arrays the "
                                   f"samplers propose {off[:3]}", "case": {"kind": "alias_probe", "as_array": as_array, "verbose": verbose}})
    return n


def gen_calibration(rng, quick):
    sp = gen_space(rng, max_dims=3)
    first = rng.choice(["halton", "uniform", "rseq"])
    others = [k for k in ALL9 if k != "gp" or not quick]
    lineup = [(first, rng.randint(2, 4))]
    for _ in range(rng.randint(1, 3)):
        k = rng.choice(others)
        lineup.append((k, rng.randint(1, 3) if k != "cors" else rng.randint(1, 2)))
    dims = len(sp["precision"])
    return {"kind": "calibration", "bounds": sp["bounds"], "precision": sp["precision"], "space_tag": sp["tag"],
            "lineup": lineup, "ensemble": rng.randint(1, 2), "nbatches": rng.randint(2, 3), "seed": rng.below(2 ** 31),
            "true_theta": [0.5 * (a + b) for a, b in zip(sp["bounds"][0], sp["bounds"][1])], "dims": dims}


# ------------------------------------------------------------------ Coq literals
def dyadic_safe(*arrays):
    """All values are multiples of 2^-20 below 2^30: every float subtraction get_closest performs is exact."""
    for a in arrays:
        a = np.asarray(a, dtype=float).ravel()
        if not np.all(np.isfinite(a)) or np.any(np.abs(a) >= 2.0 ** 30):
            return False
        s = a * 2.0 ** 20
        if np.any(s != np.floor(s)):
            return False
    return True


def rows_lit(m):
    return clist([fll([float(x) for x in r]) for r in np.asarray(m, dtype=float)])


def grids_lit(grid):
    return clist([fll([float(x) for x in g]) for g in grid])


def coq_candidates(case, obs, max_cells=700, max_rows=12):
    """(literal, meta) for the recorded sample_batch calls small enough to be shipped to Coq."""
    res = []
    grid = obs["space"].param_grid
    if sum(len(g) for g in grid) > max_cells:
        return res
    for b, batch in enumerate(obs["batches"]):
        for j, c in enumerate(batch["calls"]):
            out = c["snap"]
            if not isinstance(out, np.ndarray) or out.ndim != 2 or out.shape[0] > max_rows or out.shape[0] == 0:
                continue
            if case["cls"] == "uniform":
                rep = replay_uniform(c, grid)
                if rep is None or rep["idx"].shape != out.shape:
                    continue
                idx = clist([clist([cnat(int(i)) for i in row]) for row in rep["idx"]])
                res.append((f"IndexCall {grids_lit(grid)} {idx} {rows_lit(out)}", {"tol": False, "b": b, "j": j}))
            else:
                if not c["digitize"]:
                    continue
                raw = c["digitize"][-1]["raw"]
                if raw.ndim != 2 or raw.shape != out.shape or not np.all(np.isfinite(raw)):
                    continue
                tol = not dyadic_safe(raw, *grid)
                res.append((f"SnapCall {cbool(tol)} {grids_lit(grid)} {rows_lit(raw)} {rows_lit(out)}",
                            {"tol": tol, "b": b, "j": j}))
    return res


# ------------------------------------------------------------------ entry
def describe(case):
    return {k: v for k, v in case.items() if k not in ("new_losses",)}


def summarise_obs(obs):
    return {"error": obs.get("error"), "skipped": obs.get("skipped"),
            "batches": [b["out"].tolist() if isinstance(b["out"], np.ndarray) else repr(b["out"]) for b in obs.get("batches", [])],
            "sample_batch_sizes": [[c["n"] for c in b["calls"]] for b in obs.get("batches", [])]}


def run(chk, replay=None):
    import os

    # harness environment only: xgboost / joblib thread pools cost seconds per call on tiny data
    os.environ["OMP_NUM_THREADS"] = "1"
    os.environ["LOKY_MAX_CPU_COUNT"] = "1"
    chk.proof_gate()
    n_poolval = pool_validation(chk)
    n_poolval += declaration_alias_probe(chk)
    quick = chk.tier == "quick"
    r = chk.rng
    if replay:
        cases = [json.loads(open(replay).read())["case"]]
    else:
        cases = fixed_sampler_cases()
        corpus = chk.case_dir.parents[2] / "corpus" / "C03"
        for f in sorted(corpus.glob("*.json")):
            cases.append(json.loads(f.read_text())["case"])
        n_spaces = 40 if quick else 400
        for kind in ALL9:
            for w in WITNESS_SPACES:  # every class on the witness spaces
                if kind == "cors" and len(w["precision"]) > 2 and quick:
                    continue
                cases.append(gen_sampler_case(r, kind, space_desc={**w, "bounds": [list(w["bounds"][0]), list(w["bounds"][1])],
                                                                 "precision": list(w["precision"])}))
            for _ in range(n_spaces):
                cases.append(gen_sampler_case(r, kind))
        cases += [gen_calibration(r, quick) for _ in range(6 if quick else 40)]

    stats = Counter()
    lits, lit_owner = [], []
    per_class_ok = Counter()
    n_eval = n_sb_calls = n_rows = n_redraw_calls = 0
    nontrivial = set()
    keys = set()
    samples = []
    per_class_coq = Counter()
    coq_cap = 45 if quick else 300
    pending = []  # (case index, case, tie failures) to decide after Coq
    for ci, case in enumerate(cases):
        if case["kind"] == "calibration":
            obs = run_calibration(case)
            stats["calibration:runs"] += 1
            if obs["skipped"] or obs["error"]:
                stats[f"calibration:{'skipped' if obs['skipped'] else 'exception:' + obs['error'].split(':')[0]}"] += 1
                continue
            stats["calibration:simulations"] += obs["n_sim"]
            n_eval += 1
            if obs["fails"]:
                clause = obs["fails"][0].split(":")[0]
                chk.violation({"kind": "oracle", "clause": clause, "where": "calibration",
                               "classes": sorted({k for k, _ in case["lineup"]})},
                              {"failed": "oracle:" + obs["fails"][0], "all": obs["fails"][:10], "case": case})
            elif obs["n_sim"] != obs["expected_sims"]:
                chk.notes.append(f"calibration ran {obs['n_sim']} simulations, expected {obs['expected_sims']}")
            continue

        kind = case["cls"]
        stats[f"class:{kind}"] += 1
        obs = run_sampler_case(case)
        if obs["skipped"]:
            stats[f"skipped:{kind}:timeout"] += 1
            continue
        if obs["error"]:
            stats[f"exception:{kind}:{obs['error'].split(':')[0]}"] += 1
            if len(chk.notes) < 12:
                chk.notes.append(f"{kind}: {obs['error']} on space {case['bounds']} / {case['precision']}")
            continue
        per_class_ok[kind] += 1
        n_eval += len(obs["batches"])
        stats[f"space:{case['space_tag']}"] += 1
        stats[f"dims:{len(case['precision'])}"] += 1
        stats[f"calls:{case['ncalls']}"] += 1
        redraws = sum(max(0, len(b["calls"]) - 1) for b in obs["batches"])
        n_redraw_calls += redraws
        if redraws:
            stats["sample()-with-dedup-redraws"] += 1
        for b in obs["batches"]:
            n_sb_calls += len(b["calls"])
            if isinstance(b["out"], np.ndarray):
                n_rows += len(b["out"])
        key = json.dumps([kind, case["bounds"], case["precision"], case["hist_idx"], case["seed"], case["bs"]])
        keys.add(key)
        # non-trivial: some raw value given to the final snap was NOT already a grid element (the snap mattered),
        # or (uniform) the batch contains >= 2 distinct grid indices in some column
        nt = False
        for c in obs["sb_log"]:
            if kind == "uniform":
                o = c["snap"]
                nt = nt or (isinstance(o, np.ndarray) and o.ndim == 2 and any(len(set(o[:, k])) > 1 for k in range(o.shape[1])))
            elif c["digitize"]:
                d = c["digitize"][-1]
                if isinstance(d["out"], np.ndarray) and d["raw"].shape == d["out"].shape:
                    nt = nt or bool(np.any(d["raw"] != np.frombuffer(d["out_bytes"], dtype=d["out"].dtype).reshape(d["raw"].shape)))
        if nt:
            nontrivial.add(key)
            stats[f"snap-mattered:{kind}"] += 1
        fails = oracle_sampler_case(case, obs)
        ties = tie_checks(case, obs)
        if fails:
            clause = fails[0].split(":")[0]
            desc = {"kind": "oracle", "clause": clause, "class": kind}
            pool = case.get("opts", {}).get("pool")
            if pool is not None and pool < case["bs"]:
                desc["option"] = "candidate_pool_size<batch_size"
            chk.violation(desc,
                          {"failed": "oracle:" + fails[0], "all": fails[:10], "tie_failures": ties[:5], "case": case,
                           "observed": summarise_obs(obs)})
        elif ties:
            chk.violation({"kind": "correspondence", "name": "structural-tie", "class": kind},
                          {"failed": "correspondence:structural tie of Model/Samplers.v (" + ties[0] + "); the property "
                                     "oracle found no failing input", "all": ties[:10], "case": case,
                           "observed": summarise_obs(obs)}, no_input=True)
        if per_class_coq[kind] < coq_cap or replay:
            for lit, meta in coq_candidates(case, obs):
                if per_class_coq[kind] >= coq_cap and not replay:
                    break
                per_class_coq[kind] += 1
                lits.append(lit)
                lit_owner.append((ci, meta, bool(fails)))
        if len(samples) < 4 and ci % max(1, len(cases) // 4) == 0 and len(json.dumps(case)) < 3000:
            samples.append({"case": describe(case), "observed": summarise_obs(obs)})

    # the model's digitize / indexing is what ran
    bad, errors = chk.coq_mismatches("C03", IMPORTS, "check_case", CASE_T, lits, shard=40, preamble=PREAMBLE) if lits else ([], [])
    tol_idx = [i for i, (_, m, _) in enumerate(lit_owner) if m["tol"]]
    strict_bad, strict_err = (chk.coq_mismatches("C03strict", IMPORTS, "check_case_strict", CASE_T, [lits[i] for i in tol_idx],
                                                 shard=40, preamble=PREAMBLE) if tol_idx else ([], []))
    badset = set(bad)
    slack_used = [tol_idx[k] for k in strict_bad if tol_idx[k] not in badset]
    for i in bad:
        ci, meta, oracle_failed = lit_owner[i]
        if oracle_failed:
            continue
        case = cases[ci]
        chk.violation({"kind": "correspondence", "name": "snap_rowsQ" if case["cls"] != "uniform" else "index_rowsQ",
                       "class": case["cls"]},
                      {"failed": "correspondence:Samplers (the array returned by sample_batch is not what the Coq model of the "
                                 "last step computes from the recorded raw matrix / indices; the property oracle found no "
                                 "failing input)", "case": case, "call": meta, "coq_case": lits[i][:4000]}, no_input=True)
    for e in errors + strict_err:
        chk.violation({"kind": "correspondence", "name": "coqc"}, {"failed": "correspondence:coqc", "detail": e}, no_input=True)
    if not replay:
        for kind in ALL9:
            if per_class_ok[kind] == 0:
                chk.violation({"kind": "correspondence", "name": "vacuous", "class": kind},
                              {"failed": f"correspondence:no case of class {kind} ran to completion (all raised or timed out); "
                                         "the check would be vacuous for it", "detail": dict(stats)}, no_input=True)

    cov = {
        "evaluations": n_eval,
        "sampler_cases": sum(per_class_ok.values()),
        "sample_batch_calls_tied": n_sb_calls,
        "dedup_redraw_calls": n_redraw_calls,
        "rows_checked": n_rows,
        "distinct": len(keys),
        "distinct_nontrivial": len(nontrivial),
        "rule": "one evaluation = one sample() call of a real built-in sampler (or one real Calibrator run) checked by the "
                "direct oracle, with every sample_batch call inside it checked by the structural tie; distinct = distinct "
                "(class, space, history, seed, batch size); non-trivial = the final snap changed at least one raw value "
                "(raw != returned somewhere; for the uniform sampler: a column with >= 2 distinct drawn elements)",
        "samples": samples,
        "traces_validated_against_impl": len(lits) - len(bad),
        "coq_replayed_calls": len(lits),
        "coq_replayed_per_class": dict(per_class_coq),
        "model_impl_disagreements": len(bad),
        "tolerant_cases": len(tol_idx),
        "tolerant_cases_where_slack_was_needed": len(slack_used),
        "per_class_completed": dict(per_class_ok),
        "distribution": dict(sorted(stats.items())),
    }
    return chk.finish(
        cov,
        assumptions=[
            "what precedes the last step of sample_batch is arbitrary but produces a (k x dims) matrix (numpy shape contract; "
            "k = requested size for the row-count clause) - hypotheses raw_width_ok / raw_rows_ok of C03_main",
            "Generator.choice(params, size=n) returns params[idx] with 0 <= idx < len(params) (checked each run by replaying "
            "Generator.integers on a copy of the generator state) - hypothesis idx_ok",
            "every grid is non-empty (SearchSpace validation: precision <= range gives >= 2 elements; property C15)",
            "coordinates are compared by float ==; sample() moves rows (fancy-index assignment) without arithmetic (C12)",
            "the precision grid is the exact-rational arange of C15's model for the bounds clause (C03_grid_within_bounds); "
            "float rounding of arange itself is C15's subject, the oracle allows 4*len(grid) ulp on the bounds clause only",
        ],
        trusted=["modelled, not verified: numpy fancy indexing / slice assignment in BaseSampler.sample; Python object identity "
                 "as evidence that the returned array is the one digitize_data produced",
                 "get_closest / digitize_data are tied to Model/Snap.v by C17 and replayed here on the recorded calls"],
    )
