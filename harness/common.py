"""Shared plumbing of the black-it verification harness.

Every check has the same skeleton (DESIGN.md section 2.1):
  proof gate (make + Print Assumptions + source scan)  ->  corpus + generated cases run on the
  implementation (/repo working tree)  ->  the same cases evaluated by the Coq model (vm_compute inside coqc)
  ->  direct property oracle  ->  verdict (VIOLATION / KNOWN-FINDING / ok)  ->  evidence file.
"""
from __future__ import annotations

import fcntl
import json
import os
import re
import subprocess
import sys
import time
from fractions import Fraction
from pathlib import Path

ROOT = Path(__file__).resolve().parent.parent
COQ = ROOT / "coq"
BUILD = ROOT / "build"
# a run against a scratch tree (seeded change) must not overwrite the evidence of the registered checks
_ALT = os.environ.get("VERIF_OUT")
EVIDENCE = Path(_ALT) / "evidence" if _ALT else ROOT / "evidence"
REPLAYS = Path(_ALT) / "replays" if _ALT else ROOT / "replays"
CASES = Path(_ALT) / "cases" if _ALT else BUILD / "cases"
CORPUS = ROOT / "corpus"
REPO = Path(os.environ.get("VERIF_REPO", "/repo"))
NPROC = 16

FORBIDDEN = re.compile(
    r"\b(Admitted|admit|Axiom|Axioms|Parameter|Parameters|Conjecture|Conjectures|Admit Obligations|"
    r"Unset Guard Checking|Unset Positivity Checking|Unset Universe Checking|bypass_check|native_compute)\b"
    r"|-type-in-type|-impredicative-set"
)

# axioms declared by the standard library / installed libraries that theorems are allowed to rest on
ALLOWED_AXIOM_PREFIXES = (
    "ClassicalDedekindReals.", "FunctionalExtensionality.", "Classical_Prop.", "ClassicalEpsilon.",
    "ProofIrrelevance.", "Eqdep.", "JMeq.", "FloatAxioms.", "Uint63.", "PrimFloat.", "PrimInt63.", "Raxioms.",
    "Rdefinitions.", "Coq.", "Floats.", "FloatOps.", "SpecFloat.", "PArray.", "Sint63.", "Uint63Axioms.", "CarryType.",
    "IndefiniteDescription.", "Epsilon.", "ChoiceFacts.", "PropExtensionality.", "Description.",
)


class SplitMix64:
    """The single PRNG every random choice of a check derives from (seeded by VERIF_SEED)."""

    def __init__(self, seed: int) -> None:
        self.s = seed & 0xFFFFFFFFFFFFFFFF

    def next(self) -> int:
        self.s = (self.s + 0x9E3779B97F4A7C15) & 0xFFFFFFFFFFFFFFFF
        z = self.s
        z = ((z ^ (z >> 30)) * 0xBF58476D1CE4E5B9) & 0xFFFFFFFFFFFFFFFF
        z = ((z ^ (z >> 27)) * 0x94D049BB133111EB) & 0xFFFFFFFFFFFFFFFF
        return z ^ (z >> 31)

    def below(self, n: int) -> int:
        return self.next() % n if n > 0 else 0

    def randint(self, a: int, b: int) -> int:
        return a + self.below(b - a + 1)

    def choice(self, seq):
        return seq[self.below(len(seq))]

    def random(self) -> float:
        return (self.next() >> 11) / float(1 << 53)

    def uniform(self, a: float, b: float) -> float:
        return a + (b - a) * self.random()

    def shuffle(self, lst) -> None:
        for i in range(len(lst) - 1, 0, -1):
            j = self.below(i + 1)
            lst[i], lst[j] = lst[j], lst[i]

    def fork(self) -> "SplitMix64":
        return SplitMix64(self.next())


# ---------------------------------------------------------------- Coq literal emitters
def cz(n: int) -> str:
    n = int(n)
    return f"({n})%Z" if n < 0 else f"{n}%Z"


def cnat(n: int) -> str:
    return f"{int(n)}%nat"


def cbool(b) -> str:
    return "true" if b else "false"


def clist(items) -> str:
    return "[" + "; ".join(items) + "]"


def cq(x) -> str:
    """Exact rational literal for a float / Fraction / int (a float is injected as its exact value m*2^e)."""
    fr = Fraction(x)
    return f"(Qmake ({fr.numerator})%Z {fr.denominator}%positive)"


def cfloat(x: float) -> str:
    """Exact PrimFloat literal."""
    import math

    if math.isnan(x):
        return "nan%float"
    if math.isinf(x):
        return "infinity%float" if x > 0 else "neg_infinity%float"
    if x == 0:
        return "(-0)%float" if math.copysign(1, x) < 0 else "0%float"
    h = float(x).hex()
    return f"({h})%float"


def copt(x, f) -> str:
    return "None" if x is None else f"(Some {f(x)})"


# ---------------------------------------------------------------- Coq runner
def _run(cmd, cwd=None, timeout=None, env=None):
    t0 = time.time()
    try:
        p = subprocess.run(cmd, cwd=cwd, capture_output=True, text=True, timeout=timeout, env=env)
        return p.returncode, p.stdout, p.stderr, time.time() - t0
    except subprocess.TimeoutExpired as e:
        return 124, (e.stdout or b"").decode() if isinstance(e.stdout, bytes) else (e.stdout or ""), "timeout", time.time() - t0


def ensure_makefile():
    if not (COQ / "Makefile").exists() or (COQ / "Makefile").stat().st_mtime < (COQ / "_CoqProject").stat().st_mtime:
        _run(["coq_makefile", "-f", "_CoqProject", "-o", "Makefile"], cwd=COQ, timeout=120)


def make_targets(targets, timeout=3000):
    """(Re)build the .vo targets; serialised by a lock so that concurrent checks do not clash."""
    BUILD.mkdir(exist_ok=True)
    with open(BUILD / ".make.lock", "w") as lock:
        fcntl.flock(lock, fcntl.LOCK_EX)
        ensure_makefile()
        rc, out, err, dt = _run(["make", f"-j{NPROC}", *targets], cwd=COQ, timeout=timeout)
        fcntl.flock(lock, fcntl.LOCK_UN)
    return rc, out + err, dt


def coqc_file(path: Path, timeout=900):
    return _run(["coqc", "-Q", str(COQ), "BlackIt", str(path)], cwd=path.parent, timeout=timeout)


def scan_sources():
    """Names of forbidden constructs found in the development (must be empty)."""
    hits = []
    for f in sorted(COQ.rglob("*.v")):
        txt = f.read_text()
        # strip comments (non-nested is enough: comments in this development are not nested)
        txt_nc = re.sub(r"\(\*.*?\*\)", " ", txt, flags=re.S)
        for m in FORBIDDEN.finditer(txt_nc):
            hits.append(f"{f.relative_to(COQ)}:{m.group(0)}")
    proj = (COQ / "_CoqProject").read_text()
    for m in FORBIDDEN.finditer(proj):
        hits.append(f"_CoqProject:{m.group(0)}")
    return hits


def theorem_names(prop_file: Path):
    txt = re.sub(r"\(\*.*?\*\)", " ", prop_file.read_text(), flags=re.S)
    return re.findall(r"^\s*(?:Theorem|Lemma|Corollary)\s+([A-Za-z0-9_']+)", txt, flags=re.M)


def parse_assumptions(out: str, names):
    """Split the output of a sequence of `Print Assumptions` into per-theorem axiom lists."""
    blocks = re.split(r"^@@THM (\S+)\s*$", out, flags=re.M)
    res = {}
    for i in range(1, len(blocks), 2):
        name, body = blocks[i], blocks[i + 1]
        if "Closed under the global context" in body:
            res[name] = []
        else:
            ax = [a for a in re.findall(r"^([A-Za-z_][A-Za-z0-9_.']*)\s*:", body, flags=re.M) if a != "Axioms"]
            res[name] = sorted(set(ax)) if ax else None
    return res


class Check:
    """One run of one property's check."""

    def __init__(self, pid: str, tier: str, seed: int, level: str = "proof") -> None:
        self.pid, self.tier, self.seed, self.level = pid, tier, seed, level
        self.t0 = time.time()
        self.rng = SplitMix64(seed ^ (int(pid[1:]) * 0x1000193))
        self.violations = []  # (descriptor, replay_path, no_input)
        self.known = []
        self.cov = {}
        self.assumptions = []
        self.trusted = []
        # one directory per run, so that two runs of the same property (quick + thorough, or a seeded tree) never clash
        self.case_dir = CASES / pid / str(os.getpid())
        self.case_dir.mkdir(parents=True, exist_ok=True)
        kf = ROOT / "known_findings.json"
        self.known_findings = json.loads(kf.read_text()).get("findings", []) if kf.exists() else []
        self.gate = {"obligations": 0, "discharged": 0}
        self.coq_time = 0.0
        self.notes = []

    # ---------------- proof gate
    def proof_gate(self, prop_files=None, extra_targets=()):
        """Build the property's theorems, re-print their assumptions, scan the sources."""
        prop_files = prop_files or [f"Properties/{self.pid}.v"]
        targets = [p[:-2] + ".vo" for p in prop_files] + list(extra_targets)
        rc, log, dt = make_targets(targets)
        self.coq_time += dt
        names = []
        for p in prop_files:
            names += [(p, n) for n in theorem_names(COQ / p)]
        self.gate["obligations"] = len(names)
        self.gate["checker_cmd"] = (
            f"cd {COQ} && make -j{NPROC} {' '.join(targets)} && coqc -Q . BlackIt <gate file with Print Assumptions>"
        )
        hits = scan_sources()
        if hits:
            self.broken_proof("source-scan", "forbidden constructs in the development: " + ", ".join(hits[:10]))
            return False
        if rc != 0:
            m = re.search(r'File "([^"]+)", line (\d+).*?\n(Error:.*?)(?:\n\n|\Z)', log, flags=re.S)
            what = f"{m.group(1)}:{m.group(2)} {m.group(3)[:400]}" if m else log[-600:]
            self.broken_proof("make", what)
            return False
        gate = self.case_dir / f"gate_{self.pid}.v"
        lines = []
        for p in prop_files:
            lines.append(f"From BlackIt Require Import {p[:-2].replace('/', '.')}.")
        for _, n in names:
            lines.append(f'Goal True. idtac "@@THM {n}". exact I. Qed.')
            lines.append(f"Print Assumptions {n}.")
        gate.write_text("\n".join(lines) + "\n")
        rc, out, err, dt = coqc_file(gate)
        self.coq_time += dt
        if rc != 0:
            self.broken_proof("gate", (out + err)[-600:])
            return False
        ass = parse_assumptions(out, names)
        discharged = 0
        axioms = set()
        for _, n in names:
            a = ass.get(n)
            if a is None:
                self.broken_proof(n, "Print Assumptions output not understood")
                continue
            bad = [x for x in a if not x.startswith(ALLOWED_AXIOM_PREFIXES)]
            if bad:
                self.broken_proof(n, f"depends on axioms outside the standard library: {bad}")
                continue
            discharged += 1
            axioms.update(a)
        self.gate["discharged"] = discharged
        self.gate["theorems"] = [n for _, n in names]
        self.gate["axioms"] = sorted(axioms)
        return discharged == len(names)

    def broken_proof(self, theorem, what):
        self.violation(
            {"kind": "proof-gate", "theorem": theorem},
            {"failed": f"theorem:{theorem}", "detail": what},
            no_input=True,
        )

    # ---------------- model evaluation
    def coq_mismatches(self, name, imports, check_fn, case_type, cases, shard=400, timeout=900, preamble=""):
        """Evaluate `check_fn : case_type -> bool` on every case inside Coq; returns indices that are false.

        The generated files Require the compiled model, so the definitions evaluated here are the ones the
        theorems are about.  Only the list of mismatching indices is printed by Coq.
        """
        self._ensure_imports(imports)
        files = []
        for k in range(0, len(cases), shard):
            f = self.case_dir / f"cases_{name}_{k // shard}.v"
            body = ";\n  ".join(cases[k : k + shard])
            f.write_text(
                f"{imports}\nImport ListNotations.\n{preamble}\n"
                f"Definition cases : list ({case_type}) := [\n  {body}\n].\n"
                f'Goal True. let v := eval vm_compute in (mismatches ({check_fn}) cases) in idtac "@@BAD" v. exact I. Qed.\n'
            )
            files.append((k, f))
        bad, errors = [], []
        t0 = time.time()
        procs = []
        pending = list(files)
        running = []
        while pending or running:
            while pending and len(running) < NPROC:
                k, f = pending.pop(0)
                p = subprocess.Popen(
                    ["timeout", str(timeout), "coqc", "-Q", str(COQ), "BlackIt", str(f)],
                    cwd=f.parent, stdout=subprocess.PIPE, stderr=subprocess.PIPE, text=True,
                )
                running.append((k, f, p))
            k, f, p = running.pop(0)
            out, err = p.communicate()
            if p.returncode != 0:
                errors.append(f"{f.name}: rc={p.returncode} {(out + err)[-500:]}")
                continue
            m = re.search(r"@@BAD\s*(.*)", out, flags=re.S)
            if not m:
                errors.append(f"{f.name}: no @@BAD line")
                continue
            bad += [k + int(x) for x in re.findall(r"\d+", m.group(1))]
        self.coq_time += time.time() - t0
        return sorted(bad), errors

    def _ensure_imports(self, imports):
        """(Re)build the compiled model files a generated file imports, so they reflect the current .v sources."""
        mods = []
        for m in re.finditer(r"From BlackIt Require (?:Import|Export)\s+((?:[A-Za-z0-9_]+(?:\.[A-Za-z0-9_]+)*\s*)+)\.(?:\s|$)", imports):
            mods += m.group(1).split()
        targets = [x.replace(".", "/") + ".vo" for x in mods]
        key = tuple(targets)
        if targets and key not in getattr(self, "_made", set()):
            rc, log, dt = make_targets(targets)
            self.coq_time += dt
            self._made = getattr(self, "_made", set()) | {key}
            if rc != 0:
                self.broken_proof("make-model", log[-600:])

    def coq_eval(self, name, imports, exprs, timeout=600, preamble=""):
        """Evaluate arbitrary closed terms with vm_compute and return Coq's printed values (for replays)."""
        self._ensure_imports(imports)
        f = self.case_dir / f"eval_{name}.v"
        lines = [imports, "Import ListNotations.", preamble]
        for i, e in enumerate(exprs):
            lines.append(f'Goal True. let v := eval vm_compute in ({e}) in idtac "@@VAL {i}" v. exact I. Qed.')
        f.write_text("\n".join(lines) + "\n")
        rc, out, err, dt = coqc_file(f, timeout)
        self.coq_time += dt
        vals = {}
        for m in re.finditer(r"@@VAL (\d+)\s+(.*?)(?=@@VAL|\Z)", out, flags=re.S):
            vals[int(m.group(1))] = " ".join(m.group(2).split())
        return [vals.get(i) for i in range(len(exprs))], (out + err if rc else "")

    # ---------------- verdict
    def _match_known(self, desc):
        for kf in self.known_findings:
            if kf.get("property") != self.pid:
                continue
            if all(desc.get(k) == v for k, v in kf.get("match", {}).items()):
                return kf
        return None

    def violation(self, descriptor, replay, no_input=False):
        """Record a property failure (with its failing input) or a broken proof/correspondence (no_input)."""
        kf = None if no_input else self._match_known(descriptor)
        if kf is not None:
            if kf["id"] not in [k["id"] for k in self.known]:
                self.known.append(kf)
            return
        key = json.dumps(descriptor, sort_keys=True)
        if any(json.dumps(v[0], sort_keys=True) == key for v in self.violations):
            return
        REPLAYS.mkdir(parents=True, exist_ok=True)
        path = REPLAYS / f"{self.pid}_{len(self.violations)}_{self.tier}.json"
        obj = {"property": self.pid, "tier": self.tier, "seed": self.seed, "descriptor": descriptor}
        obj.update(replay)
        path.write_text(json.dumps(obj, indent=1, default=str))
        self.violations.append((descriptor, path, no_input))

    def finish(self, coverage, assumptions=(), trusted=()):
        cov = dict(coverage)
        cov.update(
            obligations=self.gate.get("obligations", 0),
            discharged=self.gate.get("discharged", 0),
            checker_cmd=self.gate.get("checker_cmd", "make"),
            theorems=self.gate.get("theorems", []),
        )
        axioms = self.gate.get("axioms", [])
        cov["trusted_base"] = [
            "Coq 8.16.1 kernel + vm_compute (no native_compute, no extraction)",
            "axioms under the property theorems (Print Assumptions): "
            + (", ".join(axioms) if axioms else "none - closed under the global context"),
            "hand-written Gallina model tied to /repo by the correspondence run recorded in this file",
            "harness (generators, instrumentation wrappers, literal emitter) in /verif/harness",
            *trusted,
        ]
        cov["known_findings_matched"] = [k["id"] for k in self.known]
        cov["coq_wall_s"] = round(self.coq_time, 2)
        if self.notes:
            cov["notes"] = self.notes
        ev = {
            "property_id": self.pid,
            "tier": self.tier,
            "seed": self.seed,
            "level": self.level,
            "coverage": cov,
            "assumptions": list(assumptions),
            "wall_s": round(time.time() - self.t0, 2),
            "violations": len(self.violations),
        }
        EVIDENCE.mkdir(parents=True, exist_ok=True)
        (EVIDENCE / f"{self.pid}.json").write_text(json.dumps(ev, indent=1, default=str))
        if not os.environ.get("VERIF_KEEP_CASES"):
            import shutil

            shutil.rmtree(self.case_dir, ignore_errors=True)
        for kf in self.known:
            print(f"KNOWN-FINDING: property={self.pid} {kf['id']}: {kf['what']}")
        for desc, path, no_input in self.violations:
            tail = " no-failing-input-found" if no_input else ""
            print(f"VIOLATION property={self.pid} replay={path}{tail}")
        if not self.violations:
            print(f"OK property={self.pid} tier={self.tier} seed={self.seed} "
                  f"obligations={cov['obligations']} discharged={cov['discharged']} "
                  f"evaluations={cov.get('evaluations')} wall={ev['wall_s']}s")
        return 1 if self.violations else 0


def repo_env():
    env = dict(os.environ)
    env["PYTHONPATH"] = str(REPO)
    env["PYTHONHASHSEED"] = "0"
    env["BLACK_IT_VERIF"] = "1"
    return env


def setup_repo_path():
    """Make `import black_it` resolve to /repo's working tree."""
    sys.path.insert(0, str(REPO))
    import warnings

    warnings.filterwarnings("ignore")
