#!/bin/sh
# usage: harness/soak.sh "<seeds>" [ids...]   - runs the quick tier of every (or the given) check for each seed, outputs
# redirected (VERIF_OUT) so that the registered evidence is not touched; prints one line per run that is not OK.
HERE="$(cd "$(dirname "$0")/.." && pwd)"
SEEDS="$1"; shift
IDS="${*:-C01 C02 C03 C04 C05 C06 C07 C08 C09 C10 C11 C12 C13 C14 C15 C16 C17 C18 C19 C20}"
for sd in $SEEDS; do
  for id in $IDS; do
    out=$(VERIF_SEED=$sd VERIF_OUT=/var/tmp/rw/soak-$sd "$HERE/bin/check" "$id" 2>&1 | grep -E "^(OK|VIOLATION)" | head -3)
    case "$out" in OK*) ;; *) echo "seed=$sd $id: $out";; esac
  done
  echo "seed $sd done"
done
