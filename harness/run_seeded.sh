#!/bin/sh
# usage: harness/run_seeded.sh <seeded-dir> [check ids...]
# Applies <seeded-dir>/patch.diff to a scratch worktree of /repo's HEAD, runs the demonstration on clean and patched trees,
# runs the listed checks (default: the property named in meta.json) against the patched tree, removes the worktree.
set -u
HERE="$(cd "$(dirname "$0")/.." && pwd)"
D="$(cd "$1" && pwd)"; shift
NAME="$(basename "$D")"
WT="/var/tmp/rw/seeded-$NAME-$$"
git -C /repo worktree add -q --detach "$WT" || exit 2
trap 'git -C /repo worktree remove --force "$WT" >/dev/null 2>&1' EXIT
DEMO="$(ls "$D"/demo*.py 2>/dev/null | head -1)"
if [ -n "$DEMO" ]; then
  PYTHONPATH="$WT" PYTHONHASHSEED=0 /venv/bin/python "$DEMO" >/dev/null 2>&1; echo "demo on clean tree: exit $?"
fi
if ! git -C "$WT" apply "$D/patch.diff"; then echo "PATCH DOES NOT APPLY"; exit 3; fi
if [ -n "$DEMO" ]; then
  PYTHONPATH="$WT" PYTHONHASHSEED=0 /venv/bin/python "$DEMO" >/dev/null 2>&1; echo "demo on patched tree: exit $?"
fi
IDS="$*"
[ -z "$IDS" ] && IDS="$(python3 -c "import json,sys; print(json.load(open('$D/meta.json'))['property'])" 2>/dev/null)"
for id in $IDS; do
  # through a file, not a pipe: a resource tracker left behind by joblib / multiprocessing keeps a pipe open for ever
  VERIF_OUT="/var/tmp/rw/out-$NAME" VERIF_REPO="$WT" "$HERE/bin/check" "$id" > "/var/tmp/rw/check-$NAME-$id.log" 2>&1 < /dev/null
  grep -E "^(VIOLATION|KNOWN-FINDING|OK)" "/var/tmp/rw/check-$NAME-$id.log" | sed "s/^/[$id on patched] /"; rm -f "/var/tmp/rw/check-$NAME-$id.log"
done
