"""Mutation run for C07.  Usage:  git -C /repo worktree add --detach /var/tmp/rw/C07 ; /venv/bin/python harness/mutations.d/C07.py [M01 ...]
Each mutation is applied to the scratch worktree, `VERIF_REPO=/var/tmp/rw/C07 bin/check C07` is run (seed 1), the exit code, the
number of oracle failures / Coq disagreements and the descriptors are appended to build/mutations_C07.txt; the tree is restored."""
import subprocess, sys, os, json, re
from pathlib import Path
ROOT=str(Path(__file__).resolve().parents[2])
RW="/var/tmp/rw/C07"
L=RW+"/black_it/loss_functions/"
MUTS=[
 ("M01 revert 6535f16 (Minkowski drops coordinate_filters)", L+"minkowski.py", "super().__init__(coordinate_weights, coordinate_filters)", "super().__init__(coordinate_weights)"),
 ("M02 Minkowski: ensemble mean -> sum", L+"minkowski.py", "sim_data_ensemble.mean(axis=0)", "sim_data_ensemble.sum(axis=0)"),
 ("M03 base: default weights 1/D -> 1", L+"base.py", "weights = np.ones(num_coords) / num_coords", "weights = np.ones(num_coords)"),
 ("M04 GSL: searchsorted side left -> right", L+"gsl_div.py", 'side="left"', 'side="right"'),
 ("M05 Minkowski: p-th root dropped", L+"minkowski.py", "return minkowski(sim_data_ensemble, real_data, p=self.p)", "return minkowski(sim_data_ensemble, real_data, p=self.p) ** self.p"),
 ("M06 likelihood: Silverman constant /4 -> /2", L+"likelihood.py", "((n * (d + 2)) / 4) ** (-1 / (d + 4))", "((n * (d + 2)) / 2) ** (-1 / (d + 4))"),
 ("M07 Fourier: normalisation by n_freq -> by N", L+"fourier.py", "/ ts_length)", "/ len(real_data))"),
 ("M08 MSM: inverse variance uses the variance (np.var) instead of the mean square", L+"msm.py", "/ np.mean((real_mom_1d[None, :] - ensemble_sim_mom_1d) ** 2, axis=0),", "/ np.var((real_mom_1d[None, :] - ensemble_sim_mom_1d), axis=0),"),
 ("M09 GSL: weight step 2/(L(L+1)) -> 2/(L(L-1)) (as in the module docstring)", L+"gsl_div.py", "weight = weight + 2 / (nb_word_lengths * (nb_word_lengths + 1))", "weight = weight + 2 / max(1, nb_word_lengths * (nb_word_lengths - 1))"),
 ("M10 likelihood: kernel constant (2 pi)^(d/2) -> (2 pi)^d", L+"likelihood.py", "(2 * np.pi) ** (d / 2.0)", "(2 * np.pi) ** (d)"),
 ("M11 moments: population std -> sample std (ddof=1)", RW+"/black_it/utils/time_series.py", "avg_vec_mom[1] = np.std(time_series)", "avg_vec_mom[1] = np.std(time_series, ddof=1)"),
 ("M12 Fourier: gaussian mask 2*sigma**2 -> 2*sigma", L+"fourier.py", "(2 * sigma**2)", "(2 * sigma)"),
 ("M13 MSM: standardise by the real moment instead of its absolute value", L+"msm.py", "real_mom_1d = real_mom_1d / abs(real_mom_1d)", "real_mom_1d = real_mom_1d / real_mom_1d"),
 ("M14 Fourier: ideal filter keeps n+1 coefficients", L+"fourier.py", "mask[:n] = 1.0", "mask[: n + 1] = 1.0"),
 ("M15 likelihood: squared distance not scaled by 1/D", L+"likelihood.py", "            1.0\n            / d\n            * np.sum(", "            1.0\n            * np.sum("),
 ("M16 GSL: correction term sign", L+"gsl_div.py", "gsl_divl = 2 * m_entr - sim_entr + corr", "gsl_divl = 2 * m_entr - sim_entr - corr"),
 ("M17 base: filters applied to the wrong coordinate order (reversed)", L+"base.py", "for i, filter_ in enumerate(filters):", "for i, filter_ in enumerate(list(filters)[::-1]):"),
 ("M18 MSM: ensemble mean of moments -> median", L+"msm.py", "sim_mom_1d = np.mean(ensemble_sim_mom_1d, axis=0)", "sim_mom_1d = np.median(ensemble_sim_mom_1d, axis=0)"),
]
sel=sys.argv[1:]
os.makedirs(ROOT+"/build",exist_ok=True)
out=open(ROOT+"/build/mutations_C07.txt","a")
for name,f,a,b in MUTS:
    if sel and name.split()[0] not in sel: continue
    subprocess.run(["git","-C",RW,"checkout","-q","."],check=True)
    s=open(f).read()
    assert s.count(a)==1,(name,s.count(a))
    open(f,"w").write(s.replace(a,b))
    env=dict(os.environ,VERIF_REPO=RW,VERIF_SEED="1")
    p=subprocess.run([ROOT+"/bin/check","C07"],capture_output=True,text=True,env=env,cwd=ROOT)
    lines=[l for l in p.stdout.splitlines() if l.startswith(("VIOLATION","OK","KNOWN"))]
    descs=[]
    for l in lines:
        m=re.search(r"replay=(\S+)",l)
        if m:
            r=json.load(open(m.group(1))); descs.append((r["descriptor"], r["failed"][:160]))
    ev=json.load(open(ROOT+"/evidence/C07.json"))["coverage"]
    msg=f"{name}\n   exit={p.returncode} oracle_failures={ev.get('oracle_failures')} coq_disagreements={ev.get('model_impl_disagreements')} of {ev.get('evaluations')}\n"+"".join(f"   {d} :: {w}\n" for d,w in descs)
    print(msg); out.write(msg); out.flush()
subprocess.run(["git","-C",RW,"checkout","-q","."],check=True)
