#!/bin/sh
# Round-4 mutation run for C07 (generator sweep).  usage: harness/mutations.d/C07_round4.sh <m1 ... m13> [verif root] [label] [seed]
# Applies seeded/C07-<name>/patch.diff to a scratch worktree of /repo, runs `bin/check C07` of the given framework tree
# (default: this one) against it and prints the counts and descriptors of what was reported; removes the worktree.
HERE="$(cd "$(dirname "$0")/../.." && pwd)"
N="$1"; ROOT="${2:-$HERE}"; LABEL="${3:-new}"; SEED="${4:-20261001}"
D="$HERE/seeded/C07-$N"
WT=/var/tmp/rw/C07-mutwt-$N-$LABEL
OUT=/var/tmp/rw/out-C07-mut-$N-$LABEL
mkdir -p /var/tmp/rw; rm -rf "$OUT/replays"
git -C /repo worktree add -q --detach "$WT" || exit 2
git -C "$WT" apply "$D/patch.diff" || { echo "PATCH DOES NOT APPLY"; git -C /repo worktree remove --force "$WT"; exit 3; }
cd "$ROOT" || exit 2
VERIF_SEED=$SEED VERIF_OUT="$OUT" VERIF_REPO="$WT" timeout 3600 bin/check C07 > "$OUT.log" 2>&1
git -C /repo worktree remove --force "$WT" >/dev/null 2>&1
/venv/bin/python - "$N" "$LABEL" "$OUT" <<'PY'
import sys, json, glob
n, label, out = sys.argv[1:]
log = open(out + ".log").read()
lines = [l[:80] for l in log.splitlines() if l.startswith(("VIOLATION", "OK", "KNOWN", "BROKEN", "ERROR", "Traceback"))]
descs = []
for f in sorted(glob.glob(out + "/replays/*.json")):
    r = json.load(open(f)); descs.append((r["descriptor"], r["failed"][:110]))
ev = json.load(open(out + "/evidence/C07.json"))["coverage"] if glob.glob(out + "/evidence/C07.json") else {}
print(f"### {n} [{label}] oracle_failures={ev.get('oracle_failures')} coq={ev.get('model_impl_disagreements')} of {ev.get('evaluations')}")
for l in lines: print("   ", l)
for d, w in descs: print("    ", json.dumps(d), "::", w)
PY
