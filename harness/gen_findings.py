#!/usr/bin/env python3
"""known_findings.json = findings from harness/findings.d/*.json + the 'fixed:' lines of harness/fixed.json."""
import json
from pathlib import Path

ROOT = Path(__file__).resolve().parent.parent
findings = []
for f in sorted((ROOT / "harness" / "findings.d").glob("C*.json")):
    findings += json.loads(f.read_text())
fixed = json.loads((ROOT / "harness" / "fixed.json").read_text())
(ROOT / "known_findings.json").write_text(json.dumps({"findings": findings, "fixed": fixed}, indent=1) + "\n")
