#!/bin/sh
# usage: harness/import_seed.sh Cxx N   -> seeded/Cxx-N/{patch.diff,demo.py,notes.md}
HERE="$(cd "$(dirname "$0")/.." && pwd)"; id=$1; n=$2; d="$HERE/seeded/$id-$n"; mkdir -p "$d"
cp /var/tmp/seed/$id-out/patch$n.diff "$d/patch.diff"; cp /var/tmp/seed/$id-out/demo$n.py "$d/demo.py"
cp /var/tmp/seed/$id-out/notes.md "$d/notes.md" 2>/dev/null
[ -f "$d/meta.json" ] || printf '{"property": "%s", "needs": "", "ran": "", "caught_by": ""}\n' "$id" > "$d/meta.json"
echo "$d"
