#!/bin/sh
# usage: harness/import_seed.sh Cxx N   -> seeded/Cxx-<next free index>/{patch.diff,demo.py,notes.md}; prints the directory
HERE="$(cd "$(dirname "$0")/.." && pwd)"; id=$1; n=$2
k=1; while [ -d "$HERE/seeded/$id-$k" ]; do k=$((k+1)); done
d="$HERE/seeded/$id-$k"; mkdir -p "$d"
cp /var/tmp/seed/$id-out/patch$n.diff "$d/patch.diff"; cp /var/tmp/seed/$id-out/demo$n.py "$d/demo.py"
cp /var/tmp/seed/$id-out/notes.md "$d/notes.md" 2>/dev/null
printf '{"property": "%s", "needs": "", "ran": "", "caught_by": ""}\n' "$id" > "$d/meta.json"
echo "$d"
