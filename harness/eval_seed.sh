#!/bin/sh
# usage: harness/eval_seed.sh Cxx [n]
# Imports /var/tmp/seed/Cxx-out/patch<n>.diff + demo<n>.py as the next free seeded/Cxx-<k>, runs harness/run_seeded.sh on it
# (demo on clean / patched tree, the property's check against the patched tree) and, in a scratch worktree of its own,
# the pinned test suite with the patch applied, comparing the passing test ids with BASELINE.json's stable_pass.
# Output: /var/tmp/rw/eval-Cxx.log ; the scratch worktree is removed at the end.
HERE="$(cd "$(dirname "$0")/.." && pwd)"; id=$1; n=${2:-1}
mkdir -p /var/tmp/rw
d=$("$HERE/harness/import_seed.sh" "$id" "$n"); k=$(basename "$d")
LOG=/var/tmp/rw/eval-$id.log; echo "seeded dir: $d" > "$LOG"
"$HERE/harness/run_seeded.sh" "$d" 2>&1 | grep -v WARNING | cut -c1-260 >> "$LOG" &
WT=/var/tmp/rw/t-$k
git -C /repo worktree add -q --detach "$WT" && git -C "$WT" apply "$d/patch.diff" && \
  (cd "$WT" && PYTHONPATH="$WT" PYTHONHASHSEED=0 /venv/bin/python -m pytest -q -p no:cacheprovider --timeout=900 \
     --continue-on-collection-errors --junitxml=/var/tmp/rw/junit-$k.xml > /var/tmp/rw/pytest-$k.log 2>&1)
wait
python3 - "$k" >> "$LOG" <<'EOF'
import json, sys, xml.etree.ElementTree as ET
k = sys.argv[1]
b = json.load(open('/root/.vp/BASELINE.json'))['stable_pass']
r = ET.parse(f'/var/tmp/rw/junit-{k}.xml').getroot()
ok = {f"{tc.get('classname')}::{tc.get('name')}" for tc in r.iter('testcase')
      if not any(ch.tag in ('failure', 'error', 'skipped') for ch in tc)}
miss = [x for x in b if x not in ok]
print(f"pinned tests with the patch: passed {len(ok)}, stable_pass missing {len(miss)} {miss[:5]}")
EOF
git -C /repo worktree remove --force "$WT" >/dev/null 2>&1
rm -f /var/tmp/rw/junit-$k.xml /var/tmp/rw/pytest-$k.log
echo "DONE" >> "$LOG"
