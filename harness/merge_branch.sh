#!/bin/sh
# merge an agent branch: union-resolve _CoqProject, regenerate known_findings.json and MANIFEST.json from fragments
set -e
cd "$(dirname "$0")/.."
b="$1"
git merge --no-edit "$b" >/dev/null 2>&1 || true
if git ls-files -u | grep -q _CoqProject; then
  git show :2:coq/_CoqProject > /tmp/ours.cp; git show :3:coq/_CoqProject > /tmp/theirs.cp
  cp /tmp/ours.cp coq/_CoqProject
  grep -vxFf /tmp/ours.cp /tmp/theirs.cp >> coq/_CoqProject || true
  git add coq/_CoqProject
fi
for f in known_findings.json MANIFEST.json; do
  if git ls-files -u | grep -q "$f"; then git checkout --ours "$f" 2>/dev/null; git add "$f"; fi
done
python3 harness/gen_findings.py
python3 harness/gen_manifest.py
git add -A
git ls-files -u | head
git commit -qm "Merge $b" || true
