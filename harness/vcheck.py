#!/venv/bin/python
"""Entry point:  vcheck.py <Cxx> [--tier quick|thorough] [--replay file]"""
import argparse
import faulthandler
import importlib
import os
import signal
import sys
from pathlib import Path

faulthandler.register(signal.SIGUSR1, all_threads=True)  # kill -USR1 <pid> prints every thread's stack (diagnosis of a stuck run)

sys.path.insert(0, str(Path(__file__).resolve().parent))
os.environ.setdefault("PYTHONHASHSEED", "0")
os.environ["BLACK_IT_VERIF"] = "1"


def main() -> int:
    ap = argparse.ArgumentParser()
    ap.add_argument("pid")
    ap.add_argument("--tier", default=os.environ.get("VERIF_TIER", "quick"), choices=["quick", "thorough"])
    ap.add_argument("--replay", default=None)
    a = ap.parse_args()
    seed = int(os.environ.get("VERIF_SEED", "20261001"))
    import common

    common.setup_repo_path()
    mod = importlib.import_module(f"props.{a.pid.lower()}")
    chk = common.Check(a.pid, a.tier, seed)
    try:
        return mod.run(chk, replay=a.replay)
    except Exception:  # noqa: BLE001
        # fail closed: a harness that cannot complete on this tree has not shown the property (the implementation behaved in a
        # way the instrumentation does not understand); the traceback is the replay
        import traceback

        tb = traceback.format_exc()
        sys.stderr.write(tb)
        chk.violation({"kind": "correspondence", "name": "harness-exception"},
                      {"failed": "correspondence:harness (the check could not complete on this tree)", "traceback": tb}, no_input=True)
        return chk.finish({"evaluations": 0, "distinct_nontrivial": 0, "rule": "the check aborted with an exception", "samples": [tb[-400:]],
                           "traces_validated_against_impl": 0})


if __name__ == "__main__":
    code = main()
    sys.stdout.flush()
    sys.stderr.flush()
    # a deadlocked (non-daemon) agent thread left behind by the code under test must not keep the check alive
    os._exit(code)
