#!/venv/bin/python
"""Entry point:  vcheck.py <Cxx> [--tier quick|thorough] [--replay file]"""
import argparse
import faulthandler
import importlib
import os
import signal
import sys
from pathlib import Path

faulthandler.register(signal.SIGUSR1, all_threads=True)  # kill -USR1 <pid> prints every thread's stack (diagnosis of a stuck run)

sys.path.insert(0, str(Path(__file__).resolve().parent))
os.environ.setdefault("PYTHONHASHSEED", "0")
os.environ["BLACK_IT_VERIF"] = "1"


def main() -> int:
    ap = argparse.ArgumentParser()
    ap.add_argument("pid")
    ap.add_argument("--tier", default=os.environ.get("VERIF_TIER", "quick"), choices=["quick", "thorough"])
    ap.add_argument("--replay", default=None)
    a = ap.parse_args()
    seed = int(os.environ.get("VERIF_SEED", "20261001"))
    import common

    common.setup_repo_path()
    mod = importlib.import_module(f"props.{a.pid.lower()}")
    chk = common.Check(a.pid, a.tier, seed)

    # fail closed on a run that never ends (the code under test blocking a thread the harness waits for): after a limit far above
    # any measured run time (quick <= 6 min, thorough <= 45 min on this machine) every thread's stack is written to stderr and
    # the run is reported as not completed.  VERIF_MAX_WALL (seconds) overrides the limit.
    limit = float(os.environ.get("VERIF_MAX_WALL", 3600 if a.tier == "quick" else 6 * 3600))

    def _stuck():
        faulthandler.dump_traceback(all_threads=True)
        REPL = common.REPLAYS
        REPL.mkdir(parents=True, exist_ok=True)
        path = REPL / f"{a.pid}_stuck_{a.tier}.json"
        import json

        path.write_text(json.dumps({"property": a.pid, "tier": a.tier, "seed": seed,
                                    "failed": f"correspondence:harness (the check did not finish within {limit:.0f} s; thread stacks on stderr)"}))
        print(f"VIOLATION property={a.pid} replay={path} no-failing-input-found", flush=True)
        os._exit(1)

    # a watchdog PROCESS, not a timer thread (the checks of the calibrator family count the threads alive after a calibration)
    # and not SIGALRM (C16 uses the alarm for its own per-call time-outs): the child signals SIGUSR2 after the limit and goes
    # away as soon as this process has ended
    signal.signal(signal.SIGUSR2, lambda *_: _stuck())
    me = os.getpid()
    if os.fork() == 0:
        import time

        for fd in (0, 1, 2):   # do not keep the caller's pipes open
            with __import__("contextlib").suppress(OSError):
                os.close(fd)

        t_end = time.time() + limit
        while time.time() < t_end:
            time.sleep(2.0)
            if os.getppid() != me:
                os._exit(0)
        with __import__("contextlib").suppress(OSError):
            os.kill(me, signal.SIGUSR2)
        os._exit(0)
    try:
        return mod.run(chk, replay=a.replay)
    except Exception:  # noqa: BLE001
        # fail closed: a harness that cannot complete on this tree has not shown the property (the implementation behaved in a
        # way the instrumentation does not understand); the traceback is the replay
        import traceback

        tb = traceback.format_exc()
        sys.stderr.write(tb)
        chk.violation({"kind": "correspondence", "name": "harness-exception"},
                      {"failed": "correspondence:harness (the check could not complete on this tree)", "traceback": tb}, no_input=True)
        return chk.finish({"evaluations": 0, "distinct_nontrivial": 0, "rule": "the check aborted with an exception", "samples": [tb[-400:]],
                           "traces_validated_against_impl": 0})


if __name__ == "__main__":
    code = main()
    sys.stdout.flush()
    sys.stderr.flush()
    # a deadlocked (non-daemon) agent thread left behind by the code under test must not keep the check alive
    os._exit(code)
