#!/venv/bin/python
"""Entry point:  vcheck.py <Cxx> [--tier quick|thorough] [--replay file]"""
import argparse
import importlib
import os
import sys
from pathlib import Path

sys.path.insert(0, str(Path(__file__).resolve().parent))
os.environ.setdefault("PYTHONHASHSEED", "0")
os.environ["BLACK_IT_VERIF"] = "1"


def main() -> int:
    ap = argparse.ArgumentParser()
    ap.add_argument("pid")
    ap.add_argument("--tier", default=os.environ.get("VERIF_TIER", "quick"), choices=["quick", "thorough"])
    ap.add_argument("--replay", default=None)
    a = ap.parse_args()
    seed = int(os.environ.get("VERIF_SEED", "20261001"))
    import common

    common.setup_repo_path()
    mod = importlib.import_module(f"props.{a.pid.lower()}")
    chk = common.Check(a.pid, a.tier, seed)
    return mod.run(chk, replay=a.replay)


if __name__ == "__main__":
    sys.exit(main())
