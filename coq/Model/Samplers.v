(* Model of the LAST STEP of `sample_batch` of the nine built-in samplers and of `BaseSampler.sample` on top of it
   (property C03).  Executable definitions only; proofs are in Proofs/SamplersP.v.

   What the code does (black_it/samplers):
     halton.py:105-107, r_sequence.py:118-120, particle_swarm.py:194-200 and 205-211, surrogate.py:126-130 (RandomForest,
     XGBoost, GaussianProcess inherit it), cors.py:239-241, best_batch.py:151-152 (since the repair bc8d6d0):
         return digitize_data(<raw float matrix>, search_space.param_grid)
     random_uniform.py:47-50:
         candidates[:, i] = self.random_generator.choice(params, size=(batch_size,))    for i, params in enumerate(param_grid)
     base.py:76-121 `sample`: first draw + de-duplication loop, which only ever writes rows returned by `sample_batch`.

   Everything that happens BEFORE the last step (Halton digits, R-sequence, swarm dynamics, surrogate fit/predict, RBF + SLSQP,
   genetic perturbation, every RNG draw, the sampler's internal state and how it evolves, how the history is used) is an
   arbitrary function `raw_of` / `idx_of` of (class, internal state, history, requested size): Section variables, never axioms.
   The theorems therefore hold for any history, any seed, any internal state, any number of successive calls.

   Part 1 is generic in the numeric type (instantiated with Q for the correspondence, where float64 values are injected exactly).
   Part 2 composes with Model/Dedup.v, whose points are `list Z`: there a coordinate is the integer CODE of a float64 (any
   injective coding, e.g. the IEEE bit pattern) and the comparison / distance used by get_closest are arbitrary functions on codes. *)
From Coq Require Import List ZArith QArith Qround Qminmax Bool Arith Floats.
From BlackIt Require Import Model.Snap Model.Dedup.
Import ListNotations.
Local Close Scope Q_scope.

(* ------------------------------------------------------------------ Part 1: the two kinds of last step *)
Section Rows.
  Variable num : Type.
  Variable zero : num.
  Variable ltb : num -> num -> bool.
  Variable absdiff : num -> num -> num.

  (* return digitize_data(raw, search_space.param_grid) *)
  Definition snap_rows (raw grids : list (list num)) : list (list num) := digitize num zero ltb absdiff raw grids.

  (* rng.choice(params, size=n) == params[rng.integers(0, len(params), size=n)]: one drawn index per (row, column) *)
  Definition index_row (grids : list (list num)) (irow : list nat) : list num :=
    map (fun ig => nth (fst ig) (snd ig) zero) (combine irow grids).
  Definition index_rows (grids : list (list num)) (idx : list (list nat)) : list (list num) := map (index_row grids) idx.

  (* "one column per parameter and every coordinate is an element of that parameter's grid" *)
  Definition on_grid (grids : list (list num)) (row : list num) : Prop := Forall2 (fun x g => In x g) row grids.

  (* the index matrix a correct `choice` can produce: one index per grid, each inside its grid *)
  Definition idx_in_range (grids : list (list num)) (irow : list nat) : Prop := Forall2 (fun i g => i < length g) irow grids.
End Rows.

(* ------------------------------------------------------------------ Part 2: samplers with state, de-duplication, successive calls *)
Inductive cls := Halton | RSequence | RandomUniform | BestBatch | ParticleSwarm | RandomForest | XGBoost | GaussianProcess | CORS.
Inductive last_step := Snaps | Indexes.
Definition last_step_of (c : cls) : last_step := match c with RandomUniform => Indexes | _ => Snaps end.
Definition all_classes : list cls :=
  [Halton; RSequence; RandomUniform; BestBatch; ParticleSwarm; RandomForest; XGBoost; GaussianProcess; CORS].

Section Samplers.
  Variable ltb : Z -> Z -> bool.               (* float `<` on codes *)
  Variable absdiff : Z -> Z -> Z.              (* np.fabs(v - x) on codes *)
  Variable grids : list (list Z).              (* search_space.param_grid *)
  Variables St Hist : Type.                    (* internal state of the sampler object; (existing_points, existing_losses) *)
  Variable points_of : Hist -> list point.     (* existing_points *)
  Variable raw_of : cls -> St -> Hist -> nat -> list (list Z) * St.   (* all the code before the final digitize_data *)
  Variable idx_of : St -> Hist -> nat -> list (list nat) * St.        (* the index draws of RandomUniformSampler *)

  Definition sample_batch (c : cls) (st : St) (h : Hist) (n : nat) : list point * St :=
    match last_step_of c with
    | Snaps => let '(raw, st') := raw_of c st h n in (snap_rows Z 0%Z ltb absdiff raw grids, st')
    | Indexes => let '(idx, st') := idx_of st h n in (index_rows Z 0%Z grids idx, st')
    end.

  (* the generator seen by the de-duplication loop during ONE call of sample(): same history for the first draw and the redraws *)
  Definition gen_of (c : cls) (h : Hist) : St -> nat -> list point * St := fun st n => sample_batch c st h n.

  (* BaseSampler.sample(search_space, existing_points, existing_losses) *)
  Definition sampler_sample (c : cls) (bsize budget : nat) (h : Hist) (st : St) : list point * St * list (list nat) :=
    Dedup.sample St (gen_of c h) bsize budget (points_of h) st.

  (* successive calls on the same object: the k-th call sees the k-th history (arbitrary: other samplers may have
     appended anything in between) and the state left by the (k-1)-th call *)
  Fixpoint run_calls (c : cls) (bsize budget : nat) (calls : list Hist) (st : St) : list (list point) :=
    match calls with
    | [] => []
    | h :: rest =>
        let r := sampler_sample c bsize budget h st in
        output St r :: run_calls c bsize budget rest (snd (fst r))
    end.
End Samplers.

(* the redraws actually performed by the loop of Dedup.passes (a log; same recursion) *)
Section Redraws.
  Variable St : Type.
  Variable gen : St -> nat -> list point * St.
  Fixpoint redraws (budget : nat) (h s : list point) (st : St) : list (list point) :=
    match budget with
    | 0 => []
    | S b =>
        match dup_positions h s with
        | [] => []
        | d => let '(news, st') := gen st (length d) in news :: redraws b h (substitute s d news) st'
        end
    end.
  Definition sample_redraws (bsize budget : nat) (h : list point) (st : St) : list (list point) :=
    let '(s, st1) := gen st bsize in redraws budget h s st1.
End Redraws.

(* ------------------------------------------------------------------ Part 3 (round 4): the same sampler object RECONFIGURED between calls
   Nothing in base.py binds a sampler to one search space or freezes its public attributes: `sample(search_space, ...)` reads
   `self.batch_size` and `self.max_deduplication_passes` at the moment of the call (base.py:92-104) and `search_space.param_grid`
   is the grid of the space passed to THAT call.  A step of the life of one sampler object is therefore either
     SCall g bsize budget h : a sample() on the space whose grids are g, with the batch size / pass budget assigned at that
                             moment and the history h, or
     SFailed f              : a call that raised (history shorter than the batch, malformed history, ...) after moving the
                             internal state in an arbitrary way f (no batch is returned).
   What precedes the last step may now depend on the space in force as well (`raw_of g`, `idx_of g`). *)
Section Reconfigured.
  Variable ltb : Z -> Z -> bool.
  Variable absdiff : Z -> Z -> Z.
  Variables St Hist : Type.
  Variable points_of : Hist -> list point.
  Variable raw_of : list (list Z) -> cls -> St -> Hist -> nat -> list (list Z) * St.
  Variable idx_of : list (list Z) -> St -> Hist -> nat -> list (list nat) * St.

  Inductive sstep :=
  | SCall (g : list (list Z)) (bsize budget : nat) (h : Hist)
  | SFailed (f : St -> St).

  (* log of what the caller received: (grids in force, batch size in force, returned batch) per successful call *)
  Fixpoint run_ssteps (c : cls) (steps : list sstep) (st : St) : list (list (list Z) * nat * list point) :=
    match steps with
    | [] => []
    | SCall g bsize budget h :: rest =>
        let r := sampler_sample ltb absdiff g St Hist points_of (raw_of g) (idx_of g) c bsize budget h st in
        (g, bsize, output St r) :: run_ssteps c rest (snd (fst r))
    | SFailed f :: rest => run_ssteps c rest (f st)
    end.

  Definition scalls_of (steps : list sstep) : nat :=
    length (filter (fun s => match s with SCall _ _ _ _ => true | SFailed _ => false end) steps).
End Reconfigured.
Arguments SCall {St Hist} g bsize budget h.
Arguments SFailed {St Hist} f.

(* ------------------------------------------------------------------ the precision grid over exact rationals
   search_space.py:74-81  np.arange(lower, upper + 0.0000001, precision): ceil((stop - start)/step) elements start + i*step *)
Local Open Scope Q_scope.
Definition end_tol : Q := 1 # 10000000.
Definition grid_len (l u p : Q) : nat := Z.to_nat (Qceiling ((u + end_tol - l) / p)).
Definition grid_elem (l p : Q) (i : nat) : Q := l + inject_Z (Z.of_nat i) * p.
Definition gridQ (l u p : Q) : list Q := map (grid_elem l p) (seq 0 (grid_len l u p)).

(* HISTORICAL (before bc8d6d0): best_batch.py added delta*sign*size to a coordinate, clipped it to the bounds and returned it
   without snapping.  np.clip(x, lo, hi) = minimum(maximum(x, lo), hi) *)
Definition clipQ (x l u : Q) : Q := Qmin (Qmax x l) u.
Definition best_batch_unsnapped (x : Q) (k : Z) (delta l u : Q) : Q := clipQ (x + inject_Z k * delta) l u.
Definition in_gridQ (x : Q) (g : list Q) : bool := existsb (Qeq_bool x) g.

(* ------------------------------------------------------------------ correspondence
   One recorded `sample_batch` call of the implementation:
   SnapCall: `raw`/`grids` = the arguments of the final digitize_data, `obs` = the array sample_batch returned;
             tol = false when every value is a small dyadic (all float subtractions exact), else the one-sided slack of C17;
   IndexCall: `idx` = the indices RandomUniformSampler's generator draws (replayed on a copy of the generator), `obs` = returned array. *)
Inductive ccase :=
| SnapCall (tol : bool) (grids raw obs : list (list float))
| IndexCall (grids : list (list float)) (idx : list (list nat)) (obs : list (list float)).

Definition snap_rowsQ : list (list Q) -> list (list Q) -> list (list Q) := snap_rows Q 0 Qltb Qabsdiff.
Definition index_rowsQ : list (list Q) -> list (list nat) -> list (list Q) := index_rows Q 0.

Definition check_case (c : ccase) : bool :=
  match c with
  | SnapCall tol grids raw obs =>
      finite_m grids && finite_m raw && finite_m obs &&
      (if tol then mat_ok true (qss grids) (qss raw) (qss obs)
       else qmat_eqb (snap_rowsQ (qss raw) (qss grids)) (qss obs))
  | IndexCall grids idx obs =>
      finite_m grids && finite_m obs && qmat_eqb (index_rowsQ (qss grids) idx) (qss obs)
  end.
(* no slack at all: used only to COUNT the tolerant cases that needed the slack *)
Definition check_case_strict (c : ccase) : bool :=
  match c with
  | SnapCall _ grids raw obs => qmat_eqb (snap_rowsQ (qss raw) (qss grids)) (qss obs)
  | IndexCall grids idx obs => qmat_eqb (index_rowsQ (qss grids) idx) (qss obs)
  end.
