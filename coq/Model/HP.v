(* Model of the Hodrick-Prescott helper and the algebraic part of the derived filters
   (black_it/utils/time_series.py:95-155).  Executable definitions only; proofs are in Proofs/HPP.v.

   hp_filter (lines 113-121):
       K     = dia_matrix(([1]*n, [-2]*n, [1]*n), offsets (0,1,2), shape (n-2, n))     second difference
       trend = spsolve(I + lamb * K.T.dot(K), time_series)                            <- external solver
       cycle = time_series - trend
   The solver is not modelled.  What is modelled is the linear system it is asked to solve,
       A lam t = t + lam * K^T (K t),
   computed directly on lists of rationals for any length, and a *certificate check*: the implementation's
   trend t^ and cycle c are injected as exact rationals (a float is m*2^e) and the residual A t^ - y is
   evaluated exactly.  Proofs/HPP.v shows that a small residual bounds the distance to the unique solution. *)
From Coq Require Import List ZArith QArith Qabs Qminmax Qreduction Bool.
From BlackIt Require Export Lib.Cases.
Import ListNotations.
Open Scope Q_scope.

(* ---------------------------------------------------------------- vectors as lists *)
(* zip-with, truncating to the shorter list (every use below is on lists of equal length, or on a second
   argument that is at least as long as the first) *)
Fixpoint map2 {X Y Z : Type} (f : X -> Y -> Z) (a : list X) (b : list Y) : list Z :=
  match a, b with
  | x :: a', y :: b' => f x y :: map2 f a' b'
  | _, _ => []
  end.

Definition vadd : list Q -> list Q -> list Q := map2 Qplus.
Definition vsub : list Q -> list Q -> list Q := map2 Qminus.
Definition vscale (c : Q) : list Q -> list Q := map (Qmult c).

Fixpoint dot (a b : list Q) : Q :=
  match a, b with
  | x :: a', y :: b' => x * y + dot a' b'
  | _, _ => 0
  end.
Definition nrm2 (a : list Q) : Q := dot a a.                       (* squared Euclidean norm *)
Definition linf (l : list Q) : Q := fold_right (fun x m => Qmax (Qabs x) m) 0 l.   (* max |x_i|, 0 on [] *)
(* sum, kept in lowest terms (Qred q == q) so that long sums of dyadics stay small when evaluated *)
Definition qsum (l : list Q) : Q := fold_right (fun x s => Qred (x + s)) 0 l.

(* ---------------------------------------------------------------- the HP operator *)
(* K : row i is (1, -2, 1) at columns i, i+1, i+2 ; n-2 rows (no row when n < 3) *)
Fixpoint K (t : list Q) : list Q :=
  match t with
  | a :: ((b :: c :: _) as r) => (a - 2 * b + c) :: K r
  | _ => []
  end.

(* K^T : (K^T u)_j = u_j - 2 u_(j-1) + u_(j-2), length |u| + 2.
   Column view: u_i contributes (1, -2, 1) * u_i at positions i, i+1, i+2. *)
Definition add2 (x y : Q) (l : list Q) : list Q :=
  match l with
  | k0 :: k1 :: ks => (x + k0) :: (y + k1) :: ks
  | [k0] => [x + k0; y]
  | [] => [x; y]
  end.
Fixpoint Kt (u : list Q) : list Q :=
  match u with
  | [] => [0; 0]
  | a :: r => a :: add2 (-2 * a) a (Kt r)
  end.

(* (I + lam K^T K) t.  For n >= 2, Kt (K t) has length n; for n < 2 it is [0;0] and vadd truncates: A t = t+0. *)
Definition A (lam : Q) (t : list Q) : list Q := vadd t (vscale lam (Kt (K t))).
Definition resid (lam : Q) (t y : list Q) : list Q := vsub (A lam t) y.

(* the same residual with every intermediate vector put in lowest terms (Qred q == q): pointwise == to `resid`
   (Proofs/HPP.resid_red_veq) but with 200-bit instead of 1000-bit numerators when evaluated on dyadics; this is
   the version the certificate check evaluates *)
Definition qred_l : list Q -> list Q := map Qred.
Definition A_red (lam : Q) (t : list Q) : list Q := vadd t (vscale lam (qred_l (Kt (qred_l (K t))))).
Definition resid_red (lam : Q) (t y : list Q) : list Q := qred_l (vsub (A_red lam t) y).

(* ---------------------------------------------------------------- algebra of the derived filters *)
(* np.diff(x, prepend=x[0]) over any carrier with a subtraction *)
Definition gdiff_prepend {X : Type} (sub : X -> X -> X) (x : list X) : list X :=
  match x with
  | [] => []
  | a :: _ => map2 sub x (a :: x)
  end.
Definition diff_prepend : list Q -> list Q := gdiff_prepend Qminus.
Definition mean (l : list Q) : Q := qsum l / inject_Z (Z.of_nat (length l)).
Definition demean (l : list Q) : list Q := let m := mean l in map (fun v => v - m) l.
(* diff_log_demean_filter (lines 145-155) applied to l = log(time_series) *)
Definition diff_demean (l : list Q) : list Q := demean (diff_prepend l).
(* log_and_hp_filter (line 142) applied to l = log(time_series) and the trend of l *)
Definition minus_trend (l trend : list Q) : list Q := vsub l trend.

(* ---------------------------------------------------------------- injection of floats *)
Definition dy := (Z * Z)%type.                                       (* (m, e) stands for m * 2^e *)
Definition dyQ (d : dy) : Q :=
  let (m, e) := d in
  if (0 <=? e)%Z then inject_Z (m * 2 ^ e) else m # (Z.to_pos (2 ^ (- e))).
Definition dyl (l : list dy) : list Q := map dyQ l.

(* ---------------------------------------------------------------- certificate checks *)
Definition eps52 : Q := 1 # (2 ^ 52).
Definition rel_tol : Q := 1 # 10000000000.       (* 1e-10 *)
Definition log_tol : Q := 1 # 1000000000000.     (* 1e-12 *)
Definition lam1600 : Q := 1600.                  (* the constant of lines 133 and 142 *)

Fixpoint all3 (p : Q -> Q -> Q -> bool) (a b c : list Q) : bool :=
  match a, b, c with
  | [], [], [] => true
  | x :: a', y :: b', z :: c' => p x y z && all3 p a' b' c'
  | _, _, _ => false
  end.

(* clause 1: cycle = y - trend up to one rounding (also forces the three lengths to agree) *)
Definition cycle_ok (y t c : list Q) : bool :=
  all3 (fun y t c => Qle_bool (Qabs (c - (y - t))) (eps52 * Qmax (Qabs y) (Qabs t))) y t c.

(* clause 2: || A t^ - y ||_inf <= (1 + 16 lam) * (1e-10 * max|t^| + slack) ; slack = 0 for hp_filter itself *)
Definition hp_tol (lam : Q) (t : list Q) (slack : Q) : Q := (1 + 16 * lam) * (rel_tol * linf t + slack).
Definition resid_ok (lam : Q) (y t : list Q) (slack : Q) : bool :=
  Nat.eqb (length t) (length y) && Qle_bool (linf (resid_red lam t y)) (hp_tol lam t slack).

Inductive hp_case : Type :=
| CaseHP (lam : dy) (y t c : list dy)         (* hp_filter(y, lam) returned (c, t) *)
| CaseCycle1600 (y c : list dy)               (* hp_cycle_lamb1600_filter(y) returned c  (line 133) *)
| CaseLogHP (l out : list dy)                 (* log_and_hp_filter returned out; l = log y is given data (line 142) *)
| CaseDiffDemean (l out : list dy).           (* out = demean(diff(l, prepend = l[0])) (l = log y, given) *)

Definition all2 (p : Q -> Q -> bool) (a b : list Q) : bool :=
  Nat.eqb (length a) (length b) && forallb (fun b => b) (map2 p a b).

Definition check_hp_case (c : hp_case) : bool :=
  match c with
  | CaseHP lam y t c =>
      let y := dyl y in let t := dyl t in let c := dyl c in let lam := dyQ lam in
      Qle_bool 0 lam && cycle_ok y t c && resid_ok lam y t 0
  | CaseCycle1600 y c =>
      (* only the cycle is observable: t' := y - c differs from the solver's trend by one rounding of the
         subtraction (<= 2^-53 |c|), hence the slack 1e-12 * max|y| *)
      let y := dyl y in let c := dyl c in
      Nat.eqb (length c) (length y) && resid_ok lam1600 y (qred_l (vsub y c)) (log_tol * linf y)
  | CaseLogHP l out =>
      (* out = l - trend(l): t' := l - out, same slack (it also absorbs a last-bit difference in log) *)
      let l := dyl l in let out := dyl out in
      Nat.eqb (length out) (length l) && resid_ok lam1600 l (qred_l (minus_trend l out)) (log_tol * linf l)
  | CaseDiffDemean l out =>
      let l := dyl l in let out := dyl out in
      let tol := log_tol * linf l in
      all2 (fun o m => Qle_bool (Qabs (o - m)) tol) out (diff_demean l)
      && Qle_bool (Qabs (qsum out)) (log_tol * inject_Z (Z.of_nat (length out)) * linf out)
  end.
