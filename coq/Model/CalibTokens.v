(* Token instantiation of Model/Calibrator.v used by the trace correspondence:
   Param = token integer, Series = (param token, seed), LossV = exact rational of the float returned by the
   scripted loss.  `check_case` replays an operation sequence and compares the model's view of the calibrator
   after every operation with the view observed on the real Calibrator. *)
From Coq Require Import List ZArith QArith Bool Arith.
From BlackIt Require Export Lib.Cases Model.Calibrator.
Import ListNotations.
Local Close Scope Q_scope.
Local Open Scope nat_scope.

Definition TParam := Z.
Definition TSeries := (Z * Z)%type.
Definition TLoss := Q.

Definition t_model (p : TParam) (seed : Z) : TSeries := (p, seed).

Section Tok.
  Variable palette : list Q.
  Variable salt : Z.
  Definition t_lossf (row : list TSeries) : TLoss :=
    let tok := match row with [] => 0%Z | (p, _) :: _ => p end in
    let ss := fold_left (fun a x => (a + snd x)%Z) row 0%Z in
    let P := Z.of_nat (length palette) in
    nth (Z.to_nat ((tok * 7919 + ss * 31 + salt) mod P)%Z) palette 0%Q.
End Tok.

Definition t_leb (a b : TLoss) : bool := Qle_bool a b.
Fixpoint pow10 (p : nat) : Z := match p with 0 => 1%Z | S p' => (10 * pow10 p')%Z end.
Definition Qabs' (x : Q) : Q := Qmake (Z.abs (Qnum x)) (Qden x).
(* np.round(x, p) == 0  (round-half-even: exactly one half rounds to zero) *)
Definition t_rounds0 (x : TLoss) (p : nat) : bool := Qle_bool (Qabs' x * inject_Z (pow10 p))%Q (1 # 2)%Q.

(* token sampler: row r of the k-th call of object uid, also recording how much history it was shown *)
Definition t_propose (s : sampler) (ps : list TParam) (ls : list TLoss) : list TParam :=
  map (fun r => ((((Z.of_nat (s_uid s) * 100 + Z.of_nat (s_calls s)) * 1000 + Z.of_nat (length ps)) * 10) + Z.of_nat r)%Z)
      (seq 0 (s_bsize s)).

Definition nthZ (l : list Z) (k : nat) : Z := nth k l (-1)%Z.
Definition nthN (l : list nat) (k : nat) : nat := nth k l 0.

(* ---------- views ---------- *)
Definition sview := (nat * nat * option Z)%type.                 (* uid, calls, seed *)
Record view := mkView {
  v_exn : nat; v_nsampled : nat; v_batchidx : nat;
  v_params : list Z; v_losses : list Q; v_series : list (list (Z * Z));
  v_bnums : list nat; v_methods : list nat; v_table : list (nat * nat);
  v_kind : nat (* 0 RR, 1 RL *); v_counter : nat (* RR _batch_id *) ;
  v_samplers : list sview; v_stopped : bool; v_alive : bool;
  v_nextdraw : Z;
  v_returned : list (Z * Q);
  v_disk : option (nat * nat * list Z * list Q * list (list (Z * Z)) * list nat * list nat * nat * list sview * Z)
}.

Definition opt_seed_ok (m o : option Z) : bool :=
  match m, o with None, _ => true | Some a, Some b => Z.eqb a b | Some _, None => false end.
Fixpoint list_eqb {A} (f : A -> A -> bool) (a b : list A) : bool :=
  match a, b with [] , [] => true | x :: a', y :: b' => f x y && list_eqb f a' b' | _, _ => false end.
Definition pairZ_eqb (a b : Z * Z) := Z.eqb (fst a) (fst b) && Z.eqb (snd a) (snd b).
Definition pairN_eqb (a b : nat * nat) := Nat.eqb (fst a) (fst b) && Nat.eqb (snd a) (snd b).
Definition sview_ok (m o : sview) : bool :=
  let '(u, c, sd) := m in let '(u', c', sd') := o in Nat.eqb u u' && Nat.eqb c c' && opt_seed_ok sd sd'.
Definition pq_eqb (a b : Z * Q) := Z.eqb (fst a) (fst b) && Qeq_bool (snd a) (snd b).
Definition countpq (x : Z * Q) (l : list (Z * Q)) : nat := length (filter (pq_eqb x) l).
Fixpoint sortedq (l : list Q) : bool :=
  match l with [] => true | x :: r => match r with [] => true | y :: _ => Qle_bool x y && sortedq r end end.
(* calibrate()'s return value: np.argsort leaves the order of ties open, so the model acts as a monitor:
   sorted by loss and a permutation of the recorded pairs *)
Definition returned_ok (model_pairs obs : list (Z * Q)) : bool :=
  Nat.eqb (length model_pairs) (length obs) && sortedq (map snd obs) &&
  forallb (fun x => Nat.eqb (countpq x model_pairs) (countpq x obs)) model_pairs.

Section Run.
  Variable palette : list Q.
  Variable salt : Z.
  Variable drawl : list Z.
  Variable actions : list nat.
  Variable plan : fault.

  Definition M_step := step TParam TSeries TLoss t_model (t_lossf palette salt) t_leb t_rounds0 t_propose
                            (nthZ drawl) (nthN actions) plan.
  Definition M_construct := construct TParam TSeries TLoss.
  Notation core := (core TParam TSeries TLoss).
  Notation cstate := (cstate TParam TSeries TLoss).

  Definition sviews (c : core) : list sview :=
    map (fun s => (s_uid s, s_calls s, s_seed s)) (sched_samplers _ (sch _ _ _ c)).

  Definition core_ok (c : core) (e : option exn) (ret : list (Z * Q)) (o : view) : bool :=
    Nat.eqb (match e with None => 0 | Some x => exn_code x end) (v_exn o) &&
    Nat.eqb (n_sampled _ _ _ c) (v_nsampled o) && Nat.eqb (batch_idx _ _ _ c) (v_batchidx o) &&
    list_eqb Z.eqb (params _ _ _ c) (v_params o) && list_eqb Qeq_bool (losses _ _ _ c) (v_losses o) &&
    list_eqb (list_eqb pairZ_eqb) (series _ _ _ c) (v_series o) &&
    list_eqb Nat.eqb (batch_nums _ _ _ c) (v_bnums o) && list_eqb Nat.eqb (methods _ _ _ c) (v_methods o) &&
    list_eqb pairN_eqb (tbl _ _ _ c) (v_table o) &&
    match sch _ _ _ c with
    | RR _ _ b => Nat.eqb (v_kind o) 0 && Nat.eqb b (v_counter o)
    | RL _ _ _ _ st al _ => Nat.eqb (v_kind o) 1 && Bool.eqb st (v_stopped o) && Bool.eqb al (v_alive o)
    end &&
    list_eqb sview_ok (sviews c) (v_samplers o) &&
    Z.eqb (nthZ drawl (rng_pos _ _ _ c)) (v_nextdraw o) &&
    (match e with None => returned_ok ret (v_returned o) | Some _ => true end).

  Definition disk_ok (d : option core) (o : view) : bool :=
    match d, v_disk o with
    | None, None => true
    | Some c, Some (ns, bi, ps, ls, ser, bn, ms, ctr, svs, nd) =>
        Nat.eqb (n_sampled _ _ _ c) ns && Nat.eqb (batch_idx _ _ _ c) bi &&
        list_eqb Z.eqb (params _ _ _ c) ps && list_eqb Qeq_bool (losses _ _ _ c) ls &&
        list_eqb (list_eqb pairZ_eqb) (series _ _ _ c) ser &&
        list_eqb Nat.eqb (batch_nums _ _ _ c) bn && list_eqb Nat.eqb (methods _ _ _ c) ms &&
        match sch _ _ _ c with RR _ _ b => Nat.eqb b ctr | _ => false end &&
        list_eqb sview_ok (sviews c) svs && Z.eqb (nthZ drawl (rng_pos _ _ _ c)) nd
    | _, _ => false
    end.

  (* replay: returns the index of the first operation whose view disagrees (None = all agree) *)
  Fixpoint replay (k : nat) (s : cstate) (ops : list (op * view)) : option nat :=
    match ops with
    | [] => None
    | (o, v) :: r =>
        let '(s', e, ret) := M_step s o in
        if core_ok (live _ _ _ s') e ret v && disk_ok (disk _ _ _ s') v then replay (S k) s' r else Some k
    end.
End Run.

Record tcase := mkCase {
  tc_palette : list Q; tc_salt : Z; tc_draws : list Z; tc_actions : list nat; tc_plan : fault;
  tc_cfg : config;
  tc_samplers : option (list sampler);
  tc_rl : option (list sampler * nat);          (* RL scheduler: its samplers tuple (bootstrap included) and halton id *)
  tc_rr : option (list sampler);                (* an explicitly constructed round-robin scheduler passed as `scheduler=` *)
  tc_ctor_exn : nat;                            (* observed constructor outcome: 0 = ok *)
  tc_ops : list (op * view)
}.

Definition check_case (c : tcase) : bool :=
  let sc := match tc_rl c, tc_rr c with
            | Some (l, h), _ => Some (RL TLoss l h None true false (0, 0))
            | None, Some l => Some (RR TLoss (map unseeded l) 0)
            | None, None => None end in
  match M_construct (tc_cfg c) (tc_samplers c) sc with
  | inr e => Nat.eqb (exn_code e) (tc_ctor_exn c)
  | inl s0 =>
      Nat.eqb (tc_ctor_exn c) 0 &&
      match replay (tc_palette c) (tc_salt c) (tc_draws c) (tc_actions c) (tc_plan c) 0 s0 (tc_ops c) with
      | None => true | Some _ => false end
  end.

Definition first_bad (c : tcase) : option nat :=
  let sc := match tc_rl c, tc_rr c with
            | Some (l, h), _ => Some (RL TLoss l h None true false (0, 0))
            | None, Some l => Some (RR TLoss (map unseeded l) 0)
            | None, None => None end in
  match M_construct (tc_cfg c) (tc_samplers c) sc with
  | inr e => None
  | inl s0 => replay (tc_palette c) (tc_salt c) (tc_draws c) (tc_actions c) (tc_plan c) 0 s0 (tc_ops c)
  end.

(* structural check of the RL bootstrap: supplied classes -> (classes of the scheduler's tuple, bootstrap index) *)
Definition check_bootstrap (c : list nat * list nat * nat) : bool :=
  let '(supplied, obs_classes, obs_h) := c in
  let l := map (fun k => mkS k 0 1 0 None) supplied in
  let '(l', h) := rl_bootstrap l (mkS HALTON 0 1 0 None) in
  list_eqb Nat.eqb (map s_class l') obs_classes && Nat.eqb h obs_h.
