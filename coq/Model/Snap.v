(* Model of get_closest / digitize_data  (black_it/utils/base.py:64-107).
   Executable definitions only; proofs are in Proofs/SnapP.v.

   The definitions are written once over an abstract numeric type `num` (only a strict comparison `ltb` and the
   distance `absdiff v x` = np.fabs(v - x) are used by the code) and instantiated with exact rationals `Q`, into
   which float64 values are injected exactly as m*2^e.

   Domain of the model: non-empty 1-D grids, finite values, one grid per column.  Outside it the Python code raises
   (empty grid with a non-empty value vector, fewer grids than columns: IndexError) -- the model is total and returns
   the default `zero` there; every theorem carries the corresponding hypothesis.  np.searchsorted on a grid that is not
   sorted (binary search) and on NaN values (NaN sorts last) is NOT modelled by `searchsorted_left`; what is proved for
   those situations is stated for an arbitrary insertion index (`closest_at`). *)
From Coq Require Import List QArith Qabs Bool Arith ZArith Floats.
From BlackIt Require Export Lib.Cases.
Import ListNotations.

Section Snap.
  Variable num : Type.
  Variable zero : num.                       (* default of out-of-range `nth`; never reached inside the domain *)
  Variable ltb : num -> num -> bool.         (* a < b *)
  Variable absdiff : num -> num -> num.      (* np.fabs(v - x) *)

  (* base.py:98  np.searchsorted(sorted_array, v, side="left"): on a sorted array the number of elements < v,
     which is the number of leading elements < v *)
  Fixpoint searchsorted_left (g : list num) (v : num) : nat :=
    match g with
    | [] => 0
    | x :: g' => if ltb x v then S (searchsorted_left g' v) else 0
    end.

  (* base.py:105,107  idxs[prev_idx_is_less] -= 1 ; sorted_array[idxs].
     An index 0 that is decremented becomes -1, which numpy resolves to the LAST element. *)
  Definition final_index (n idx : nat) (prev_idx_is_less : bool) : nat :=
    if prev_idx_is_less then match idx with O => n - 1 | S i => i end else idx.

  (* base.py:101-107 for one value, given its insertion index *)
  Definition closest_at (g : list num) (v : num) (idx : nat) : num :=
    let n := length g in
    let prev := nth (Nat.max (idx - 1) 0) g zero in            (* sorted_array[np.maximum(idxs - 1, 0)] *)
    let nxt := nth (Nat.min idx (n - 1)) g zero in             (* sorted_array[np.minimum(idxs, len - 1)] *)
    let prev_idx_is_less := Nat.eqb idx n || ltb (absdiff v prev) (absdiff v nxt) in
    nth (final_index n idx prev_idx_is_less) g zero.

  Definition get_closest (g : list num) (v : num) : num := closest_at g v (searchsorted_left g v).

  (* get_closest is vectorised over `values` *)
  Definition get_closest_vec (g : list num) (vs : list num) : list num := map (get_closest g) vs.

  (* a 2-D array is a list of rows *)
  Definition width (m : list (list num)) : nat := length (hd [] m).                       (* data.shape[1] *)
  Definition column (c : nat) (m : list (list num)) : list num := map (fun row => nth c row zero) m.  (* data[:, c] *)
  Definition cell (r c : nat) (m : list (list num)) : num := nth c (nth r m []) zero.

  (* base.py:77-82  out = zeros(data.shape); for i in range(data.shape[1]): out[:, i] = get_closest(param_grid[i], data[:, i]) *)
  Definition digitize (raw : list (list num)) (grids : list (list num)) : list (list num) :=
    let cols := map (fun c => get_closest_vec (nth c grids []) (column c raw)) (seq 0 (width raw)) in
    map (fun r => map (fun col => nth r col zero) cols) (seq 0 (length raw)).
End Snap.

(* ---------------------------------------------------------------- instance: exact rationals *)
Definition Qltb (a b : Q) : bool := negb (Qle_bool b a).
Definition Qabsdiff (v x : Q) : Q := Qabs (v - x).

Definition ssQ : list Q -> Q -> nat := searchsorted_left Q Qltb.
Definition closest_atQ : list Q -> Q -> nat -> Q := closest_at Q 0 Qltb Qabsdiff.
Definition get_closestQ : list Q -> Q -> Q := get_closest Q 0 Qltb Qabsdiff.
Definition get_closest_vecQ : list Q -> list Q -> list Q := get_closest_vec Q 0 Qltb Qabsdiff.
Definition digitizeQ : list (list Q) -> list (list Q) -> list (list Q) := digitize Q 0 Qltb Qabsdiff.
Definition cellQ : nat -> nat -> list (list Q) -> Q := cell Q 0.

(* ---------------------------------------------------------------- correspondence *)
(* 1 + 2^-50 : relative slack within which two rounded float distances need not be separated by `<` *)
Definition tol_factor : Q := 1125899906842625 # 1125899906842624.

(* one observed cell.  Exact mode: the implementation's value is the model's value.  Tolerant mode (generic floats
   only): float subtraction is rounded (monotonically), so when the lower neighbour is closer by less than the
   rounding the two rounded distances can coincide and the code keeps the upper neighbour.  Hence the implementation
   may also return a grid element ABOVE the model's whose exact distance is strictly larger but within a factor
   1 + 2^-50.  An exact tie is never excused. *)
Definition cell_ok (tol : bool) (g : list Q) (v o : Q) : bool :=
  let m := get_closestQ g v in
  Qeq_bool o m
  || (tol && existsb (Qeq_bool o) g && Qltb m o && Qltb (Qabsdiff v m) (Qabsdiff v o)
      && Qle_bool (Qabsdiff v o) (Qabsdiff v m * tol_factor)).

Fixpoint vec_ok (tol : bool) (g : list Q) (vs os : list Q) : bool :=
  match vs, os with
  | [], [] => true
  | v :: vs', o :: os' => cell_ok tol g v o && vec_ok tol g vs' os'
  | _, _ => false
  end.

Fixpoint qlist_eqb (a b : list Q) : bool :=
  match a, b with
  | [], [] => true
  | x :: a', y :: b' => Qeq_bool x y && qlist_eqb a' b'
  | _, _ => false
  end.
Fixpoint qmat_eqb (a b : list (list Q)) : bool :=
  match a, b with
  | [], [] => true
  | x :: a', y :: b' => qlist_eqb x y && qmat_eqb a' b'
  | _, _ => false
  end.

(* row of a digitised matrix against the grids of its columns *)
Fixpoint row_ok (tol : bool) (grids : list (list Q)) (vs os : list Q) : bool :=
  match vs, os with
  | [], [] => true
  | v :: vs', o :: os' => cell_ok tol (hd [] grids) v o && row_ok tol (tl grids) vs' os'
  | _, _ => false
  end.
Fixpoint mat_ok (tol : bool) (grids : list (list Q)) (raw obs : list (list Q)) : bool :=
  match raw, obs with
  | [], [] => true
  | r :: raw', o :: obs' => row_ok tol grids r o && mat_ok tol grids raw' obs'
  | _, _ => false
  end.

(* a case over exact rationals *)
Inductive caseQ :=
| GCq (tol : bool) (g vs obs : list Q)                    (* obs = get_closest(g, vs) *)
| DGq (tol : bool) (grids raw obs : list (list Q)).       (* obs = digitize_data(raw, grids) *)

Definition check_caseQ (c : caseQ) : bool :=
  match c with
  | GCq tol g vs obs =>
      if tol then vec_ok true g vs obs else qlist_eqb (get_closest_vecQ g vs) obs
  | DGq tol grids raw obs =>
      if tol then mat_ok true grids raw obs else qmat_eqb (digitizeQ raw grids) obs
  end.

(* the same with no slack; used only to COUNT the tolerant cases that needed the slack *)
Definition check_caseQ_strict (c : caseQ) : bool :=
  match c with
  | GCq _ g vs obs => qlist_eqb (get_closest_vecQ g vs) obs
  | DGq _ grids raw obs => qmat_eqb (digitizeQ raw grids) obs
  end.

(* ---------------------------------------------------------------- transport of float64 values
   The generated case files carry the implementation's float64 inputs/outputs as hexadecimal PrimFloat literals
   (parsed natively: ~20x faster than the decimal Z literals of a `Qmake`), and the exact injection
   float64 -> Q  (s, m, e) |-> (-1)^s * m * 2^e  is computed here, inside Coq.  PrimFloat is only a codec: the model
   that is compared and all theorems are over Q.  (The harness re-checks the codec on every run against Python's
   float.as_integer_ratio through the CODEC cases.) *)
Definition q_of_float (f : float) : Q :=
  match Prim2SF f with
  | S754_finite s m e =>
      let mz := if s then Zneg m else Zpos m in
      match e with
      | Z0 => mz # 1
      | Zpos p => Z.shiftl mz (Zpos p) # 1
      | Zneg p => mz # Pos.iter xO 1%positive p
      end
  | _ => 0                                   (* +-0; infinities / NaN are rejected by `finite` below *)
  end.
Definition finite (f : float) : bool := negb (is_nan f || is_infinity f).
Definition qs (l : list float) : list Q := map q_of_float l.
Definition qss (m : list (list float)) : list (list Q) := map qs m.
Definition finite_l (l : list float) : bool := forallb finite l.
Definition finite_m (m : list (list float)) : bool := forallb finite_l m.

Inductive case :=
| GC (tol : bool) (g vs obs : list float)                    (* obs = get_closest(g, vs) *)
| DG (tol : bool) (grids raw obs : list (list float))        (* obs = digitize_data(raw, grids) *)
| CODEC (f : float) (n : Z) (d : positive).                  (* Python: f.as_integer_ratio() == (n, d) *)

Definition inject (c : case) : caseQ :=
  match c with
  | GC tol g vs obs => GCq tol (qs g) (qs vs) (qs obs)
  | DG tol grids raw obs => DGq tol (qss grids) (qss raw) (qss obs)
  | CODEC _ _ _ => GCq false [] [] []
  end.
Definition all_finite (c : case) : bool :=
  match c with
  | GC _ g vs obs => finite_l g && finite_l vs && finite_l obs
  | DG _ grids raw obs => finite_m grids && finite_m raw && finite_m obs
  | CODEC f _ _ => finite f
  end.

(* gating comparison *)
Definition check_case (c : case) : bool :=
  all_finite c &&
  match c with
  | CODEC f n d => Qeq_bool (q_of_float f) (n # d)
  | _ => check_caseQ (inject c)
  end.
Definition check_case_strict (c : case) : bool :=
  all_finite c && match c with CODEC _ _ _ => true | _ => check_caseQ_strict (inject c) end.

(* ---------------------------------------------------------------- diagnostic only (never gates):
   the same definitions instantiated with IEEE-754 binary64 operations, i.e. a bit-level replica of the numpy code *)
Definition Fabsdiff (v x : float) : float := abs (v - x).
Definition get_closest_vecF : list float -> list float -> list float := get_closest_vec float 0%float PrimFloat.ltb Fabsdiff.
Definition digitizeF : list (list float) -> list (list float) -> list (list float) := digitize float 0%float PrimFloat.ltb Fabsdiff.
Fixpoint flist_eqb (a b : list float) : bool :=
  match a, b with
  | [], [] => true
  | x :: a', y :: b' => PrimFloat.eqb x y && flist_eqb a' b'
  | _, _ => false
  end.
Fixpoint fmat_eqb (a b : list (list float)) : bool :=
  match a, b with
  | [], [] => true
  | x :: a', y :: b' => flist_eqb x y && fmat_eqb a' b'
  | _, _ => false
  end.
Definition check_case_float (c : case) : bool :=
  match c with
  | GC _ g vs obs => flist_eqb (get_closest_vecF g vs) obs
  | DG _ grids raw obs => fmat_eqb (digitizeF raw grids) obs
  | CODEC _ _ _ => true
  end.
