(* Model of the epsilon-greedy bandit agent and the bandit reward
     black_it/schedulers/rl/agents/epsilon_greedy.py:47-91   (MABEpsilonGreedy)
     black_it/schedulers/rl/envs/mab.py:32-47                (MABCalibrationEnv.get_reward)
     black_it/schedulers/rl/envs/base.py:44                  (_curr_best_loss, initially None)
   over exact rationals.  Executable definitions only; proofs are in Proofs/BanditP.v.
   External calls: the two draws of numpy's Generator inside policy() (random() and choice(arange(n),1)[0])
   are INPUTS of `policy` (u and alt); nothing is assumed about them here. *)
From Coq Require Import List ZArith QArith Qabs Bool Arith Uint63.
From BlackIt Require Export Lib.Cases.
Import ListNotations.
Open Scope Q_scope.

Inductive exn := ValueError | ZeroDivisionError | IndexError | OtherError.
Inductive result (A : Type) := Ok (a : A) | Raise (e : exn).
Arguments Ok {A} a.
Arguments Raise {A} e.

Definition exn_eqb (a b : exn) : bool :=
  match a, b with
  | ValueError, ValueError | ZeroDivisionError, ZeroDivisionError | IndexError, IndexError | OtherError, OtherError => true
  | _, _ => false
  end.

(* x < y on rationals, as a boolean (Python `x < y` on finite numbers) *)
Definition Qltb (x y : Q) : bool := negb (Qle_bool y x).

(* ------------------------------------------------------------------ the agent *)
(* self.n_actions, self.Q, self.actions_count *)
Record agent := mkAgent { n_act : nat; qs : list Q; cnts : list nat }.

(* __init__ (epsilon_greedy.py:47-54): actions_count = [0]*n ; Q = [initial_values]*n *)
Definition init_agent (n : nat) (v : Q) : agent := mkAgent n (repeat v n) (repeat 0%nat n).

(* reset (:88-91): Q = [0.0]*n (NOT initial_values) ; actions_count = [0]*n *)
Definition reset (s : agent) : agent := mkAgent (n_act s) (repeat 0 (n_act s)) (repeat 0%nat (n_act s)).

(* l[i] = f(l[i]); identity when i is out of range (the callers below test the range first) *)
Fixpoint upd {A} (i : nat) (f : A -> A) (l : list A) : list A :=
  match l, i with
  | [], _ => []
  | x :: r, O => f x :: r
  | x :: r, S i' => x :: upd i' f r
  end.

Definition qn (n : nat) : Q := inject_Z (Z.of_nat n).

(* get_step_size (:56-58): 1 / self.actions_count[action] if self.alpha == -1 else self.alpha
   (called after the increment, so the count read here is already >= 1) *)
Definition step_size (alpha : Q) (counts : list nat) (a : nat) : Q :=
  if Qeq_bool alpha (-1 # 1) then 1 / qn (nth a counts 0%nat) else alpha.

(* learn (:60-73) for an action inside both lists:
     self.actions_count[action] += 1
     step_size = self.get_step_size(action)
     self.Q[action] += step_size * (reward - self.Q[action])
   Qred only changes the representation of the rational (Qred q == q); it keeps numerators small. *)
Definition learn (alpha : Q) (s : agent) (a : nat) (r : Q) : agent :=
  let c' := upd a S (cnts s) in
  let st := step_size alpha c' a in
  mkAgent (n_act s) (upd a (fun q => Qred (q + st * (r - q))) (qs s)) c'.

(* learn with Python's list indexing made explicit (non-negative indices): the first subscript that is out of
   range raises IndexError; the increment of the count survives if only the second list is too short. *)
Definition learn_res (alpha : Q) (s : agent) (a : nat) (r : Q) : result unit * agent :=
  if a <? length (cnts s) then
    if a <? length (qs s) then (Ok tt, learn alpha s a r)
    else (Raise IndexError, mkAgent (n_act s) (qs s) (upd a S (cnts s)))
  else (Raise IndexError, s).

(* np.argmax of a non-empty list: the FIRST index holding the maximum *)
Fixpoint argmax_from (l : list Q) (i bi : nat) (bv : Q) : nat :=
  match l with
  | [] => bi
  | x :: r => if Qltb bv x then argmax_from r (S i) i x else argmax_from r (S i) bi bv
  end.
Definition argmax (l : list Q) : nat :=
  match l with [] => 0%nat | x :: r => argmax_from r 1 0 x end.

(* policy (:75-86):
     best_action = np.argmax(self.Q)                     -- ValueError on an empty sequence
     random_e = self.random_generator.random()           -- input u
     if not random_e < self.eps: action = best_action
     else: action = self.random_generator.choice(np.arange(self.n_actions), 1)[0]     -- input alt
   `policy_draws_alt` says whether the second draw is made. *)
Definition policy_draws_alt (eps u : Q) : bool := Qltb u eps.
Definition policy (eps : Q) (s : agent) (u : Q) (alt : nat) : result nat :=
  match qs s with
  | [] => Raise ValueError
  | _ => let best := argmax (qs s) in
         if negb (Qltb u eps) then Ok best else Ok alt
  end.

(* ------------------------------------------------------------------ the environment *)
(* self._curr_best_loss : float | None *)
Definition env := option Q.

(* get_reward (mab.py:32-47):
     if self._curr_best_loss is None: raise ValueError
     reward = 0.0
     if best_loss < self._curr_best_loss:
         reward = (self._curr_best_loss - best_loss) / self._curr_best_loss     -- ZeroDivisionError when it is 0
         self._curr_best_loss = best_loss                                         -- not reached when the line above raises
     return reward
   Returns (outcome, new reference). *)
Definition get_reward (ref : env) (loss : Q) : result Q * env :=
  match ref with
  | None => (Raise ValueError, None)
  | Some cur =>
      if Qltb loss cur then
        if Qeq_bool cur 0 then (Raise ZeroDivisionError, Some cur)
        else (Ok ((cur - loss) / cur), Some loss)
      else (Ok 0, Some cur)
  end.

(* a whole sequence of get_reward calls (a caller may catch an exception and go on: the state survives) *)
Fixpoint env_run (ref : env) (losses : list Q) : list (result Q) * env :=
  match losses with
  | [] => ([], ref)
  | x :: t => let '(o, ref') := get_reward ref x in
              let '(os, ref'') := env_run ref' t in (o :: os, ref'')
  end.

(* ------------------------------------------------------------------ sequences *)
(* any interleaved sequence of learn calls (action, reward) *)
Definition run_learn (alpha : Q) (s : agent) (tr : list (nat * Q)) : agent :=
  fold_left (fun s ar => learn alpha s (fst ar) (snd ar)) tr s.

(* the rewards received for action a, in order *)
Definition rewards_of (a : nat) (tr : list (nat * Q)) : list Q :=
  map snd (filter (fun ar => Nat.eqb (fst ar) a) tr).

(* The agent loop of RLScheduler._train (rl_scheduler.py:113-120): policy, then learn with the reward received.
   Open loop: the k-th draw pair (u, alt) and the k-th received reward are given; returns the chosen actions. *)
Definition act_of (eps : Q) (s : agent) (d : Q * nat) : nat :=
  match policy eps s (fst d) (snd d) with Ok a => a | Raise _ => 0%nat end.

Fixpoint replay (alpha eps : Q) (s : agent) (draws : list (Q * nat)) (rewards : list Q) : list nat :=
  match draws, rewards with
  | d :: ds, r :: rs => let a := act_of eps s d in a :: replay alpha eps (learn alpha s a r) ds rs
  | _, _ => []
  end.

(* Closed loop against an arbitrary environment E : history of (action, reward) so far -> action -> reward. *)
Fixpoint closed_loop (alpha eps : Q) (E : list (nat * Q) -> nat -> Q) (s : agent) (hist : list (nat * Q))
         (draws : list (Q * nat)) : list (nat * Q) :=
  match draws with
  | [] => []
  | d :: ds => let a := act_of eps s d in
               let r := E hist a in
               (a, r) :: closed_loop alpha eps E (learn alpha s a r) (hist ++ [(a, r)]) ds
  end.

(* ------------------------------------------------------------------ correspondence *)
(* Transport of an implementation float into Q: the exact value (-1)^neg * m * 2^e with m < 2^53 given as a
   primitive integer literal (parsed in constant time; a 53-bit %Z literal costs ~1.5 ms to elaborate).
   Used only by the generated cases_*.v files, never by a theorem. *)
Definition fl (neg : bool) (m : int) (e : Z) : Q :=
  let z := Uint63.to_Z m in
  let z := if neg then Z.opp z else z in
  match e with
  | Z0 => Qmake z 1
  | Zpos p => Qmake (z * 2 ^ Zpos p) 1
  | Zneg p => Qmake z (2 ^ p)%positive
  end.

Definition qmax (x y : Q) : Q := if Qle_bool x y then y else x.
(* |x - y| <= 1e-12 * max(|y|, scale) + 1e-15 *)
Definition close (scale x y : Q) : bool :=
  Qle_bool (Qabs (x - y)) ((1 # 1000000000000) * qmax (Qabs y) scale + (1 # 1000000000000000)).
(* |x - y| <= 1e-12 * |y| *)
Definition close_rel (x y : Q) : bool := Qle_bool (Qabs (x - y)) ((1 # 1000000000000) * Qabs y).

Definition oq_eqb (a b : option Q) : bool :=
  match a, b with Some x, Some y => Qeq_bool x y | None, None => true | _, _ => false end.
Fixpoint qlist_eqb (a b : list Q) : bool :=
  match a, b with [] , [] => true | x :: a', y :: b' => Qeq_bool x y && qlist_eqb a' b' | _, _ => false end.
Fixpoint qlist_close (scale : Q) (a b : list Q) : bool :=
  match a, b with [] , [] => true | x :: a', y :: b' => close scale x y && qlist_close scale a' b' | _, _ => false end.
Fixpoint natlist_eqb (a b : list nat) : bool :=
  match a, b with [] , [] => true | x :: a', y :: b' => Nat.eqb x y && natlist_eqb a' b' | _, _ => false end.

(* one observed call on the real objects, with what the implementation returned / held afterwards *)
Inductive op :=
| OLearn (a : nat) (r : Q) (raised : bool) (oq : Q) (oc : nat)      (* afterwards: Q[a], actions_count[a] *)
| OPolicy (u : Q) (alt : option nat) (raised : bool) (act : nat)    (* alt = Some k iff the 2nd draw was made *)
| OReset
| OFull (oqs : list Q) (ocs : list nat)                             (* both complete lists as they are now *)
| OSetRef (x : option Q)                                            (* env._curr_best_loss = x, as the scheduler does *)
| OReward (loss : Q) (oexn : option exn) (orew : Q) (oref : option Q).

(* checker state: exact model agent, the implementation's own float estimates (exact rationals of the floats),
   model reference, running magnitude of the numbers that entered the estimates *)
Record cst := mkCst { c_ag : agent; c_fq : list Q; c_ref : env; c_scale : Q }.

(* The action is decided by the model's `policy` on the implementation's own float estimates (so ties and
   near-ties are resolved on the values the code really compared); those floats are themselves checked against
   the exact model after every learn, hence the action is maximal in the exact model up to twice that tolerance. *)
Definition check_op (alpha eps : Q) (c : cst) (o : op) : bool * cst :=
  match o with
  | OLearn a r raised oq oc =>
      let '(res, ag') := learn_res alpha (c_ag c) a r in
      match res with
      | Raise _ => (raised, mkCst ag' (c_fq c) (c_ref c) (c_scale c))
      | Ok _ =>
          let sc := qmax (c_scale c) (Qabs r) in
          (negb raised && close sc oq (nth a (qs ag') 0) && Nat.eqb oc (nth a (cnts ag') 0%nat),
           mkCst ag' (upd a (fun _ => oq) (c_fq c)) (c_ref c) sc)
      end
  | OPolicy u alt raised act =>
      let altv := match alt with Some k => k | None => 0%nat end in
      let on_floats := policy eps (mkAgent (n_act (c_ag c)) (c_fq c) (cnts (c_ag c))) u altv in
      let ok :=
        match on_floats with
        | Raise _ => raised
        | Ok a =>
            negb raised
            && Nat.eqb a act                                                   (* decided on the implementation's floats *)
            && Bool.eqb (match alt with Some _ => true | None => false end) (policy_draws_alt eps u)
            && (act <? n_act (c_ag c))%nat
        end in
      (ok, c)
  | OReset => (true, mkCst (reset (c_ag c)) (repeat 0 (n_act (c_ag c))) (c_ref c) 0)
  | OFull oqs ocs =>
      (qlist_eqb oqs (c_fq c) && qlist_close (c_scale c) oqs (qs (c_ag c)) && natlist_eqb ocs (cnts (c_ag c)), c)
  | OSetRef x => (true, mkCst (c_ag c) (c_fq c) x (c_scale c))
  | OReward loss oexn orew oref =>
      let '(res, ref') := get_reward (c_ref c) loss in
      let ok :=
        match res, oexn with
        | Ok rw, None => close_rel orew rw
        | Raise e, Some e' => exn_eqb e e'
        | _, _ => false
        end in
      (ok && oq_eqb oref ref', mkCst (c_ag c) (c_fq c) ref' (c_scale c))
  end.

Fixpoint check_ops (alpha eps : Q) (c : cst) (ops : list op) : bool :=
  match ops with
  | [] => true
  | o :: t => let '(ok, c') := check_op alpha eps c o in if ok then check_ops alpha eps c' t else false
  end.

(* index of the first op on which model and implementation disagree (diagnostics for replays) *)
Fixpoint first_bad (alpha eps : Q) (c : cst) (ops : list op) (k : nat) : option nat :=
  match ops with
  | [] => None
  | o :: t => let '(ok, c') := check_op alpha eps c o in if ok then first_bad alpha eps c' t (S k) else Some k
  end.

(* case = (n_actions, alpha, eps, initial_values, observed calls) *)
Definition init_cst (n : nat) (init : Q) : cst := mkCst (init_agent n init) (repeat init n) None (Qabs init).
Definition check_case (c : nat * Q * Q * Q * list op) : bool :=
  let '(n, alpha, eps, init, ops) := c in check_ops alpha eps (init_cst n init) ops.
Definition first_bad_case (c : nat * Q * Q * Q * list op) : option nat :=
  let '(n, alpha, eps, init, ops) := c in first_bad alpha eps (init_cst n init) ops 0.

(* ================================================================== round 4 (generator sweep) *)
(* ------------------------------------------------------------------ attribute values in force *)
(* `alpha` and `eps` are public attributes read at every call (get_step_size :58, policy :81): the value in force at
   a call is the one assigned last.  A learn sequence where every call carries the learning rate then in force: *)
Definition run_learn_v (s : agent) (tr : list (Q * (nat * Q))) : agent :=
  fold_left (fun s x => learn (fst x) s (fst (snd x)) (snd (snd x))) tr s.
Definition rewards_of_v (a : nat) (tr : list (Q * (nat * Q))) : list Q := rewards_of a (map snd tr).

(* the agent loop where every round carries the (alpha, eps) in force *)
Fixpoint replay_v (s : agent) (rounds : list ((Q * Q) * (Q * nat))) (rewards : list Q) : list nat :=
  match rounds, rewards with
  | (ae, d) :: ds, r :: rs => let a := act_of (snd ae) s d in a :: replay_v (learn (fst ae) s a r) ds rs
  | _, _ => []
  end.

(* ------------------------------------------------------------------ CalibrationEnv.step / reset *)
(* step (envs/base.py:64-79):
     _assert(self.action_space.contains(action))        -- plain Exception, before anything else happens
     self._out_queue.put(action) ; result = self._in_queue.get()
     if result is None: return self.reset_state(), 0.0, False, True, {}       -- end of session: reference untouched
     best_param, best_loss = result
     reward = self.get_reward(best_param, best_loss)
     return next_obs, reward, False, False, {}
   `valid` = the action is inside Discrete(nb_samplers); msg = what the scheduler put on the queue.
   Result: (reward, truncated). *)
Definition env_step (valid : bool) (ref : env) (msg : option Q) : result (Q * bool) * env :=
  if valid then
    match msg with
    | None => (Ok (0, true), ref)
    | Some loss =>
        let '(o, ref') := get_reward ref loss in
        (match o with Ok r => Ok (r, false) | Raise e => Raise e end, ref')
    end
  else (Raise OtherError, ref).

(* reset (envs/base.py:55-62): returns (self.reset_state(), {}) and nothing else *)
Definition env_reset (ref : env) : env := ref.

Fixpoint env_steps (ref : env) (msgs : list (option Q)) : list (result (Q * bool)) * env :=
  match msgs with
  | [] => ([], ref)
  | m :: t => let '(o, ref') := env_step true ref m in
              let '(os, ref'') := env_steps ref' t in (o :: os, ref'')
  end.
(* the losses among the messages (end-of-session markers dropped) *)
Fixpoint losses_of (msgs : list (option Q)) : list Q :=
  match msgs with [] => [] | Some x :: t => x :: losses_of t | None :: t => losses_of t end.

(* ------------------------------------------------------------------ correspondence with reassigned attributes *)
Inductive xop :=
| XOp (o : op)                                   (* a call of the first kind, checked by check_op *)
| XSetAlpha (a : Q)                              (* agent.alpha = a *)
| XSetEps (e : Q)                                (* agent.eps = e *)
| XSetQ (l : list Q)                             (* agent.Q = l   or   agent.Q[:] = l *)
| XSetC (l : list nat)                           (* agent.actions_count = l *)
| XSetN (n : nat)                                (* agent.n_actions = n *)
| XEnvReset                                      (* env.reset(seed=...) *)
| XStep (valid : bool) (msg : option Q) (oexn : option exn) (orew : Q) (otrunc : bool) (oref : option Q).

Record xst := mkX { x_alpha : Q; x_eps : Q; x_c : cst }.

Fixpoint qmaxabs (l : list Q) : Q := match l with [] => 0 | x :: t => qmax (Qabs x) (qmaxabs t) end.

Definition check_xop (x : xst) (o : xop) : bool * xst :=
  let c := x_c x in
  match o with
  | XOp o' => let '(ok, c') := check_op (x_alpha x) (x_eps x) c o' in (ok, mkX (x_alpha x) (x_eps x) c')
  | XSetAlpha a => (true, mkX a (x_eps x) c)
  | XSetEps e => (true, mkX (x_alpha x) e c)
  | XSetQ l => (true, mkX (x_alpha x) (x_eps x)
                        (mkCst (mkAgent (n_act (c_ag c)) l (cnts (c_ag c))) l (c_ref c) (qmax (c_scale c) (qmaxabs l))))
  | XSetC l => (true, mkX (x_alpha x) (x_eps x)
                        (mkCst (mkAgent (n_act (c_ag c)) (qs (c_ag c)) l) (c_fq c) (c_ref c) (c_scale c)))
  | XSetN n => (true, mkX (x_alpha x) (x_eps x)
                        (mkCst (mkAgent n (qs (c_ag c)) (cnts (c_ag c))) (c_fq c) (c_ref c) (c_scale c)))
  | XEnvReset => (true, mkX (x_alpha x) (x_eps x) (mkCst (c_ag c) (c_fq c) (env_reset (c_ref c)) (c_scale c)))
  | XStep valid msg oexn orew otrunc oref =>
      let '(res, ref') := env_step valid (c_ref c) msg in
      let ok :=
        match res, oexn with
        | Ok (rw, tr), None => close_rel orew rw && Bool.eqb otrunc tr
        | Raise e, Some e' => exn_eqb e e'
        | _, _ => false
        end in
      (ok && oq_eqb oref ref', mkX (x_alpha x) (x_eps x) (mkCst (c_ag c) (c_fq c) ref' (c_scale c)))
  end.

Fixpoint check_xops (x : xst) (ops : list xop) : bool :=
  match ops with
  | [] => true
  | o :: t => let '(ok, x') := check_xop x o in if ok then check_xops x' t else false
  end.
Fixpoint first_xbad (x : xst) (ops : list xop) (k : nat) : option nat :=
  match ops with
  | [] => None
  | o :: t => let '(ok, x') := check_xop x o in if ok then first_xbad x' t (S k) else Some k
  end.

Definition check_xcase (c : nat * Q * Q * Q * list xop) : bool :=
  let '(n, alpha, eps, init, ops) := c in check_xops (mkX alpha eps (init_cst n init)) ops.
Definition first_xbad_case (c : nat * Q * Q * Q * list xop) : option nat :=
  let '(n, alpha, eps, init, ops) := c in first_xbad (mkX alpha eps (init_cst n init)) ops 0.
