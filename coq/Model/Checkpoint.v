(* Model of the two persistence back-ends and of restore_from_checkpoint.
     black_it/utils/json_pandas_checkpointing.py (tree 8564019) : _commit_checkpoint 69-87, load_calibrator_state 90-163,
                                                    load_samplers_id_table 166-178, save_calibrator_state 181-313
                                                    (four data files, HDF5 appended in place, then the json WITH THEIR DIGESTS,
                                                    written last under a temporary name and moved into place)
     black_it/calibrator.py                       : restore_from_checkpoint 248-325, create_checkpoint 499-538
     black_it/utils/sqlite3_checkpointing.py      : load_calibrator_state 200-285, save_calibrator_state 288-391
   Executable definitions only.  The model follows the REPAIRED code (fixes.d/C04-*.patch):
     - stale-series      : the HDF5 rows already on disk are kept only when they are a prefix of the series being saved
                           (h5_write); the writer of the pinned tree is kept as h5_write_legacy for the refutation
     - empty-table-dtype : load casts the CSV columns to float64/int64 (pandas infers `object` for a table without rows)
     - sqlite-scalar-types : load undoes the REAL/INTEGER column affinities on convergence_precision and verbose
   External codecs (json, pickle, pandas to_csv/read_csv) are Section variables; their contracts are the Props
   json_rt, pickle_s_rt, pickle_l_rt, csv_exact below (hypotheses of the theorems, never axioms).
   HDF5 and np.save blobs are binary float64/int64 images: modelled structurally (exact). *)
From Coq Require Import List ZArith Bool Arith.
From BlackIt Require Import Model.Calibrator.
Import ListNotations.

Inductive cexn :=
| ExPickle      (* TypeError: cannot pickle '_thread.lock' object *)
| ExMissing     (* FileNotFoundError *)
| ExDecode      (* JSONDecodeError / EOFError / UnpicklingError / ParserError: slot present but not decodable *)
| ExKey         (* KeyError: params_samp_<i> is not a column of the table *)
| ExFrame       (* ValueError: All arrays must be of the same length (DataFrame.from_dict) *)
| ExStack       (* ValueError: need at least one array to concatenate (np.vstack of no column) *)
| ExShape       (* TypeError: Can't broadcast (legacy HDF5 append into rows of another shape) *)
| ExModelName   (* the model provided appears to be different from the one present in the database *)
| ExSchema      (* SchemaVersionMismatchError *)
| ExNoTable     (* sqlite3.OperationalError: no such table: checkpoint *)
| ExNoRow       (* TypeError: cannot unpack non-iterable NoneType (fetchone() on an empty table) *)
| ExInconsistent. (* InconsistentCheckpointError: a data file does not have the digest recorded in the json *)
Definition cexn_code (e : cexn) : nat :=
  match e with ExPickle => 1 | ExMissing => 2 | ExDecode => 3 | ExKey => 4 | ExFrame => 5 | ExStack => 6 | ExShape => 7
             | ExModelName => 8 | ExSchema => 9 | ExNoTable => 10 | ExNoRow => 11 | ExInconsistent => 12 end.

Inductive result (A : Type) := Ok (a : A) | Raise (e : cexn).
Arguments Ok {A} a.
Arguments Raise {A} e.

Inductive dtype := DF64 | DI64 | DObj.
Definition dtype_code (d : dtype) : nat := match d with DF64 => 0 | DI64 => 1 | DObj => 2 end.
(* pandas' type inference on a parsed column: a column without rows is `object` *)
Definition inferred (want : dtype) (nrows : nat) : dtype := if Nat.eqb nrows 0 then DObj else want.
(* ndarray.astype / Series.to_numpy(dtype=...) *)
Definition astype (want : dtype) (_ : dtype) : dtype := want.

Definition shape3 := (nat * nat * nat)%type.           (* (ensemble_size, N, D): shape of one row of series_samp *)
Definition shape_eqb (a b : shape3) : bool :=
  let '(a1, a2, a3) := a in let '(b1, b2, b3) := b in Nat.eqb a1 b1 && Nat.eqb a2 b2 && Nat.eqb a3 b3.

Fixpoint list_eqb {A} (f : A -> A -> bool) (a b : list A) : bool :=
  match a, b with [], [] => true | x :: a', y :: b' => f x y && list_eqb f a' b' | _, _ => false end.

Section Ckpt.
  Variable F : Type.                                   (* a float64, identified with its 64 bits *)
  Variable F_eqb : F -> F -> bool.                     (* equality of the bytes (ndarray.tobytes()) *)
  Variables Str Gen Sched Loss : Type.                 (* str; bit_generator.state dict; scheduler and loss objects *)
  Variable str_eqb : Str -> Str -> bool.
  Variables JsonT PSched PLoss CsvT : Type.            (* the texts / byte strings found in the files *)
  Variable Dg : Type.                                  (* a SHA-256 digest *)
  Variable Dg_eqb : Dg -> Dg -> bool.

  Definition row := list F.                            (* one row of series_samp, flattened (E*N*D floats) *)
  Definition rows_eqb (a b : list row) : bool := list_eqb (list_eqb F_eqb) a b.

  (* ------------------------------------------------------------------ the calibrator state that is persisted *)
  Record state := mkState {
    s_bounds : list (list F); s_precision : list F; s_real : list (list F);
    s_E : nat; s_N : nat; s_D : nat; s_prec : option nat; s_verbose : bool;
    s_saving : option Str; s_seed : option Z; s_gen : Gen; s_model : Str;
    s_sched : Sched; s_loss : Loss;
    s_batch : nat; s_nsampled : nat; s_njobs : nat;
    s_pdims : nat; s_params : list (list F);             (* params_samp: shape (len, pdims) *)
    s_losses : list F;
    s_sshape : shape3; s_series : list row;              (* series_samp: shape (len, E, N, D) *)
    s_bnums : list Z; s_methods : list Z;
    s_table : list (Str * nat);
    s_dts : dtype * dtype * dtype * dtype                (* dtypes of params_samp, losses_samp, batch_num_samp, method_samp *)
  }.
  Definition live_dts : dtype * dtype * dtype * dtype := (DF64, DF64, DI64, DI64).
  Definition ncols (m : list (list F)) : nat := match m with [] => 0 | r :: _ => length r end.

  (* ------------------------------------------------------------------ the folder: five optional slots *)
  Record jparams := mkJ {
    j_bounds : list (list F); j_precision : list F; j_real : list (list F);
    j_E : nat; j_N : nat; j_D : nat; j_prec : option nat; j_verbose : bool;
    j_saving : option Str; j_seed : option Z; j_gen : Gen; j_model : Str;
    j_batch : nat; j_nsampled : nat; j_njobs : nat;
    j_table : option (list (Str * nat));                 (* absent in checkpoints written before c25ce62 *)
    j_files : option (Dg * Dg * Dg * Dg)                 (* files_sha256: scheduler pickle, loss pickle, csv, h5 - absent in
                                                            checkpoints written before 8564019 (then nothing is checked) *)
  }.
  Definition csvrow := (F * Z * Z * list F)%type.        (* losses_samp, batch_num_samp, method_samp, params_samp_0.. *)
  Record csvtable := mkTab { t_ncols : nat; t_rows : list csvrow }.   (* t_ncols = number of params_samp_<d> columns *)
  Record h5file := mkH5 { h_shape : shape3; h_rows : list row }.      (* dataset "data", resizable along axis 0 *)

  Record folder := mkF {
    f_json : option JsonT;                               (* calibration_params.json *)
    f_sched : option (option PSched);                    (* scheduler_pickled.pickle; Some None = truncated by a failed dump *)
    f_loss : option (option PLoss);                      (* loss_function_pickled.pickle *)
    f_csv : option CsvT;                                 (* calibration_results.csv *)
    f_h5 : option h5file                                 (* series_samp.h5 *)
  }.
  Definition empty_folder : folder := mkF None None None None None.
  Definition set_json (f : folder) (x : JsonT) := mkF (Some x) (f_sched f) (f_loss f) (f_csv f) (f_h5 f).
  Definition set_sched (f : folder) (x : option PSched) := mkF (f_json f) (Some x) (f_loss f) (f_csv f) (f_h5 f).
  Definition set_loss (f : folder) (x : option PLoss) := mkF (f_json f) (f_sched f) (Some x) (f_csv f) (f_h5 f).
  Definition set_csv (f : folder) (x : CsvT) := mkF (f_json f) (f_sched f) (f_loss f) (Some x) (f_h5 f).
  Definition set_h5 (f : folder) (x : h5file) := mkF (f_json f) (f_sched f) (f_loss f) (f_csv f) (Some x).

  (* SHA-256 of the four data files as they are in the folder (a truncated pickle has a digest too) *)
  Variable dg_s : option PSched -> Dg.
  Variable dg_l : option PLoss -> Dg.
  Variable dg_c : CsvT -> Dg.
  Variable dg_h : h5file -> Dg.
  Definition Dg_eqb_refl : Prop := forall d, Dg_eqb d d = true.

  (* ------------------------------------------------------------------ codecs (external) and their contracts *)
  Variable jenc : jparams -> JsonT.                      (* json.dump(..., cls=NumpyArrayEncoder) *)
  Variable jdec : JsonT -> option jparams.               (* json.load *)
  Variable pick_s : Sched -> option PSched.              (* pickle.dump; None = raises (unpicklable object) *)
  Variable unpick_s : PSched -> option Sched.
  Variable pick_l : Loss -> option PLoss.
  Variable unpick_l : PLoss -> option Loss.
  Variable csv_print : csvtable -> CsvT.                 (* DataFrame.to_csv *)
  Variable csv_parse : CsvT -> option csvtable.          (* pd.read_csv(float_precision="round_trip") *)
  Variable fresh_gen : option Z -> Gen.                  (* np.random.default_rng(seed).bit_generator.state *)
  Variable table_of : Sched -> list (Str * nat).         (* Calibrator._construct_samplers_id_table(scheduler.samplers) *)

  (* json round-trips ints, bools, None, strings exactly and floats through repr/float (shortest round-trip repr) *)
  Definition json_rt : Prop := forall p, jdec (jenc p) = Some p.
  Definition pickle_s_rt : Prop := forall x b, pick_s x = Some b -> unpick_s b = Some x.
  Definition pickle_l_rt : Prop := forall x b, pick_l x = Some b -> unpick_l b = Some x.
  (* NOT a general fact about text: it is the repaired read_csv(float_precision="round_trip") applied to to_csv's
     shortest-repr output; a hypothesis wherever it is used, observed on every run by the float stress *)
  Definition csv_exact : Prop := forall t, csv_parse (csv_print t) = Some t.
  Definition F_eqb_spec : Prop := forall a b, F_eqb a b = true <-> a = b.
  Definition str_eqb_refl : Prop := forall a, str_eqb a a = true.

  (* ------------------------------------------------------------------ series_samp.h5 *)
  (* json_pandas_checkpointing.py 221-259 after the repair: an existing file is opened in mode "a"; its rows are
     kept (and only series[k:] written) when row shapes agree, k <= len(series) and the k rows are bytewise the
     first k rows of the series; otherwise the file is re-created in mode "w" with the whole series *)
  Definition h5_is_prefix (old : h5file) (sh : shape3) (ser : list row) : bool :=
    let k := length (h_rows old) in
    shape_eqb (h_shape old) sh && Nat.leb k (length ser) && rows_eqb (h_rows old) (firstn k ser).
  Definition h5_write (old : option h5file) (sh : shape3) (ser : list row) : result h5file :=
    match old with
    | None => Ok (mkH5 sh ser)                                              (* create_dataset(data=series_samp) *)
    | Some o =>
        if h5_is_prefix o sh ser
        then Ok (mkH5 (h_shape o) (h_rows o ++ skipn (length (h_rows o)) ser))    (* resize; data[k:] = series[k:] *)
        else Ok (mkH5 sh ser)
    end.
  (* which branch ran: 1 = file created / re-created (mode "w"), 2 = appended in place (mode "a" only) *)
  Definition h5_mode (old : option h5file) (sh : shape3) (ser : list row) : nat :=
    match old with None => 1 | Some o => if h5_is_prefix o sh ser then 2 else 1 end.

  (* the writer of the pinned tree (before the repair): whatever is on disk is kept, series[k:] is appended, nothing
     is ever removed (k > len(series): series[k:] is empty).  Rows of another shape: h5py raises unless the new row
     shape broadcasts to the old one (then rows are silently repeated - not modelled, the function is used only for
     the refutation theorem and to classify the behaviour of an unrepaired tree). *)
  Definition h5_write_legacy (old : option h5file) (sh : shape3) (ser : list row) : result h5file :=
    match old with
    | None => Ok (mkH5 sh ser)
    | Some o =>
        if shape_eqb (h_shape o) sh
        then Ok (mkH5 (h_shape o) (h_rows o ++ skipn (length (h_rows o)) ser))
        else Raise ExShape
    end.

  (* ------------------------------------------------------------------ save (create_checkpoint -> save_calibrator_state) *)
  Definition jparams_of (s : state) (dgs : Dg * Dg * Dg * Dg) : jparams :=
    mkJ (s_bounds s) (s_precision s) (s_real s) (s_E s) (s_N s) (s_D s) (s_prec s) (s_verbose s) (s_saving s) (s_seed s)
        (s_gen s) (s_model s) (s_batch s) (s_nsampled s) (s_njobs s) (Some (s_table s)) (Some dgs).

  Fixpoint zip4 (a : list F) (b c : list Z) (d : list (list F)) : list csvrow :=
    match a, b, c, d with
    | x :: a', y :: b', z :: c', w :: d' => (x, y, z, w) :: zip4 a' b' c' d'
    | _, _, _, _ => []
    end.
  (* pd.DataFrame.from_dict: the columns losses_samp.tolist(), batch_num_samp.tolist(), method_samp.tolist() and
     params_samp[:, d] must all have the same length *)
  Definition frame (s : state) : option csvtable :=
    let n := length (s_losses s) in
    if Nat.eqb (length (s_bnums s)) n && Nat.eqb (length (s_methods s)) n && Nat.eqb (length (s_params s)) n
    then Some (mkTab (s_pdims s) (zip4 (s_losses s) (s_bnums s) (s_methods s) (s_params s)))
    else None.

  Inductive sresult := SOk (f : folder) | SRaise (e : cexn) (f : folder).   (* a raise leaves what was written so far *)

  (* _commit_checkpoint: digests of the four files as found in the folder, json written to calibration_params.json.tmp
     and moved over calibration_params.json (one atomic step: the json slot changes only here) *)
  Definition commit (f : folder) (s : state) (bs : option PSched) (bl : option PLoss) (ct : CsvT) (h : h5file) : folder :=
    set_json f (jenc (jparams_of s (dg_s bs, dg_l bl, dg_c ct, dg_h h))).

  Definition save_with (w : option h5file -> shape3 -> list row -> result h5file) (f : folder) (s : state) : sresult :=
    match pick_s (s_sched s) with
    | None => SRaise ExPickle (set_sched f None)                                   (* open("wb") truncates, dump raises *)
    | Some bs =>
      let f2 := set_sched f (Some bs) in
      match pick_l (s_loss s) with
      | None => SRaise ExPickle (set_loss f2 None)
      | Some bl =>
        let f3 := set_loss f2 (Some bl) in
        match frame s with
        | None => SRaise ExFrame f3
        | Some t =>
          let f4 := set_csv f3 (csv_print t) in                                    (* to_csv *)
          match w (f_h5 f) (s_sshape s) (s_series s) with
          | Ok h => SOk (commit (set_h5 f4 h) s (Some bs) (Some bl) (csv_print t) h)
          | Raise e => SRaise e f4
          end
        end
      end
    end.
  Definition save := save_with h5_write.
  Definition save_legacy := save_with h5_write_legacy.
  Definition folder_of (r : sresult) : folder := match r with SOk f => f | SRaise _ f => f end.

  (* ------------------------------------------------------------------ load *)
  Record loaded := mkL {
    l_j : jparams; l_sched : Sched; l_loss : Loss;
    l_pdims : nat; l_params : list (list F); l_losses : list F; l_series : h5file; l_bnums : list Z; l_methods : list Z;
    l_dts : dtype * dtype * dtype * dtype
  }.
  Definition c_loss (r : csvrow) : F := fst (fst (fst r)).
  Definition c_bnum (r : csvrow) : Z := snd (fst (fst r)).
  Definition c_method (r : csvrow) : Z := snd (fst r).
  Definition c_params (r : csvrow) : list F := snd r.

  (* load 104-113: every file named in files_sha256 is read and hashed, in the order of the dictionary *)
  Definition check_digests (f : folder) (dgs : option (Dg * Dg * Dg * Dg)) : option cexn :=
    match dgs with
    | None => None
    | Some (d1, d2, d3, d4) =>
      match f_sched f with
      | None => Some ExMissing
      | Some bs =>
        if negb (Dg_eqb (dg_s bs) d1) then Some ExInconsistent else
        match f_loss f with
        | None => Some ExMissing
        | Some bl =>
          if negb (Dg_eqb (dg_l bl) d2) then Some ExInconsistent else
          match f_csv f with
          | None => Some ExMissing
          | Some ct =>
            if negb (Dg_eqb (dg_c ct) d3) then Some ExInconsistent else
            match f_h5 f with
            | None => Some ExMissing
            | Some h => if negb (Dg_eqb (dg_h h) d4) then Some ExInconsistent else None
            end
          end
        end
      end
    end.

  Definition load (f : folder) : result loaded :=
    match f_json f with
    | None => Raise ExMissing
    | Some jt =>
      match jdec jt with
      | None => Raise ExDecode
      | Some j =>
        match check_digests f (j_files j) with
        | Some e => Raise e
        | None =>
        match f_csv f with
        | None => Raise ExMissing
        | Some ct =>
          match csv_parse ct with
          | None => Raise ExDecode
          | Some t =>
            let dims := length (j_precision j) in        (* columns params_samp_0 .. params_samp_{dims-1}; dims from the JSON *)
            if negb (Nat.leb dims (t_ncols t)) then Raise ExKey else
            if Nat.eqb dims 0 then Raise ExStack else
            let n := length (t_rows t) in
            match f_sched f with
            | None => Raise ExMissing
            | Some None => Raise ExDecode
            | Some (Some bs) =>
              match unpick_s bs with
              | None => Raise ExDecode
              | Some sc =>
                match f_loss f with
                | None => Raise ExMissing
                | Some None => Raise ExDecode
                | Some (Some bl) =>
                  match unpick_l bl with
                  | None => Raise ExDecode
                  | Some lo =>
                    match f_h5 f with
                    | None => Raise ExMissing
                    | Some h =>
                      Ok (mkL j sc lo dims
                              (map (fun r => firstn dims (c_params r)) (t_rows t))      (* np.vstack(columns).T *)
                              (map c_loss (t_rows t)) h (map c_bnum (t_rows t)) (map c_method (t_rows t))
                              (astype DF64 (inferred DF64 n), astype DF64 (inferred DF64 n),
                               astype DI64 (inferred DI64 n), astype DI64 (inferred DI64 n)))
                    end
                  end
                end
              end
            end
          end
        end
        end
      end
    end.

  (* ------------------------------------------------------------------ Calibrator.restore_from_checkpoint *)
  (* the constructor call (calibrator.py 289-303): a fresh calibrator on the unpickled scheduler and loss *)
  Definition construct (l : loaded) (name : Str) : state :=
    let j := l_j l in
    mkState (j_bounds j) (j_precision j) (j_real j) (j_E j) (j_N j) (* sim_length *) (ncols (j_real j)) (* real_data.shape[1] *)
            (j_prec j) (j_verbose j) (j_saving j) (j_seed j) (fresh_gen (j_seed j)) name
            (l_sched l) (l_loss l) 0 0 (j_njobs j)
            (length (j_precision j)) [] [] (j_E j, j_N j, ncols (j_real j)) [] [] []
            (table_of (l_sched l)) live_dts.

  Definition restore (f : folder) (name : Str) : result state :=
    match load f with
    | Raise e => Raise e
    | Ok l =>
      if negb (str_eqb (j_model (l_j l)) name) then Raise ExModelName else
      let c := construct l name in
      (* 305-311: counters and records overwritten; 314-316: the stored id table; 319: the generator state *)
      Ok (mkState (s_bounds c) (s_precision c) (s_real c) (s_E c) (s_N c) (s_D c) (s_prec c) (s_verbose c) (s_saving c)
                  (s_seed c) (j_gen (l_j l)) (s_model c) (s_sched c) (s_loss c)
                  (j_batch (l_j l)) (j_nsampled (l_j l)) (s_njobs c)
                  (l_pdims l) (l_params l) (l_losses l) (h_shape (l_series l)) (h_rows (l_series l)) (l_bnums l) (l_methods l)
                  (match j_table (l_j l) with Some t => t | None => s_table c end)
                  (l_dts l))
    end.

  (* what a live calibrator always satisfies (constructor + C02's alignment invariant) and the round trip needs *)
  Definition wf (s : state) : Prop :=
    s_D s = ncols (s_real s) /\
    length (s_bnums s) = length (s_losses s) /\ length (s_methods s) = length (s_losses s) /\
    length (s_params s) = length (s_losses s) /\
    Forall (fun r => length r = s_pdims s) (s_params s) /\
    s_pdims s = length (s_precision s) /\ s_pdims s <> 0 /\
    s_dts s = live_dts.

  (* ------------------------------------------------------------------ SQLite back-end: one table, one row *)
  Inductive sqlnum := SqlInt (n : nat) | SqlReal (n : nat).     (* SqlReal n is the REAL value float(n) *)
  Record row20 := mkRow {
    q_bounds : list (list F); q_precision : list F; q_real : list (list F);
    q_E : nat; q_N : nat; q_D : nat;
    q_prec : option sqlnum;            (* column declared DOUBLE: REAL affinity turns an integer into a float *)
    q_verbose : nat;                   (* column declared INTEGER: a bool is stored as 0/1 *)
    q_saving : option Str; q_seed : option Z; q_gen : Gen (* json text *); q_model : Str;
    q_sched : PSched; q_loss : PLoss; q_batch : nat;
    q_pdims : nat; q_params : list (list F); q_losses : list F; q_series : h5file (* gzipped np.save blob *);
    q_bnums : list Z; q_methods : list Z; q_dts : dtype * dtype * dtype * dtype
  }.
  Record db := mkDb { db_version : Z; db_table : option (list row20) }.
  Definition empty_db : db := mkDb 0 None.                      (* what sqlite3.connect creates *)
  Definition SCHEMA_VERSION : Z := 3.

  (* the 20 fields the back-end is given: no n_sampled_params, no n_jobs, no samplers_id_table *)
  Record loaded20 := mkL20 {
    r_bounds : list (list F); r_precision : list F; r_real : list (list F);
    r_E : nat; r_N : nat; r_D : nat; r_prec : option nat; r_verbose : bool;
    r_saving : option Str; r_seed : option Z; r_gen : Gen; r_model : Str; r_sched : Sched; r_loss : Loss; r_batch : nat;
    r_pdims : nat; r_params : list (list F); r_losses : list F; r_series : h5file; r_bnums : list Z; r_methods : list Z;
    r_dts : dtype * dtype * dtype * dtype
  }.
  Definition project20 (s : state) : loaded20 :=
    mkL20 (s_bounds s) (s_precision s) (s_real s) (s_E s) (s_N s) (s_D s) (s_prec s) (s_verbose s) (s_saving s) (s_seed s)
          (s_gen s) (s_model s) (s_sched s) (s_loss s) (s_batch s) (s_pdims s) (s_params s) (s_losses s)
          (mkH5 (s_sshape s) (s_series s)) (s_bnums s) (s_methods s) (s_dts s).

  Definition save_sql (d : db) (s : state) : result db :=
    (* 330-331: both pickles are taken before the connection is opened *)
    match pick_s (s_sched s) with
    | None => Raise ExPickle
    | Some bs =>
      match pick_l (s_loss s) with
      | None => Raise ExPickle
      | Some bl =>
        let r := mkRow (s_bounds s) (s_precision s) (s_real s) (s_E s) (s_N s) (s_D s)
                       (option_map SqlReal (s_prec s)) (if s_verbose s then 1 else 0)
                       (s_saving s) (s_seed s) (s_gen s) (s_model s) bs bl (s_batch s)
                       (s_pdims s) (s_params s) (s_losses s) (mkH5 (s_sshape s) (s_series s)) (s_bnums s) (s_methods s) (s_dts s) in
        (* PRAGMA user_version=3; CREATE TABLE IF NOT EXISTS; then, in ONE transaction (584c2dd): DELETE FROM checkpoint;
           INSERT; COMMIT - a failure rolls back to the previous row (C06) *)
        Ok (mkDb SCHEMA_VERSION (Some [r]))
      end
    end.

  Definition load_sql (d : db) : result loaded20 :=
    if negb (Z.eqb (db_version d) SCHEMA_VERSION) then Raise ExSchema else
    match db_table d with
    | None => Raise ExNoTable
    | Some [] => Raise ExNoRow
    | Some (r :: _) =>                                            (* fetchone() *)
      match unpick_s (q_sched r) with
      | None => Raise ExDecode
      | Some sc =>
        match unpick_l (q_loss r) with
        | None => Raise ExDecode
        | Some lo =>
          Ok (mkL20 (q_bounds r) (q_precision r) (q_real r) (q_E r) (q_N r) (q_D r)
                    (* repair: a REAL holding an integer is turned back into an int *)
                    (match q_prec r with None => None | Some (SqlInt n) => Some n | Some (SqlReal n) => Some n end)
                    (negb (Nat.eqb (q_verbose r) 0))              (* repair: bool(verbose) *)
                    (q_saving r) (q_seed r) (q_gen r) (q_model r) sc lo (q_batch r)
                    (q_pdims r) (q_params r) (q_losses r) (q_series r) (q_bnums r) (q_methods r) (q_dts r))
        end
      end
    end.
End Ckpt.

(* ---------------------------------------------------------------------- link with the shared calibrator model *)
(* A `core` of Model/Calibrator.v seen as the persisted state: Param = grid point, Series = one simulated series
   (flattened), LossV = a float; the remaining (constant) configuration comes from a template state. *)
Section OfCore.
  Variable F : Type.
  Variables Str Gen : Type.
  Variable gen_at : nat -> Gen.                       (* generator state after k draws *)
  Variable cls_name : nat -> Str.                     (* type(sampler).__name__ *)
  Definition of_core (tpl : state F Str Gen (sched F) unit) (c : core (list F) (list F) F) : state F Str Gen (sched F) unit :=
    mkState F Str Gen (sched F) unit
      (s_bounds _ _ _ _ _ tpl) (s_precision _ _ _ _ _ tpl) (s_real _ _ _ _ _ tpl)
      (c_E (cfg _ _ _ c)) (s_N _ _ _ _ _ tpl) (s_D _ _ _ _ _ tpl) (c_prec (cfg _ _ _ c)) (c_verbose (cfg _ _ _ c))
      (s_saving _ _ _ _ _ tpl) (s_seed _ _ _ _ _ tpl) (gen_at (rng_pos _ _ _ c)) (s_model _ _ _ _ _ tpl)
      (sch _ _ _ c) tt (batch_idx _ _ _ c) (n_sampled _ _ _ c) (s_njobs _ _ _ _ _ tpl)
      (s_pdims _ _ _ _ _ tpl) (params _ _ _ c) (losses _ _ _ c)
      (s_sshape _ _ _ _ _ tpl) (map (fun members => concat members) (series _ _ _ c))
      (map Z.of_nat (batch_nums _ _ _ c)) (map Z.of_nat (methods _ _ _ c))
      (map (fun ci => (cls_name (fst ci), snd ci)) (tbl _ _ _ c)) (s_dts _ _ _ _ _ tpl).
  (* pickle of a scheduler of the shared model: a round-robin scheduler pickles, an RL scheduler does not *)
  Definition pick_sched (sc : sched F) : option (sched F) := match sc with RR _ _ _ => Some sc | RL _ _ _ _ _ _ _ => None end.
End OfCore.
