(* Model of BestBatchSampler.sample_batch  (black_it/samplers/best_batch.py:83-152, with the final snap of bc8d6d0),
   over exact rationals.  Executable definitions only; proofs are in Proofs/BestBatchP.v.

   The random draws are INPUTS constrained by their ranges (`choice_okb`), in the order the source makes them:
     candidate_point_indexes = generator.integers(0, batch_size, size=batch_size)          -> parent of each row
     per row:  num_shocks = betabinom(n = dims-1, a, b).rvs(size=1) + 1                     -> 1 <= |J| <= dims
               params_shocked = generator.choice(dims, num_shocks, replace=False)          -> J, no repetition
               per index of J: shock_size = generator.integers(1, perturbation_range)      -> 1 <= size < range
                               shock_sign = generator.integers(0, 2) * 2 - 1               -> -1 / +1
   np.argsort(existing_losses) is a Section variable (ANY sorting permutation: ties are the implementation's choice).
   The model returns (proposals, history'): the history is only read (fancy indexing copies). *)
From Coq Require Import List QArith Qabs Bool Arith ZArith Floats.
From BlackIt Require Export Model.Surrogate.
Import ListNotations.

Inductive result (A : Type) : Type :=
| Ok (a : A)
| RaiseValueError.                               (* best_batch.py:101-108 *)
Arguments Ok {A} a.
Arguments RaiseValueError {A}.

(* one shock: coordinate index, shock_size, sign draw (true: integers(0,2) = 1, i.e. +1; false: -1) *)
Definition shock : Type := (nat * nat * bool)%type.
Definition s_coord (s : shock) : nat := fst (fst s).
Definition s_size (s : shock) : nat := snd (fst s).
Definition s_sign (s : shock) : bool := snd s.
(* one row of the batch: position of its parent among the candidates, and its shocks in drawing order *)
Definition row_choice : Type := (nat * list shock)%type.

Record space : Type := mk_space {
  lower : list Q;                                (* search_space.parameters_bounds[0] *)
  upper : list Q;                                (* search_space.parameters_bounds[1] *)
  prec : list Q;                                 (* search_space.parameters_precision *)
  grids : list (list Q)                          (* search_space.param_grid *)
}.
Definition dims (sp : space) : nat := length (prec sp).      (* search_space.dims *)

(* np.clip(x, lo, hi) = minimum(maximum(x, lo), hi) *)
Definition Qmaxb (a b : Q) : Q := if Qle_bool a b then b else a.
Definition Qminb (a b : Q) : Q := if Qle_bool a b then a else b.
Definition clipQ (x lo hi : Q) : Q := Qminb (Qmaxb x lo) hi.

Definition sign_q (b : bool) : Q := if b then 1 else -1.
(* the signed number of precision steps of a shock *)
Definition steps_of (s : shock) : Z := if s_sign s then Z.of_nat (s_size s) else (- Z.of_nat (s_size s))%Z.

Fixpoint update (j : nat) (f : Q -> Q) (row : list Q) {struct row} : list Q :=
  match row, j with
  | [], _ => []
  | x :: r, O => f x :: r
  | x :: r, S j' => x :: update j' f r
  end.

(* best_batch.py:141-149 for one index of params_shocked:
     shift = delta * shock_sign * shock_size ; sampled_point[index] += shift ; sampled_point[index] = np.clip(...)
   `clipping = false` is the same statement sequence without the clip (the displacement "before clipping"). *)
Definition shock_fun (sp : space) (clipping : bool) (s : shock) (x : Q) : Q :=
  let j := s_coord s in
  let shift := nth j (prec sp) 0 * sign_q (s_sign s) * inject_Z (Z.of_nat (s_size s)) in
  let y := x + shift in
  if clipping then clipQ y (nth j (lower sp) 0) (nth j (upper sp) 0) else y.
Definition shock_step (sp : space) (clipping : bool) (row : list Q) (s : shock) : list Q :=
  update (s_coord s) (shock_fun sp clipping s) row.
Definition shocked (sp : space) (clipping : bool) (c : list Q) (ss : list shock) : list Q :=
  fold_left (shock_step sp clipping) ss c.

(* the ranges of the draws *)
Fixpoint nodupb (l : list nat) : bool :=
  match l with [] => true | x :: r => negb (existsb (Nat.eqb x) r) && nodupb r end.
Definition shock_okb (sp : space) (range : nat) (s : shock) : bool :=
  (s_coord s <? dims sp) && (1 <=? s_size s) && (s_size s <? range).
Definition choice_okb (k : nat) (sp : space) (range : nat) (c : row_choice) : bool :=
  (fst c <? k) && (1 <=? length (snd c)) && (length (snd c) <=? dims sp)
  && nodupb (map s_coord (snd c)) && forallb (shock_okb sp range) (snd c).

Section BestBatch.
  Variable L : Type.
  Variable argsort : list L -> list nat.                     (* np.argsort(existing_losses) *)
  Definition bhistory : Type := (list (list Q) * list L)%type.

  Record bb_trace : Type := mk_bb_trace {
    b_order : list nat;                                      (* np.argsort(existing_losses) *)
    b_candidates : list (list Q);                            (* existing_points[order][:batch_size, :] *)
    b_parents : list (list Q);                               (* candidate_points[candidate_point_indexes] *)
    b_raw : list (list Q)                                    (* sampled_points as handed to digitize_data *)
  }.

  Definition candidates (k : nat) (h : bhistory) : list (list Q) :=
    firstn k (take_rows (fst h) (argsort (snd h))).
  Definition parent_of (k : nat) (h : bhistory) (c : row_choice) : list Q := nth (fst c) (candidates k h) [].

  Definition sample_batch (k : nat) (sp : space) (h : bhistory) (choices : list row_choice)
    : result (list (list Q) * bhistory * bb_trace) :=
    if length (fst h) <? k then RaiseValueError
    else
      let parents := map (parent_of k h) choices in
      let raw := map (fun c => shocked sp true (parent_of k h c) (snd c)) choices in
      Ok (digitizeQ raw (grids sp), h, mk_bb_trace (argsort (snd h)) (candidates k h) parents raw).
End BestBatch.

(* ---------------------------------------------------------------- correspondence *)
Definition tolq : Q := 1 # 1099511627776.                    (* 2^-40 *)
Definition close_q (m o : Q) : bool := Qle_bool (Qabs (o - m)) (tolq * Qmaxb 1 (Qabs m)).
Fixpoint close_l (a b : list Q) : bool :=
  match a, b with
  | [], [] => true
  | x :: a', y :: b' => close_q x y && close_l a' b'
  | _, _ => false
  end.
Fixpoint close_m (a b : list (list Q)) : bool :=
  match a, b with
  | [], [] => true
  | x :: a', y :: b' => close_l x y && close_m a' b'
  | _, _ => false
  end.

(* one observed sample_batch call.  exact = every float operation of the call is exact (dyadic space and history):
   the observed pre-snap array and return value must equal the model's; otherwise the pre-snap array must agree
   within 2^-40 relative (two rounded float operations per shocked coordinate) and the return value must be the
   snap of the OBSERVED pre-snap array (tolerant comparison of Model/Snap.v). *)
Inductive bcase :=
| BB (exact : bool) (k range : nat) (lo up pr : list float) (grid : list (list float))
     (pts : list (list float)) (losses : list float) (order : list nat) (choices : list row_choice)
     (raised : bool) (raw out : list (list float))
     (pts' : list (list float)) (losses' : list float).       (* the caller's arrays when sample_batch returned *)

Definition check_bcase (c : bcase) : bool :=
  match c with
  | BB exact k range lo up pr grid pts losses order choices raised raw out pts' losses' =>
      let sp := mk_space (qs lo) (qs up) (qs pr) (qss grid) in
      finite_l lo && finite_l up && finite_l pr && finite_m grid && finite_m pts && no_nan_l losses &&
      finite_m raw && finite_m out && finite_m pts' && no_nan_l losses' &&
      match sample_batch Q (fun _ => order) k sp (qss pts, ls losses) choices with
      | RaiseValueError => raised && hist_eqb (qss pts, ls losses) (qss pts', ls losses')
      | Ok (mout, h', tr) =>
          negb raised
          && is_argsortQ (ls losses) order
          && Nat.eqb (length choices) k
          && forallb (choice_okb k sp range) choices
          && hist_eqb h' (qss pts', ls losses')
          && (if exact then qmat_eqb (b_raw tr) (qss raw) && qmat_eqb mout (qss out)
              else close_m (b_raw tr) (qss raw) && mat_ok true (qss grid) (qss raw) (qss out))
      end
  end.
