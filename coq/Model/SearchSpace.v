(* Model of SearchSpace.__init__ / SearchSpace._check_bounds  (black_it/search_space.py:31-146, 163-171)
   and of the seven SearchSpaceError subclasses with their attributes (search_space.py:184-327).
   Executable definitions only; proofs are in Proofs/SearchSpaceP.v. *)
From Coq Require Import List ZArith QArith Qabs Qround Bool Floats.
From BlackIt Require Export Lib.Cases.
Import ListNotations.
Local Open Scope nat_scope.

(* ------------------------------------------------------------------------------------------------
   Exceptions.  One constructor per subclass; the arguments are the attributes the Python object carries,
   in the order of the Python constructor. *)
Section Errors.
  Variable num : Type.
  Inductive ss_error : Type :=
  | BoundsNotOfSizeTwo (count_bounds_subarrays : nat)                         (* :184-197 *)
  | BoundsOfDifferentLength (lower_bounds_length upper_bounds_length : nat)   (* :200-221 *)
  | BadPrecisionLength (precisions_length bounds_length : nat)                (* :224-242 *)
  | SameLowerAndUpperBound (param_index : nat) (bound_value : num)            (* :245-261 *)
  | LowerBoundGreaterThanUpperBound (param_index : nat) (lower_bound upper_bound : num)   (* :264-285 *)
  | PrecisionZero (param_index : nat)                                          (* :288-297 *)
  | PrecisionGreaterThanBoundsRange (param_index : nat) (lower_bound upper_bound precision : num). (* :300-327 *)
  Inductive result : Type := Ok | Err (e : ss_error).
End Errors.
Arguments BoundsNotOfSizeTwo {num}.
Arguments BoundsOfDifferentLength {num}.
Arguments BadPrecisionLength {num}.
Arguments SameLowerAndUpperBound {num}.
Arguments LowerBoundGreaterThanUpperBound {num}.
Arguments PrecisionZero {num}.
Arguments PrecisionGreaterThanBoundsRange {num}.
Arguments Ok {num}.
Arguments Err {num}.

(* ------------------------------------------------------------------------------------------------
   The validation cascade over an abstract numeric interface: exactly the four operations the source
   applies to the entries ( ==, >, -, and the literal 0 ). *)
Section Check.
  Variable num : Type.
  Variable eqb : num -> num -> bool.   (* a == b *)
  Variable gtb : num -> num -> bool.   (* a > b  *)
  Variable sub : num -> num -> num.    (* a - b  *)
  Variable zero : num.                 (* 0      *)

  (* search_space.py:123-146 — for i, (lower, upper, precision) in enumerate(zip(b[0], b[1], prec)) *)
  Fixpoint check_loop (i : nat) (lo up pr : list num) : result num :=
    match lo, up, pr with
    | l :: lo', u :: up', p :: pr' =>
        if eqb l u then Err (SameLowerAndUpperBound i l)                         (* :127-128 *)
        else if gtb l u then Err (LowerBoundGreaterThanUpperBound i l u)         (* :131-132 *)
        else if eqb p zero then Err (PrecisionZero i)                            (* :135-136 *)
        else if gtb p (sub u l) then Err (PrecisionGreaterThanBoundsRange i l u p)  (* :140-146 *)
        else check_loop (S i) lo' up' pr'
    | _, _, _ => Ok                                                              (* zip stops at the shortest *)
    end.

  (* search_space.py:104-121, then the loop *)
  Definition check_bounds (bounds : list (list num)) (prec : list num) : result num :=
    if negb (length bounds =? 2) then Err (BoundsNotOfSizeTwo (length bounds))           (* :104-105 *)
    else
      let b0 := nth 0 bounds [] in
      let b1 := nth 1 bounds [] in
      if negb (length b0 =? length b1)
      then Err (BoundsOfDifferentLength (length b0) (length b1))                         (* :109-113 *)
      else if negb (length prec =? length b0)
      then Err (BadPrecisionLength (length prec) (length b0))                            (* :117-121 *)
      else check_loop 0 b0 b1 prec.

  (* ---- declarative side: the list of ALL violated conditions, in the documented order.
     Every condition is tested on its own (no short-circuit). *)
  Definition structural (bounds : list (list num)) (prec : list num) : list (ss_error num) :=
    let b0 := nth 0 bounds [] in
    let b1 := nth 1 bounds [] in
    (if length bounds =? 2 then [] else [BoundsNotOfSizeTwo (length bounds)]) ++
    (if length b0 =? length b1 then [] else [BoundsOfDifferentLength (length b0) (length b1)]) ++
    (if length prec =? length b0 then [] else [BadPrecisionLength (length prec) (length b0)]).

  Definition at_index (i : nat) (l u p : num) : list (ss_error num) :=
    (if eqb l u then [SameLowerAndUpperBound i l] else []) ++
    (if gtb l u then [LowerBoundGreaterThanUpperBound i l u] else []) ++
    (if eqb p zero then [PrecisionZero i] else []) ++
    (if gtb p (sub u l) then [PrecisionGreaterThanBoundsRange i l u p] else []).

  Fixpoint per_index_from (i : nat) (lo up pr : list num) : list (ss_error num) :=
    match lo, up, pr with
    | l :: lo', u :: up', p :: pr' => at_index i l u p ++ per_index_from (S i) lo' up' pr'
    | _, _, _ => []
    end.

  Definition violations (bounds : list (list num)) (prec : list num) : list (ss_error num) :=
    structural bounds prec ++ per_index_from 0 (nth 0 bounds []) (nth 1 bounds []) prec.

  Definition first_violation (bounds : list (list num)) (prec : list num) : result num :=
    match violations bounds prec with [] => Ok | e :: _ => Err e end.
End Check.

(* documented order as a key: structural checks first (in their order), then index-major, and within one
   index  same < inverted < zero precision < precision too large *)
Definition err_key {num} (e : ss_error num) : nat * nat :=
  match e with
  | BoundsNotOfSizeTwo _ => (0, 0)
  | BoundsOfDifferentLength _ _ => (0, 1)
  | BadPrecisionLength _ _ => (0, 2)
  | SameLowerAndUpperBound i _ => (S i, 0)
  | LowerBoundGreaterThanUpperBound i _ _ => (S i, 1)
  | PrecisionZero i => (S i, 2)
  | PrecisionGreaterThanBoundsRange i _ _ _ => (S i, 3)
  end.
Definition key_lt (a b : nat * nat) : Prop := fst a < fst b \/ (fst a = fst b /\ snd a < snd b).

(* ------------------------------------------------------------------------------------------------
   Instances. *)
(* exact rationals: the value-level meaning of the cascade *)
Definition Qgtb (a b : Q) : bool := negb (Qle_bool a b).
Definition check_bounds_Q := check_bounds Q Qeq_bool Qgtb Qminus 0%Q.
Definition violations_Q := violations Q Qeq_bool Qgtb Qminus 0%Q.

(* IEEE binary64: what the interpreter computes (== and > are exact, `upper - lower` is one rounded subtraction) *)
Definition Fgtb (a b : float) : bool := PrimFloat.ltb b a.
Definition check_bounds_F := check_bounds float PrimFloat.eqb Fgtb PrimFloat.sub 0%float.
Definition violations_F := violations float PrimFloat.eqb Fgtb PrimFloat.sub 0%float.

(* ------------------------------------------------------------------------------------------------
   Discretisation (search_space.py:71-82), over Q:
     new_col = np.arange(lower, upper + 0.0000001, precision)    -- ceil((stop - start)/step) points start + i*step
     space_size *= len(new_col) *)
Definition grid_lenZ (eps l u p : Q) : Z := Qceiling ((u + eps - l) / p)%Q.
Definition grid_len (eps l u p : Q) : nat := Z.to_nat (grid_lenZ eps l u p).      (* a negative count is an empty array *)
Definition grid_eltZ (l p : Q) (k : Z) : Q := (l + inject_Z k * p)%Q.
Definition grid_elt (l p : Q) (i : nat) : Q := grid_eltZ l p (Z.of_nat i).
Definition grid_e (eps l u p : Q) : list Q := map (grid_elt l p) (seq 0 (grid_len eps l u p)).

(* the double nearest to 0.0000001 (0x1.ad7f29abcaf48p-24), exactly *)
Definition eps_impl : Q := Qmake 944473296573929 9444732965739290427392.
Definition grid (l u p : Q) : list Q := grid_e eps_impl l u p.

(* self._space_size = 1; for ...: self._space_size *= len(new_col) *)
Definition size_of_lens (lens : list Z) : Z := fold_left Z.mul lens 1%Z.
Definition space_size {A} (grids : list (list A)) : Z := size_of_lens (map (fun g => Z.of_nat (length g)) grids).

(* the set the size is the cardinal of *)
Fixpoint cartesian {A} (gs : list (list A)) : list (list A) :=
  match gs with
  | [] => [[]]
  | g :: r => flat_map (fun x => map (cons x) (cartesian r)) g
  end.

Fixpoint zip3 {A} (a b c : list A) : list (A * A * A) :=
  match a, b, c with
  | x :: a', y :: b', z :: c' => (x, y, z) :: zip3 a' b' c'
  | _, _, _ => []
  end.

(* the grids built by __init__ for rational inputs (bounds already validated) *)
Definition grids_Q (bounds : list (list Q)) (prec : list Q) : list (list Q) :=
  map (fun t => let '(l, u, p) := t in grid l u p) (zip3 (nth 0 bounds []) (nth 1 bounds []) prec).

(* SearchSpace(bounds, precision): raise, or (param_grid, space_size, dims) *)
Definition init_Q (bounds : list (list Q)) (prec : list Q) : ss_error Q + (list (list Q) * Z * nat) :=
  match check_bounds_Q bounds prec with
  | Err e => inl e
  | Ok => let g := grids_Q bounds prec in inr (g, space_size g, length prec)
  end.

(* ------------------------------------------------------------------------------------------------
   Correspondence: floats in, observation of the implementation in, bool out. *)
Local Open Scope Q_scope.
(* exact value of a finite double *)
Definition F2Q (f : float) : Q :=
  match Prim2SF f with
  | S754_finite s m e =>
      let a := if (0 <=? e)%Z then inject_Z (Z.pos m * 2 ^ e)
               else Qred (Qmake (Z.pos m) (2 ^ Z.to_pos (- e))%positive) in
      if s then Qopp a else a
  | _ => 0
  end.
Definition is_finite (f : float) : bool :=
  match Prim2SF f with S754_finite _ _ _ => true | S754_zero _ => true | _ => false end.

(* same datum (value and sign of zero; all NaNs identified) *)
Definition same_float (a b : float) : bool :=
  if is_nan a then is_nan b else PrimFloat.eqb a b && Bool.eqb (get_sign a) (get_sign b).

Definition err_eqb (a b : ss_error float) : bool :=
  match a, b with
  | BoundsNotOfSizeTwo n, BoundsNotOfSizeTwo n' => (n =? n')%nat
  | BoundsOfDifferentLength n m, BoundsOfDifferentLength n' m' => ((n =? n')%nat) && ((m =? m')%nat)
  | BadPrecisionLength n m, BadPrecisionLength n' m' => ((n =? n')%nat) && ((m =? m')%nat)
  | SameLowerAndUpperBound i v, SameLowerAndUpperBound i' v' => ((i =? i')%nat) && same_float v v'
  | LowerBoundGreaterThanUpperBound i l u, LowerBoundGreaterThanUpperBound i' l' u' =>
      ((i =? i')%nat) && same_float l l' && same_float u u'
  | PrecisionZero i, PrecisionZero i' => (i =? i')%nat
  | PrecisionGreaterThanBoundsRange i l u p, PrecisionGreaterThanBoundsRange i' l' u' p' =>
      ((i =? i')%nat) && same_float l l' && same_float u u' && same_float p p'
  | _, _ => false
  end.

(* an upper bound of the unit in the last place of a binary64 of magnitude |x| (between 1 and 2 ulp) *)
Definition ulp_ub (x : Q) : Q :=
  let n := Z.abs (Qnum x) in
  if (n =? 0)%Z then 0 else Qpower 2 (Z.log2 n - Z.log2 (Z.pos (Qden x)) - 52).

Definition Qmax3 (a b c : Q) : Q :=
  let m := if Qle_bool a b then b else a in if Qle_bool m c then c else m.

(* numpy computes element i as  l + i*((l+p)-l)  in binary64: the step is off by at most 2 ulp of the largest of
   |l|, |p|, |l+p|, which accumulates linearly in i; plus the roundings of the product and of the final sum *)
Definition step_ulp (l p : Q) : Q := ulp_ub (Qmax3 (Qabs l) (Qabs p) (Qabs (l + p))).
Definition elt_tol_with (su : Q) (k : Z) (x : Q) : Q := inject_Z (2 * k + 8) * su + 4 * ulp_ub x.
Definition elt_tol (l p : Q) (k : Z) (x : Q) : Q := elt_tol_with (step_ulp l p) k x.

(* numpy computes the count as ceil(fl(fl(fl(u+eps)-l)/p)); it can differ from ceil of the exact quotient only if
   the exact quotient is this close to an integer (roundings of the sum, the difference, the quotient - the last
   one widened to 2^-48 relative) *)
Definition len_slack (l u p : Q) : Q :=
  let s := u + eps_impl in
  (ulp_ub s + 2 * ulp_ub (s - l)) / Qabs p + Qabs ((s - l) / p) * Qpower 2 (-48).
Definition borderline (l u p : Q) : bool :=
  let r := (u + eps_impl - l) / p in
  let d1 := r - inject_Z (Qfloor r) in
  let d2 := inject_Z (Qceiling r) - r in
  Qle_bool (if Qle_bool d1 d2 then d1 else d2) (len_slack l u p).

(* what was observed *)
Inductive obs : Type :=
| ObsErr (e : ss_error float)                       (* exception: class and attributes *)
| ObsOk                                             (* _check_bounds returned; object not constructed *)
| ObsGrid (g : list (Z * list (Z * float))) (size : Z) (dims : nat)
     (* constructed: per parameter (len(param_grid[j]), sampled (index, element)), space_size, dims *)
| ObsOther.                                         (* anything else; never agrees with the model *)

Definition elt_ok_with (su l p : Q) (s : Z * float) : bool :=
  let '(k, x) := s in
  let m := Qred (grid_eltZ l p k) in
  is_finite x && Qle_bool (Qred (Qabs (F2Q x - m))) (Qred (elt_tol_with su k m)).
Definition elt_ok (l p : Q) (s : Z * float) : bool := elt_ok_with (step_ulp l p) l p s.

(* search_space.py:77 computes the stop value `upper + 0.0000001` as ONE binary64 addition (round 4: modelled as written).
   For |upper| >= 2^30 the addend is below half an ulp and the sum is `upper` again: the nudge that reaches np.arange is
   `eff_eps upper`, which is 0 there (and a multiple of ulp(upper) elsewhere), not 1e-7. *)
Definition eps_F : float := 0x1.ad7f29abcaf48p-24%float.
Definition stop_F (u : float) : float := (u + eps_F)%float.
Definition eff_eps (u : float) : Q := Qred (F2Q (stop_F u) - F2Q u).
Definition nudge_absorbed (u : float) : bool := PrimFloat.eqb (stop_F u) u.

Definition param_ok (t : float * float * float) (o : Z * list (Z * float)) : bool :=
  let '(lf, uf, pf) := t in
  let '(n_obs, samples) := o in
  let l := F2Q lf in let u := F2Q uf in let p := F2Q pf in
  let n := Z.max 0 (grid_lenZ (eff_eps uf) l u p) in
  let su := step_ulp l p in
  ((n_obs =? n)%Z || (borderline l u p && (Z.abs (n_obs - n) <=? 1)%Z))
  && forallb (fun s => (0 <=? fst s)%Z && (fst s <? n_obs)%Z && ((n <=? fst s)%Z || elt_ok_with su l p s)) samples.

Fixpoint forallb2 {A B} (f : A -> B -> bool) (a : list A) (b : list B) : bool :=
  match a, b with
  | [], [] => true
  | x :: a', y :: b' => f x y && forallb2 f a' b'
  | _, _ => false
  end.

Definition check_case (c : list (list float) * list float * obs) : bool :=
  let '(bounds, prec, o) := c in
  match o, check_bounds_F bounds prec with
  | ObsErr e, Err e' => err_eqb e e'
  | ObsOk, Ok => true
  | ObsGrid g size dims, Ok =>
      forallb2 param_ok (zip3 (nth 0 bounds []) (nth 1 bounds []) prec) g
      && (size =? size_of_lens (map fst g))%Z
      && (dims =? length prec)%nat
  | _, _ => false
  end.

(* diagnostic (never gates): does the exact-rational cascade decide like the binary64 one? *)
Definition exact_agrees (c : list (list float) * list float) : bool :=
  let '(bounds, prec) := c in
  match check_bounds_F bounds prec, check_bounds_Q (map (map F2Q) bounds) (map F2Q prec) with
  | Ok, Ok => true
  | Err e, Err e' => (fst (err_key e) =? fst (err_key e'))%nat && (snd (err_key e) =? snd (err_key e'))%nat
  | _, _ => false
  end.
